#!/bin/bash
# Offline build of the conformance harness and a syntax check of every TLA+ module.
set -e
cd "$(dirname "$0")"
export CARGO_NET_OFFLINE=true
(cd harness && cargo build --release --offline 2>&1 | tail -3)
mkdir -p work evidence replays
for f in spec/*.tla; do
  (cd spec && tla-sany "$(basename "$f")") > work/sany.out 2>&1 || { echo "SANY failed on $f"; tail -20 work/sany.out; exit 1; }
done
echo "setup ok"
