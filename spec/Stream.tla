------------------------------ MODULE Stream ------------------------------
(***************************************************************************)
(* C11: a multi-document stream is the list of its documents.              *)
(*                                                                         *)
(* A stream is a sequence of document KINDS:                               *)
(*   "V","W" valid values        "D" valid value that defines anchor a     *)
(*   "E" empty document          "N" explicit null document                *)
(*   "TE","TL" type error early / late in the document                     *)
(*   "A" document that is an alias to anchor a of an EARLIER document      *)
(*   "AN" such an alias nested inside a sequence (the scanner reports      *)
(*        "unknown anchor" but can go on scanning afterwards)              *)
(*   "S" syntax error, "U" unterminated flow collection                    *)
(*   "BF","BI" documents whose scalar bytes exceed the budget of the       *)
(*        budgeted iterator, at the first node / inside a sequence; for    *)
(*        every consumer without a budget they are type errors (early /    *)
(*        late)                                                            *)
(* Declarative meaning:                                                    *)
(*   Items(ks): per document in order - null/empty skipped, valid -> ok,   *)
(*   type error -> "type", anything the scanner rejects -> "syntax" and    *)
(*   nothing after it.                                                     *)
(* Operational part: the raw parser stream of the kinds (RawOf) consumed   *)
(* by models of from_multiple, ReadIter::next (finished / peek / null skip *)
(* / deserialize / skip_to_next_document / finish) and the single-document *)
(* probe of from_str.                                                      *)
(***************************************************************************)
EXTENDS Naturals, Sequences, FiniteSets, SequencesExt, TLC

Kinds == {"V", "W", "D", "E", "N", "TE", "TL", "A", "AN", "S", "U", "BF", "BI"}
Valid(k) == k \in {"V", "W", "D"}
Nullish(k) == k \in {"E", "N"}
TypeErr(k) == k \in {"TE", "TL", "BF", "BI"}
Breach(k) == k \in {"BF", "BI"}             \* over the budget (when there is one)
SyntaxErr(k) == k \in {"A", "S", "U"}        \* the scanner cannot go on
UnknownAlias(k) == k \in {"A", "AN"}

(* ---------------- declarative ---------------- *)
RECURSIVE Items(_)
Items(ks) == IF ks = <<>> THEN <<>>
             ELSE LET k == ks[1] IN
                  IF Nullish(k) THEN Items(Tail(ks))
                  ELSE IF Valid(k) THEN <<k>> \o Items(Tail(ks))
                  ELSE IF TypeErr(k) THEN <<"type">> \o Items(Tail(ks))
                  ELSE IF k = "AN" THEN <<"syntax">> \o Items(Tail(ks))
                  ELSE <<"syntax">>                                   \* the rest of the text is not YAML any more
IsErrItem(i) == i \in {"type", "syntax"}
(* batch: all values, or an error as soon as one item is an error *)
Batch(ks) == LET it == Items(ks) IN IF \E j \in 1..Len(it) : IsErrItem(it[j]) THEN <<"err">> ELSE <<"ok">> \o it
(* iterator: the same items; it continues after "type", ends after "syntax" (Items already stops there) *)
Iter(ks) == Items(ks)
(* An unknown alias is an error of that document; whether the iterator treats it like a syntax    *)
(* error (ends) or like a type-level error (goes on) is not prescribed: both are admissible.      *)
RECURSIVE IterAdmissible(_, _)
IterAdmissible(obs, ks) ==
  IF ks = <<>> THEN obs = <<>> ELSE
  LET k == ks[1] IN
  IF Nullish(k) THEN IterAdmissible(obs, Tail(ks))
  ELSE IF Valid(k) THEN obs # <<>> /\ obs[1] = k /\ IterAdmissible(Tail(obs), Tail(ks))
  ELSE IF TypeErr(k) THEN obs # <<>> /\ obs[1] = "type" /\ IterAdmissible(Tail(obs), Tail(ks))
  ELSE IF UnknownAlias(k) THEN obs # <<>> /\ obs[1] = "syntax" /\ (Tail(obs) = <<>> \/ IterAdmissible(Tail(obs), Tail(ks)))
  ELSE obs = <<"syntax">>
(* the iterator with a per-document budget: a document over the budget yields the budget error, and the iterator     *)
(* goes on with the following document wherever in the document the breach was noticed (per-document enforcement)   *)
RECURSIVE IterAdmissibleB(_, _)
IterAdmissibleB(obs, ks) ==
  IF ks = <<>> THEN obs = <<>> ELSE
  LET k == ks[1] IN
  IF Nullish(k) THEN IterAdmissibleB(obs, Tail(ks))
  ELSE IF Valid(k) THEN obs # <<>> /\ obs[1] = k /\ IterAdmissibleB(Tail(obs), Tail(ks))
  ELSE IF Breach(k) THEN obs # <<>> /\ obs[1] = "budget" /\ IterAdmissibleB(Tail(obs), Tail(ks))
  ELSE IF TypeErr(k) THEN obs # <<>> /\ obs[1] = "type" /\ IterAdmissibleB(Tail(obs), Tail(ks))
  ELSE IF UnknownAlias(k) THEN obs # <<>> /\ obs[1] = "syntax" /\ (Tail(obs) = <<>> \/ IterAdmissibleB(Tail(obs), Tail(ks)))
  ELSE obs = <<"syntax">>
(* the same stream read as pairs of integers: only "V" fits; every other document that scans is a type error, several  *)
(* of them noticed on a look-ahead (a surplus element, the end of a sequence that is too short)                       *)
TupleKind(k) == IF k \in {"W", "D", "TE", "TL", "BF", "BI"} THEN "TE" ELSE k
TupleView(ks) == [j \in 1..Len(ks) |-> TupleKind(ks[j])]
(* documents the scanner delivers before it fails (a syntax-error kind contributes a started document) *)
RECURSIVE DocCount(_)
DocCount(ks) == IF ks = <<>> THEN 0 ELSE IF SyntaxErr(ks[1]) THEN 1 ELSE 1 + DocCount(Tail(ks))
(* single-document entry points: exactly the first document, and nothing may follow it *)
Single(ks) == IF ks = <<>> THEN "null"
              ELSE IF SyntaxErr(ks[1]) THEN "err"
              ELSE IF TypeErr(ks[1]) \/ ks[1] = "AN" THEN "err"
              ELSE IF Len(ks) > 1 THEN "err"                          \* any second document, even an empty one
              ELSE IF Nullish(ks[1]) THEN "null" ELSE ks[1]

(* ---------------- raw stream of a kind sequence ---------------- *)
(* events: [k |-> "DS"|"DE"|"C"|"NUL"|"ERR"|"STE", doc |-> index of the document] ; "C" content, "NUL" a null scalar *)
REv(k, d) == [k |-> k, doc |-> d]
Content(n, d) == [j \in 1..n |-> REv("C", d)]
DocRaw(k, d) ==
  CASE k = "V"  -> <<REv("DS", d)>> \o Content(4, d) \o <<REv("DE", d)>>
    [] k = "W"  -> <<REv("DS", d)>> \o Content(3, d) \o <<REv("DE", d)>>
    [] k = "D"  -> <<REv("DS", d)>> \o Content(3, d) \o <<REv("DE", d)>>
    [] k \in {"E", "N"} -> <<REv("DS", d), REv("NUL", d), REv("DE", d)>>
    [] k \in {"TE", "TL", "BI"} -> <<REv("DS", d)>> \o Content(4, d) \o <<REv("DE", d)>>
    [] k = "BF" -> <<REv("DS", d), REv("C", d), REv("DE", d)>>
    [] k = "A"  -> <<REv("DS", d), REv("ERR", d)>>
    [] k = "AN" -> <<REv("DS", d), REv("C", d), REv("RERR", d), REv("C", d), REv("DE", d)>>   \* recoverable scan error
    [] k = "S"  -> <<REv("DS", d), REv("C", d), REv("ERR", d)>>
    [] k = "U"  -> <<REv("DS", d), REv("C", d), REv("C", d), REv("ERR", d)>>
RECURSIVE RawFrom(_, _)
RawFrom(ks, d) == IF d > Len(ks) THEN <<REv("STE", 0)>>
                  ELSE IF SyntaxErr(ks[d]) THEN DocRaw(ks[d], d)       \* the scanner stops at the error
                  ELSE DocRaw(ks[d], d) \o RawFrom(ks, d + 1)
RawOf(ks) == RawFrom(ks, 1)
(* how many content events the typed consumer takes before it reports a type error *)
AbortAfter(k) == IF k = "TE" THEN 2 ELSE IF k \in {"TL", "BI"} THEN 4 ELSE IF k = "AN" THEN 2 ELSE IF k = "BF" THEN 1 ELSE 0
=============================================================================
