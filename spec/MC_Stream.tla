---------------------------- MODULE MC_Stream ----------------------------
(***************************************************************************)
(* Exhaustive instance for C11: every sequence of document kinds up to     *)
(* MaxDocs, consumed by the operational models of the stream iterator      *)
(* (ReadIter::next in src/lib.rs), of the same iterator with a budget      *)
(* ("biter") and of from_multiple.  `mode` selects the consumer.  The pump is abstracted to: Pull = next raw event, with   *)
(* document markers skipped by the pump itself as in live_events.rs.       *)
(***************************************************************************)
EXTENDS Stream, Json
CONSTANTS MaxDocs, KindSet, SetsFinishedOnSyntax, PeekBreachEnds
VARIABLES ks, phase, mode,         \* generator / which consumer
          pos, out, finished, inDoc, taken, calls
vars == <<ks, phase, mode, pos, out, finished, inDoc, taken, calls>>

Raw == RawOf(ks)
GenAdd(k) == /\ phase = "gen" /\ Len(ks) < MaxDocs /\ ks' = Append(ks, k)
             /\ UNCHANGED <<phase, mode, pos, out, finished, inDoc, taken, calls>>
GenDone == /\ phase = "gen" /\ phase' = "run"
           /\ UNCHANGED <<ks, mode, pos, out, finished, inDoc, taken, calls>>

(* pump view: index of the next event that is not a document marker, starting at p *)
RECURSIVE SkipMarkers(_)
SkipMarkers(p) == IF p <= Len(Raw) /\ Raw[p].k \in {"DS", "DE"} THEN SkipMarkers(p + 1) ELSE p
Peek == LET p == SkipMarkers(pos) IN IF p > Len(Raw) THEN [k |-> "EOF", doc |-> 0] ELSE Raw[p]
PeekPos == SkipMarkers(pos)
(* skip_to_next_document: consume raw events until a DS has been consumed; FALSE at end / scan error *)
RECURSIVE SkipToDS(_)
SkipToDS(p) == IF p > Len(Raw) THEN <<p, FALSE>>
               ELSE IF Raw[p].k = "DS" THEN <<p + 1, TRUE>>
               ELSE IF Raw[p].k \in {"STE", "ERR"} THEN <<p + 1, FALSE>>
               ELSE SkipToDS(p + 1)

(* one call of ReadIter::next (the whole `loop`, which skips null documents) *)
RECURSIVE NextResult(_)
(* returns [pos, item ("" = None), finished] *)
NextResult(p) ==
  LET q == SkipMarkers(p)
      e == IF q > Len(Raw) THEN [k |-> "EOF", doc |-> 0] ELSE Raw[q] IN
  CASE e.k = "NUL" -> NextResult(q + 1)
    [] e.k = "C"   -> LET kind == ks[e.doc] IN
                      IF mode = "biter" /\ kind = "BF" THEN
                         \* the breach is raised by the first node, i.e. inside next()'s peek: the error arm of the match.
                         \* PeekBreachEnds = TRUE is the code before fix af67285 (that arm always set `finished`).
                         LET sk == SkipToDS(q + 1) IN
                         [pos |-> sk[1], item |-> "budget", finished |-> IF PeekBreachEnds THEN TRUE ELSE ~sk[2]]
                      ELSE IF mode = "biter" /\ kind = "BI" THEN
                         LET sk == SkipToDS(q + AbortAfter(kind)) IN [pos |-> sk[1], item |-> "budget", finished |-> ~sk[2]]
                      ELSE IF TypeErr(kind) \/ kind = "AN" THEN
                         LET sk == SkipToDS(q + AbortAfter(kind)) IN
                         [pos |-> sk[1], item |-> (IF kind = "AN" THEN "syntax" ELSE "type"), finished |-> ~sk[2]]
                      ELSE IF SyntaxErr(kind) THEN          \* the scan error surfaces while the value is read
                         LET sk == SkipToDS(q) IN [pos |-> sk[1], item |-> "syntax", finished |-> IF SetsFinishedOnSyntax THEN TRUE ELSE ~sk[2]]
                      ELSE [pos |-> (CHOOSE j \in q..Len(Raw) : Raw[j].k = "DE" /\ Raw[j].doc = e.doc), item |-> kind, finished |-> FALSE]
    [] e.k = "ERR" -> [pos |-> q + 1, item |-> "syntax", finished |-> TRUE]
    [] OTHER       -> [pos |-> q, item |-> "", finished |-> TRUE]      \* STE / EOF: Ok(None) -> finish()

IterCall ==
  /\ phase = "run" /\ mode \in {"iter", "biter"} /\ ~finished /\ calls <= Len(Raw) + 2
  /\ LET r == NextResult(pos) IN
     /\ pos' = r.pos /\ finished' = r.finished
     /\ out' = IF r.item = "" THEN out ELSE Append(out, r.item)
  /\ calls' = calls + 1 /\ UNCHANGED <<ks, phase, mode, inDoc, taken>>

(* from_multiple: loop { peek; null -> skip; Some -> deserialize or return Err; None -> break } *)
BatchRun ==
  /\ phase = "run" /\ mode = "batch" /\ ~finished
  /\ LET r == NextResult(pos) IN
     /\ pos' = r.pos
     /\ IF r.item = "" THEN finished' = TRUE /\ out' = <<"ok">> \o out
        ELSE IF IsErrItem(r.item) THEN finished' = TRUE /\ out' = <<"err">>
        ELSE finished' = FALSE /\ out' = Append(out, r.item)
  /\ calls' = calls + 1 /\ UNCHANGED <<ks, phase, mode, inDoc, taken>>

Init == /\ ks = <<>> /\ phase = "gen" /\ mode \in {"iter", "batch", "biter"} /\ pos = 1 /\ out = <<>> /\ finished = FALSE
        /\ inDoc = 0 /\ taken = 0 /\ calls = 0
Next == (\E k \in KindSet : GenAdd(k)) \/ GenDone \/ IterCall \/ BatchRun
Spec == Init /\ [][Next]_vars
FairSpec == Spec /\ WF_vars(IterCall) /\ WF_vars(BatchRun)

InvIter == (phase = "run" /\ mode = "iter" /\ finished) => IterAdmissible(out, ks)
InvIterExact == (phase = "run" /\ mode = "iter" /\ finished /\ \A j \in 1..Len(ks) : ~UnknownAlias(ks[j])) => out = Iter(ks)
InvIterPrefix == (phase = "run" /\ mode = "iter" /\ \A j \in 1..Len(ks) : ks[j] # "A") => IsPrefix(out, Iter(ks))
InvIterBudget == (phase = "run" /\ mode = "biter" /\ finished) => IterAdmissibleB(out, ks)
InvBatch == (phase = "run" /\ mode = "batch" /\ finished) => out = Batch(ks)
(* the iterator ends: at most one call per document plus the final None *)
InvTerminates == (phase = "run" /\ mode \in {"iter", "biter"}) => calls <= Len(ks) + 1
Terminates == (phase = "run") ~> finished
EmitCase == (phase = "run" /\ mode = "iter" /\ finished) => PrintT(<<"CASE", ToJson([kinds |-> ks])>>)
=============================================================================
