---------------------------- MODULE TypedCursor ----------------------------
(***************************************************************************)
(* C05: typed deserialization is position-faithful.                        *)
(*                                                                         *)
(* Schemas are uniform records [t, ss]:                                    *)
(*   t \in {"Bool","Int","Str","Unit"}            ss = <<>>                *)
(*   "Opt","Seq","Map"                            ss = <<S>>               *)
(*   "Tup"                                        ss = <<S1,..,Sk>>        *)
(*   "Struct"   fields a, b (, c) in this order   ss = <<Sa, Sb ..>>       *)
(*   "Enum"     variants U (unit), Nw (newtype), T (tuple of 2), St {a}    *)
(*                                                ss = <<SN, ST1, ST2, Sa>>*)
(* Faithful(S, x, i) is the value in which every Rust position is filled   *)
(* from the YAML node at the corresponding position of the alias-free      *)
(* stream x (node starting at i), or ERRN.  The documented leniencies are  *)
(* spelled out; nothing else is accepted.                                  *)
(***************************************************************************)
EXTENDS YamlModel, TLC

V(c, s, a) == N(c, s, a)
AnyErr(vs) == \E j \in 1..Len(vs) : IsErrN(vs[j])
FieldNames == <<"a", "b", "c">>
VariantNames == {"U", "Nw", "T", "St"}

PlainE(e) == e.k = "S" /\ e.q = "p"
NullLikeNode(x, i) == PlainE(x[i]) /\ x[i].t = "" /\ NullLikeText(x[i].v)
(* Option: an empty scalar that is not quoted, or plain ~ / null *)
NullForOption(x, i) == x[i].k = "S" /\ x[i].t = "" /\ ((x[i].v = "" /\ x[i].q \notin {"s", "d"}) \/ (x[i].q = "p" /\ NullLikeText(x[i].v)))
BoolText(v) == v \in {"true", "false"}
IntText(v) == v \in {"0", "1", "2", "3", "4", "5", "6", "7", "8", "9"}

Items(x, ss) == ItemStarts(x, ss + 1)
Entries(x, ms) == EntryStarts(x, ms + 1)
ValOf(x, e) == E(x, e) + 1

RECURSIVE Faithful(_, _, _)
(* a mapping read as string-keyed entries: keys must be scalars acceptable as strings, no key may repeat *)
KeyText(x, e) == x[e].v
KeyOk(x, e) == x[e].k = "S" /\ ~NullLikeNode(x, e)
NoRepeat(x, es) == \A i, j \in 1..Len(es) : i # j => KeyText(x, es[i]) # KeyText(x, es[j])

(* values under keys the target ignores are still read (and discarded): a repeated mapping key inside them is an error *)
RECURSIVE NoDupBelow(_, _)
NoDupBelow(x, i) ==
  CASE x[i].k = "SS" -> \A j \in 1..Len(Items(x, i)) : NoDupBelow(x, Items(x, i)[j])
    [] x[i].k = "MS" -> LET es == Entries(x, i) IN
                        /\ \A a, b \in 1..Len(es) : (a # b /\ x[es[a]].k = "S" /\ x[es[b]].k = "S") => KeyText(x, es[a]) # KeyText(x, es[b])
                        /\ \A a \in 1..Len(es) : NoDupBelow(x, es[a]) /\ NoDupBelow(x, ValOf(x, es[a]))
    [] OTHER -> TRUE
StructAt(S, x, i) ==
  IF x[i].k # "MS" /\ ~NullLikeNode(x, i) THEN ERRN ELSE
  LET es == IF x[i].k = "MS" THEN Entries(x, i) ELSE <<>>
      nf == Len(S.ss)
      Occ(n) == SelectSeq(es, LAMBDA e : x[e].k = "S" /\ KeyText(x, e) = n)
      Field(j) == LET o == Occ(FieldNames[j]) IN
                  IF Len(o) = 0 THEN (IF S.ss[j].t = "Opt" THEN V("None", "", <<>>) ELSE ERRN)
                  ELSE Faithful(S.ss[j], x, ValOf(x, o[1]))
      vs == [j \in 1..nf |-> Field(j)]
      badKey == \E j \in 1..Len(es) : ~KeyOk(x, es[j])
      badIgnored == \E j \in 1..Len(es) : x[es[j]].k = "S" /\ (\A n \in 1..nf : KeyText(x, es[j]) # FieldNames[n]) /\ ~NoDupBelow(x, ValOf(x, es[j]))
  IN IF badKey \/ badIgnored \/ ~NoRepeat(x, es) \/ AnyErr(vs) THEN ERRN ELSE V("Struct", "", vs)

TupAt(ss, x, i, ctor) ==
  IF x[i].k # "SS" THEN ERRN ELSE
  LET its == Items(x, i) IN
  IF Len(its) # Len(ss) THEN ERRN
  ELSE LET vs == [j \in 1..Len(its) |-> Faithful(ss[j], x, its[j])] IN IF AnyErr(vs) THEN ERRN ELSE V(ctor, "", vs)

(* payload of variant `name` found at node p *)
Payload(S, x, name, p) ==
  CASE name = "U"  -> IF NullLikeNode(x, p) THEN V("U", "", <<>>) ELSE ERRN
    [] name = "Nw"  -> LET v == Faithful(S.ss[1], x, p) IN IF IsErrN(v) THEN ERRN ELSE V("Nw", "", <<v>>)
    [] name = "T"  -> TupAt(<<S.ss[2], S.ss[3]>>, x, p, "T")
    [] name = "St" -> LET v == StructAt([t |-> "Struct", ss |-> <<S.ss[4]>>], x, p) IN IF IsErrN(v) THEN ERRN ELSE V("St", "", v.a)
    [] OTHER -> ERRN
(* `Variant` alone: names a unit variant, or a variant whose payload can be built from nothing - the payload is read *)
(* from an empty node, which reads like `~`: a unit, None, an empty sequence / map, a struct all of whose fields are  *)
(* options, and so on recursively; a tuple variant and scalar payloads cannot                                          *)
NullStream == <<Ev("S", 0, "~", "p", "")>>
(* `!Variant payload`: the tag names the variant, the node itself (a scalar or a sequence; the crate does not look at   *)
(* tags on mappings) is the payload.  A tagged scalar is handed to the payload as a string, so a string payload takes  *)
(* the text as it is; the other payload kinds read the untagged node.  A unit variant carries no payload: its scalar   *)
(* must be empty or null-like.                                                                                         *)
TagName(t) == IF Len(t) >= 2 /\ SubSeq(t, 1, 1) = "!" /\ SubSeq(t, 2, 2) # "!" THEN SubSeq(t, 2, Len(t)) ELSE ""
Untag(x, i) == [x EXCEPT ![i].t = ""]
TaggedEnumAt(S, x, i) ==
  LET name == TagName(x[i].t)  y == Untag(x, i) IN
  IF name \notin VariantNames THEN ERRN
  ELSE IF x[i].k = "S" THEN
     (CASE name = "U" -> IF NullLikeNode(y, i) \/ y[i].v = "" THEN V("U", "", <<>>) ELSE ERRN
        [] name = "Nw" -> IF S.ss[1].t = "Str" THEN V("Nw", "", <<V("S", x[i].v, <<>>)>>) ELSE Payload(S, y, "Nw", i)
        [] name = "St" -> Payload(S, y, "St", i)
        [] OTHER -> ERRN)
  ELSE IF x[i].k = "SS" THEN (CASE name \in {"T", "Nw"} -> Payload(S, y, name, i) [] OTHER -> ERRN)
  \* a tagged mapping: the mapping is the payload (a struct variant's fields, a newtype variant's map / struct payload)
  ELSE (CASE name \in {"St", "Nw"} -> Payload(S, y, name, i) [] OTHER -> ERRN)
EnumAt(S, x, i) ==
  IF x[i].k \in {"S", "SS", "MS"} /\ TagName(x[i].t) # "" THEN TaggedEnumAt(S, x, i)
  ELSE IF x[i].k = "S" THEN
     (IF x[i].t # "" THEN ERRN
      ELSE IF x[i].v = "U" THEN V("U", "", <<>>)
      ELSE IF x[i].v \in {"Nw", "St"} THEN Payload(S, NullStream, x[i].v, 1)
      ELSE ERRN)
  ELSE IF x[i].k = "MS" THEN
     LET es == Entries(x, i) IN
     IF Len(es) # 1 \/ x[es[1]].k # "S" THEN ERRN                     \* `{Variant: payload}` and nothing else
     ELSE Payload(S, x, x[es[1]].v, ValOf(x, es[1]))
  ELSE ERRN

Faithful(S, x, i) ==
  \* a typed request reads the scalar's text whatever its style (quoted "7" is 7 for an integer target)
  CASE S.t = "Bool" -> IF x[i].k = "S" /\ BoolText(x[i].v) THEN V("B", x[i].v, <<>>) ELSE ERRN
    [] S.t = "Int"  -> IF x[i].k = "S" /\ IntText(x[i].v) THEN V("I", x[i].v, <<>>) ELSE ERRN
    [] S.t = "Str"  -> IF x[i].k = "S" /\ ~NullLikeNode(x, i) THEN V("S", x[i].v, <<>>) ELSE ERRN
    [] S.t = "Unit" -> IF NullLikeNode(x, i) THEN V("Unit", "", <<>>) ELSE ERRN
    [] S.t = "Opt"  -> IF NullForOption(x, i) THEN V("None", "", <<>>)
                       ELSE LET v == Faithful(S.ss[1], x, i) IN IF IsErrN(v) THEN ERRN ELSE V("Some", "", <<v>>)
    [] S.t = "Seq"  -> IF NullLikeNode(x, i) THEN V("Seq", "", <<>>)
                       ELSE IF x[i].k # "SS" THEN ERRN
                       ELSE LET its == Items(x, i)  vs == [j \in 1..Len(its) |-> Faithful(S.ss[1], x, its[j])] IN
                            IF AnyErr(vs) THEN ERRN ELSE V("Seq", "", vs)
    [] S.t = "Tup"  -> TupAt(S.ss, x, i, "Tup")
    [] S.t = "Map"  -> IF NullLikeNode(x, i) THEN V("Map", "", <<>>)
                       ELSE IF x[i].k # "MS" THEN ERRN
                       ELSE LET es == Entries(x, i)
                                vs == [j \in 1..Len(es) |-> Faithful(S.ss[1], x, ValOf(x, es[j]))] IN
                            IF (\E j \in 1..Len(es) : ~KeyOk(x, es[j])) \/ ~NoRepeat(x, es) \/ AnyErr(vs) THEN ERRN
                            ELSE V("Map", "", [j \in 1..Len(es) |-> V("P", "", <<V("S", KeyText(x, es[j]), <<>>), vs[j]>>)])
    [] S.t = "Struct" -> StructAt(S, x, i)
    [] S.t = "Enum" -> EnumAt(S, x, i)
    [] OTHER -> ERRN

(* the whole document: exactly one node, nothing may be left over (entry points reject surplus) *)
FaithfulDoc(S, x) == IF x = <<>> \/ E(x, 1) # Len(x) THEN ERRN ELSE Faithful(S, x, 1)
=============================================================================
