----------------------------- MODULE TR_Budget -----------------------------
(***************************************************************************)
(* Action-level trace validation of the budget enforcer (C07).             *)
(*                                                                         *)
(* BudgetEnforcer::observe is instrumented (cfg serde_saphyr_verif) to log *)
(* on entry the event about to be counted (kind, anchor id, scalar bytes,  *)
(* merge-key flag, whether alias expansions are fed to the enforcer) and   *)
(* the enforcer's state BEFORE it (the eight counters, current depth,      *)
(* height of the container stack, key / value phase of the innermost       *)
(* mapping).  One record = one parse: [steps].  A step is consumed iff the *)
(* model's enforcer state equals the logged pre-state; the model then      *)
(* takes MC_Budget!Observe on the logged event.  So every intermediate     *)
(* counter, the depth tracking and the key / value phase are compared      *)
(* after every single event, not only in the final report.                 *)
(* The policy (PerDoc) is a constant: traces are validated per policy.     *)
(***************************************************************************)
EXTENDS MC_Budget, IOUtils
Recs == ndJsonDeserialize(IOEnv.TRACE)
VARIABLES k, l
trvars == <<raw, stk, nmap, nid, ndocs, phase, pos, rq, ev, nodes, depth, maxdepth, aliases, anch, bytes, mk, docs, cont, mode, k, l>>
Steps == IF k <= Len(Recs) THEN Recs[k].steps ELSE <<>>
EvOf(s) == [k |-> s.kind, a |-> s.anchor, v |-> (IF s.merge_key THEN "<<" ELSE "x"), q |-> "p", t |-> "", n |-> s.bytes]
TopPhase == IF cont = <<>> THEN 0 - 2 ELSE IF ContTop.kind = "M" THEN (IF ContTop.expKey THEN 1 ELSE 0) ELSE 0 - 1
PreMatches(s) ==
  /\ ev = s.events /\ nodes = s.nodes /\ depth = s.depth /\ maxdepth = s.max_depth /\ aliases = s.aliases
  /\ Cardinality(anch) = s.anchors /\ bytes = s.scalar_bytes /\ mk = s.merge_keys /\ docs = s.documents
  /\ Len(cont) = s.containers /\ TopPhase = s.top_expecting_key
GenUnchanged == UNCHANGED <<raw, stk, nmap, nid, ndocs, phase, pos, rq, mode>>
Consume == /\ l <= Len(Steps)
           /\ LET s == Steps[l] IN PreMatches(s) /\ s.per_document = PerDoc /\ Observe(EvOf(s), s.expanded)
           /\ l' = l + 1 /\ k' = k /\ GenUnchanged
Fresh == /\ ev' = 0 /\ nodes' = 0 /\ depth' = 0 /\ maxdepth' = 0 /\ aliases' = 0 /\ anch' = {} /\ bytes' = 0 /\ mk' = 0 /\ docs' = 0 /\ cont' = <<>>
LoadNext == k <= Len(Recs) /\ k' = k + 1 /\ l' = 1 /\ Fresh /\ GenUnchanged
TrFinished == k <= Len(Recs) /\ l > Len(Steps)
Advance == TrFinished /\ LoadNext
Reject == /\ k <= Len(Recs) /\ ~TrFinished /\ ~ENABLED Consume
          /\ PrintT(<<"MISMATCH", Recs[k].id, ToJson([verdict |-> "budget-step-not-allowed-by-the-enforcer-model", step |-> l, logged |-> Steps[l],
                       model |-> [events |-> ev, nodes |-> nodes, depth |-> depth, max_depth |-> maxdepth, aliases |-> aliases,
                                  anchors |-> Cardinality(anch), scalar_bytes |-> bytes, merge_keys |-> mk, documents |-> docs,
                                  containers |-> Len(cont), top |-> TopPhase]])>>)
          /\ TLCSet(1, TLCGet(1) + 1)
          /\ LoadNext
TrInit == /\ k = 1 /\ l = 1 /\ raw = <<>> /\ stk = <<>> /\ nmap = [n \in Names |-> 0] /\ nid = 1 /\ ndocs = 0 /\ phase = "trace"
          /\ pos = 1 /\ rq = <<>> /\ mode = "run"
          /\ ev = 0 /\ nodes = 0 /\ depth = 0 /\ maxdepth = 0 /\ aliases = 0 /\ anch = {} /\ bytes = 0 /\ mk = 0 /\ docs = 0 /\ cont = <<>>
          /\ TLCSet(1, 0) /\ TLCSet(2, 0)
TrNext == Consume \/ Advance \/ Reject
TrSpec == TrInit /\ [][TrNext]_trvars
Count == TLCSet(2, IF k > TLCGet(2) THEN k ELSE TLCGet(2))
Accepted == /\ PrintT(<<"TVDONE", TLCGet(2) - 1, Len(Recs), TLCGet(1)>>)
            /\ TLCGet(2) = Len(Recs) + 1 /\ TLCGet(1) = 0
=============================================================================
