---------------------------- MODULE TV_Emitter ----------------------------
(***************************************************************************)
(* Trace validator for C13 and C20.  Record: [id, tree, opt, text, back,   *)
(* untyped_same, docs]: the value `tree` (Emitter grammar, possibly with   *)
(* wrappers) was serialized by the real crate under option set `opt`;      *)
(* back = what reading the text into the same shape returned (uniform      *)
(* projection, ERR on failure); docs = number of documents in the text;    *)
(* untyped_same = the text and the bare value's default text give the same *)
(* untyped tree.                                                           *)
(***************************************************************************)
EXTENDS Emitter, Json, IOUtils
Recs == ndJsonDeserialize(IOEnv.TRACE)
VARIABLE l
RECURSIVE HasTag(_, _)
HasTag(v, t) == v.t = t \/ \E j \in 1..Len(v.xs) : HasTag(v.xs[j], t)
Decorated(v) == \E t \in Wrappers \cup {"Lit", "Fold"} : HasTag(v, t)
Check(r) ==
  IF r.back.c = "ERR" THEN "unreadable"
  ELSE IF r.docs # 1 THEN "not-one-document"
  ELSE IF ~SameData(r.tree, r.back) THEN "value-changed"
  ELSE IF Decorated(r.tree) /\ ~HasTag(r.tree, "Fold") /\ ~r.untyped_same THEN "layout-changed-data"
  ELSE "ok"
Init == l = 1 /\ TLCSet(1, 0)
Next == /\ l <= Len(Recs)
        /\ LET r == Recs[l]  c == Check(r) IN
             IF c = "ok" THEN TRUE
             ELSE /\ PrintT(<<"MISMATCH", r.id, ToJson([verdict |-> c, tree |-> r.tree, opt |-> r.opt, text |-> r.text, back |-> r.back, docs |-> r.docs])>>)
                  /\ TLCSet(1, TLCGet(1) + 1)
        /\ l' = l + 1
Spec == Init /\ [][Next]_l
Accepted == /\ PrintT(<<"TVDONE", TLCGet("stats").diameter - 1, Len(Recs), TLCGet(1)>>)
            /\ TLCGet("stats").diameter - 1 = Len(Recs) /\ TLCGet(1) = 0
=============================================================================
