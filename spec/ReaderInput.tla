---------------------------- MODULE ReaderInput ----------------------------
(***************************************************************************)
(* C09 / C10: the reader path.  An input is a sequence of code points      *)
(* given by their UTF-8 widths (1..4).  The raw reader hands the bytes out *)
(* according to a SCHEDULE (sizes of successive successful reads, every    *)
(* size >= 1); after the scheduled bytes it reports end of input, or - if  *)
(* a FAULT is configured - an I/O error.  A CAP bounds the decoded bytes.  *)
(*                                                                         *)
(* Declarative part: what the character source must deliver.               *)
(* Operational part (ReaderMachine): src/buffered_input.rs                 *)
(* `ChunkedChars::next` (ReadLead -> ReadCont* -> Emit | Eof | Err) on top *)
(* of a buffered reader that passes short reads through.                   *)
(***************************************************************************)
EXTENDS Naturals, Sequences, FiniteSets, TLC

RECURSIVE Sum(_)
Sum(s) == IF s = <<>> THEN 0 ELSE s[1] + Sum(Tail(s))
NoCap == 0 - 1
(* number of whole code points contained in the first n bytes, and whether n falls inside one *)
RECURSIVE WholeChars(_, _)
WholeChars(ws, n) == IF ws = <<>> \/ ws[1] > n THEN 0 ELSE 1 + WholeChars(Tail(ws), n - ws[1])
RECURSIVE BytesOf(_, _)
BytesOf(ws, k) == IF k = 0 THEN 0 ELSE ws[1] + BytesOf(Tail(ws), k - 1)
InsideChar(ws, n) == n < Sum(ws) /\ BytesOf(ws, WholeChars(ws, n)) # n

(* Declarative outcome of reading `ws` when the reader delivers `avail` bytes and then ends with *)
(* `ending` ("eof" | "fault"), under `cap`:                                                       *)
(*   [chars |-> number of code points delivered to the parser, end |-> "eof" | "io" | "toolarge"] *)
Expected(ws, avail, ending, cap) ==
  LET n == IF avail < Sum(ws) THEN avail ELSE Sum(ws)
      w == WholeChars(ws, n)
      capChars == IF cap = NoCap THEN Len(ws) ELSE WholeChars(ws, cap)        \* code points that fit under the cap
  IN IF capChars < w \/ (capChars = w /\ capChars < Len(ws) /\ cap # NoCap /\ BytesOf(ws, capChars + 1) <= n)
        THEN [chars |-> capChars, end |-> "toolarge"]
     ELSE IF n < Sum(ws) /\ (ending = "fault" \/ InsideChar(ws, n)) THEN [chars |-> w, end |-> "io"]
     ELSE IF n < Sum(ws) THEN [chars |-> w, end |-> "eof"]                     \* clean truncation at a boundary: plain end of input
     ELSE IF ending = "fault" THEN [chars |-> w, end |-> "io"]
     ELSE [chars |-> w, end |-> "eof"]

(* C10 at the level of the entry point: may the call return a value? *)
MustFail(ws, avail, ending, cap) == Expected(ws, avail, ending, cap).end # "eof"
=============================================================================
