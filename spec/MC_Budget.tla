---------------------------- MODULE MC_Budget ----------------------------
(***************************************************************************)
(* Exhaustive instance for C07: a generator of multi-document streams      *)
(* (anchors, aliases, merge-key scalars) followed by the pump + enforcer   *)
(* machine, which mirrors src/budget.rs `BudgetEnforcer::observe` as       *)
(* driven by src/live_events.rs (one observe per raw event, one per        *)
(* replayed event) and the stream iterator's error recovery                *)
(* (`skip_to_next_document`).  Named deviations of the code are constants: *)
(*   AliasToggles   - the enforcer's key/value tracking advances on the    *)
(*                    Alias event AND again on the replayed node           *)
(*   ResetAllPerDoc - under PerDocument, DocumentStart resets depth,       *)
(*                    containers and defined anchors too (FALSE = only the *)
(*                    report counters, as in the unrepaired code)          *)
(*   SkipObserves   - skip_to_next_document lets the enforcer see the      *)
(*                    document boundary                                    *)
(***************************************************************************)
EXTENDS Budget, Json
CONSTANTS MaxEv, MaxDocs, Names, PerDoc, AliasToggles, ResetAllPerDoc, SkipObserves

VARIABLES raw, stk, nmap, nid, ndocs, phase,           \* generator
          pos, rq,                                      \* pump: position, replay queue
          ev, nodes, depth, maxdepth, aliases, anch, bytes, mk, docs, cont,   \* enforcer
          mode                                          \* "run" | "skipping"
gvars == <<raw, stk, nmap, nid, ndocs, phase>>
evars == <<ev, nodes, depth, maxdepth, aliases, anch, bytes, mk, docs, cont>>
vars == <<raw, stk, nmap, nid, ndocs, phase, pos, rq, ev, nodes, depth, maxdepth, aliases, anch, bytes, mk, docs, cont, mode>>

BEv(k, a, v) == [k |-> k, a |-> a, v |-> v, q |-> "p", t |-> "", n |-> IF v = "<<" THEN 2 ELSE IF v = "" THEN 0 ELSE 1]

(* ---------------- generator: STS (DS node DE)* STE ---------------- *)
Top == stk[Len(stk)]
Room == MaxEv - Len(raw)
InDoc == raw # <<>> /\ raw[Len(raw)].k \notin {"DE", "STS"}
NodeAllowed == phase = "gen" /\ InDoc /\ (IF stk = <<>> THEN raw[Len(raw)].k = "DS" ELSE TRUE)
GenSTS == /\ phase = "gen" /\ raw = <<>> /\ raw' = <<BEv("STS", 0, "")>> /\ UNCHANGED <<stk, nmap, nid, ndocs, phase>>
GenDS == /\ phase = "gen" /\ raw # <<>> /\ ~InDoc /\ ndocs < MaxDocs /\ Room >= 4
         /\ raw' = Append(raw, BEv("DS", 0, "")) /\ ndocs' = ndocs + 1
         /\ nmap' = [n \in Names |-> 0]                \* the parser forgets names per document; ids keep growing
         /\ UNCHANGED <<stk, nid, phase>>
GenDE == /\ phase = "gen" /\ InDoc /\ stk = <<>> /\ raw[Len(raw)].k # "DS"
         /\ raw' = Append(raw, BEv("DE", 0, "")) /\ UNCHANGED <<stk, nmap, nid, ndocs, phase>>
GenScalar(n, v) ==
  /\ NodeAllowed /\ Room - 3 >= Need(AfterNode(stk))
  /\ raw' = Append(raw, BEv("S", IF n = 0 THEN 0 ELSE nid, v))
  /\ nmap' = IF n = 0 THEN nmap ELSE [nmap EXCEPT ![n] = nid]
  /\ nid' = IF n = 0 THEN nid ELSE nid + 1
  /\ stk' = AfterNode(stk) /\ UNCHANGED <<ndocs, phase>>
GenAlias(n) ==
  /\ NodeAllowed /\ stk # <<>> /\ nmap[n] # 0 /\ Room - 3 >= Need(AfterNode(stk))
  /\ raw' = Append(raw, BEv("AL", nmap[n], ""))
  /\ stk' = AfterNode(stk) /\ UNCHANGED <<nmap, nid, ndocs, phase>>
GenOpen(kind, n) ==
  /\ NodeAllowed
  /\ LET s2 == Append(stk, IF kind = "SS" THEN "S" ELSE "K") IN Room - 3 >= Need(s2) /\ stk' = s2
  /\ raw' = Append(raw, BEv(kind, IF n = 0 THEN 0 ELSE nid, ""))
  /\ nmap' = IF n = 0 THEN nmap ELSE [nmap EXCEPT ![n] = nid]
  /\ nid' = (IF n = 0 THEN nid ELSE nid + 1) /\ UNCHANGED <<ndocs, phase>>
GenClose ==
  /\ phase = "gen" /\ stk # <<>> /\ Top \in {"S", "K"}
  /\ raw' = Append(raw, BEv(IF Top = "S" THEN "SE" ELSE "ME", 0, ""))
  /\ stk' = AfterNode(PopStk(stk)) /\ UNCHANGED <<nmap, nid, ndocs, phase>>
GenDone == /\ phase = "gen" /\ raw # <<>> /\ ~InDoc /\ ndocs >= 1
           /\ raw' = Append(raw, BEv("STE", 0, "")) /\ phase' = "run" /\ UNCHANGED <<stk, nmap, nid, ndocs>>
Gen == /\ \/ GenSTS \/ GenDS \/ GenDE \/ GenClose \/ GenDone
          \/ \E n \in Names \cup {0}, v \in {"x", "<<"} : GenScalar(n, v)
          \/ \E n \in Names : GenAlias(n)
          \/ \E n \in Names \cup {0} : GenOpen("SS", n) \/ GenOpen("MS", n)
       /\ UNCHANGED <<pos, rq, ev, nodes, depth, maxdepth, aliases, anch, bytes, mk, docs, cont, mode>>

(* ---------------- enforcer (src/budget.rs observe) ---------------- *)
ContTop == cont[Len(cont)]
FinishValue(c) == IF c # <<>> /\ c[Len(c)].kind = "M" THEN [c EXCEPT ![Len(c)].expKey = TRUE] ELSE c
Entering(c) == IF c # <<>> /\ c[Len(c)].kind = "M"
               THEN (IF c[Len(c)].expKey THEN <<[c EXCEPT ![Len(c)].expKey = FALSE], FALSE>> ELSE <<c, TRUE>>)
               ELSE <<c, FALSE>>
AdvancePos(c) == IF c # <<>> /\ c[Len(c)].kind = "M"
                 THEN (IF c[Len(c)].expKey THEN [c EXCEPT ![Len(c)].expKey = FALSE] ELSE FinishValue(c))
                 ELSE c
Observe(e, replayFollows) ==
  /\ ev' = (IF e.k = "DS" /\ PerDoc THEN 0 ELSE ev + 1)
  /\ CASE e.k = "S" ->
          /\ nodes' = nodes + 1 /\ bytes' = bytes + e.n
          /\ anch' = (IF e.a # 0 THEN anch \cup {e.a} ELSE anch)
          /\ mk' = (IF cont # <<>> /\ ContTop.kind = "M" /\ ContTop.expKey /\ IsMK(e) THEN mk + 1 ELSE mk)
          /\ cont' = AdvancePos(cont)
          /\ UNCHANGED <<depth, maxdepth, aliases, docs>>
       [] e.k \in {"SS", "MS"} ->
          LET en == Entering(cont) IN
          /\ nodes' = nodes + 1 /\ depth' = depth + 1 /\ maxdepth' = (IF depth + 1 > maxdepth THEN depth + 1 ELSE maxdepth)
          /\ cont' = Append(en[1], [kind |-> (IF e.k = "MS" THEN "M" ELSE "Q"), expKey |-> TRUE, fromValue |-> en[2]])
          /\ anch' = (IF e.a # 0 THEN anch \cup {e.a} ELSE anch) /\ UNCHANGED <<aliases, mk, bytes, docs>>
       [] e.k \in {"SE", "ME"} ->
          /\ depth' = depth - 1
          /\ cont' = (IF cont = <<>> THEN cont
                      ELSE IF ContTop.fromValue THEN FinishValue(PopStk(cont)) ELSE PopStk(cont))
          /\ UNCHANGED <<nodes, maxdepth, aliases, anch, mk, bytes, docs>>
       [] e.k = "AL" ->
          /\ aliases' = aliases + 1
          /\ cont' = (IF AliasToggles \/ ~replayFollows THEN AdvancePos(cont) ELSE cont)
          /\ UNCHANGED <<nodes, depth, maxdepth, anch, mk, bytes, docs>>
       [] e.k = "DS" ->
          IF PerDoc THEN /\ nodes' = 0 /\ aliases' = 0 /\ mk' = 0 /\ bytes' = 0 /\ maxdepth' = 0
                         /\ (IF ResetAllPerDoc THEN depth' = 0 /\ cont' = <<>> /\ anch' = {}
                             ELSE UNCHANGED <<depth, anch, cont>>)
                         /\ UNCHANGED docs
          ELSE docs' = docs + 1 /\ UNCHANGED <<nodes, depth, maxdepth, aliases, anch, mk, bytes, cont>>
       [] OTHER -> UNCHANGED <<nodes, depth, maxdepth, aliases, anch, mk, bytes, docs, cont>>

(* ---------------- pump + consumer ---------------- *)
Serve == /\ phase = "run" /\ mode = "run" /\ rq # <<>>
         /\ Observe(rq[1], FALSE) /\ rq' = Tail(rq) /\ UNCHANGED <<pos, mode>> /\ UNCHANGED gvars
Pull == /\ phase = "run" /\ mode = "run" /\ rq = <<>> /\ pos <= Len(raw)
        /\ LET e == raw[pos] IN
           /\ Observe(e, Resolvable(raw, pos)) /\ pos' = pos + 1
           /\ rq' = (IF Resolvable(raw, pos) THEN LET s == DefIdx(raw, e.a, pos) IN ReplayOf(raw, s, E(raw, s)) ELSE <<>>)
        /\ UNCHANGED mode /\ UNCHANGED gvars
(* the consumer reports a type error inside a document: ReadIter calls skip_to_next_document *)
Abort == /\ phase = "run" /\ mode = "run" /\ PerDoc /\ pos <= Len(raw) /\ pos > 2 /\ raw[pos - 1].k \notin {"DE", "STS"}
         /\ mode' = "skipping" /\ rq' = <<>> /\ UNCHANGED pos /\ UNCHANGED evars /\ UNCHANGED gvars
Skip == /\ phase = "run" /\ mode = "skipping"
        /\ IF pos > Len(raw) THEN mode' = "run" /\ UNCHANGED pos /\ UNCHANGED evars
           ELSE /\ pos' = pos + 1 /\ mode' = (IF raw[pos].k = "DS" THEN "run" ELSE "skipping")
                /\ (IF SkipObserves /\ raw[pos].k = "DS" THEN Observe(raw[pos], FALSE) ELSE UNCHANGED evars)
        /\ UNCHANGED rq /\ UNCHANGED gvars
Init == /\ raw = <<>> /\ stk = <<>> /\ nmap = [n \in Names |-> 0] /\ nid = 1 /\ ndocs = 0 /\ phase = "gen"
        /\ pos = 1 /\ rq = <<>> /\ ev = 0 /\ nodes = 0 /\ depth = 0 /\ maxdepth = 0 /\ aliases = 0 /\ anch = {}
        /\ bytes = 0 /\ mk = 0 /\ docs = 0 /\ cont = <<>> /\ mode = "run"
Next == Gen \/ Serve \/ Pull \/ Abort \/ Skip
Spec == Init /\ [][Next]_vars

Report == [events |-> ev, nodes |-> nodes, depth |-> maxdepth, aliases |-> aliases, anchors |-> Cardinality(anch),
           bytes |-> bytes, merge_keys |-> mk, documents |-> docs]
Finished == phase = "run" /\ mode = "run" /\ rq = <<>> /\ pos > Len(raw)
(* AllContent, nothing aborted: at every point the report is the independent count of what was observed so far *)
ObservedSoFar == LET o == Obs(SubSeq(raw, 1, pos - 1)) IN SubSeq(o, 1, Len(o) - Len(rq))
InvReport == (phase = "run" /\ ~PerDoc /\ AllResolvable(raw)) => Report = Usage(ObservedSoFar)
(* with the code's alias deviation only the merge-key count may differ *)
InvReportButMK == (phase = "run" /\ ~PerDoc /\ AllResolvable(raw)) =>
                    [Report EXCEPT !.merge_keys = 0] = [Usage(ObservedSoFar) EXCEPT !.merge_keys = 0]
(* PerDocument: right after a document start the enforcer is as new, whatever happened before *)
AtDocStart == phase = "run" /\ mode = "run" /\ rq = <<>> /\ pos > 1 /\ raw[pos - 1].k = "DS"
InvFreshPerDoc == (PerDoc /\ AtDocStart) =>
                    (ev = 0 /\ nodes = 0 /\ aliases = 0 /\ mk = 0 /\ bytes = 0 /\ maxdepth = 0 /\ depth = 0 /\ cont = <<>> /\ anch = {})
EmitCase == Finished => PrintT(<<"CASE", ToJson([raw |-> raw, usage |-> Usage(Obs(raw))])>>)
=============================================================================
