-------------------------- MODULE MC_MapAccess --------------------------
(***************************************************************************)
(* Exhaustive instance for C03/C04: every root mapping up to MaxEv events  *)
(* (keys from KeyScalars incl. the merge key, optionally sequence keys;    *)
(* values: uniquely labelled scalars, null, mappings, sequences), under    *)
(* each duplicate-key policy, run through the MapAccess machine.           *)
(***************************************************************************)
EXTENDS MapAccessMachine, Json
CONSTANTS MaxEv, Policies, AllowSeqKeys
VARIABLES stk, phase

vars == <<doc, pol, stk, phase, mpos, seen, mstack, pending, flushing, yields, mst>>
KeyScalarsQ == {<<"a", "p">>, <<"b", "p">>, <<"<<", "p">>}
KeyScalarsD == {<<"a", "p">>, <<"b", "p">>}
KeyScalarsT == {<<"a", "p">>, <<"a", "d">>, <<"<<", "p">>, <<"<<", "d">>}
CONSTANT KeyScalars

Room == MaxEv - Len(doc)
Top == stk[Len(stk)]
InGen == phase = "gen" /\ stk # <<>>
AtKey == Top = "K"

GenRoot == /\ phase = "gen" /\ doc = <<>> /\ doc' = <<Ev("MS", 0, "", "p", "")>> /\ stk' = <<"K">> /\ UNCHANGED phase
GenKeyScalar(sc) ==
  /\ InGen /\ AtKey /\ Room - 1 >= Need(AfterNode(stk))
  /\ doc' = Append(doc, Ev("S", 0, sc[1], sc[2], "")) /\ stk' = AfterNode(stk) /\ UNCHANGED phase
GenValScalar(null) ==       \* value / item scalars: unique label from the position, or null
  /\ InGen /\ ~AtKey /\ Room - 1 >= Need(AfterNode(stk))
  /\ doc' = Append(doc, Ev("S", 0, IF null THEN "~" ELSE "v" \o ToString(Len(doc) + 1), "p", ""))
  /\ stk' = AfterNode(stk) /\ UNCHANGED phase
GenOpen(kind) ==
  /\ InGen /\ (AtKey => AllowSeqKeys /\ kind = "SS")
  /\ LET s2 == Append(stk, IF kind = "SS" THEN "S" ELSE "K") IN Room - 1 >= Need(s2) /\ stk' = s2
  /\ doc' = Append(doc, Ev(kind, 0, "", "p", "")) /\ UNCHANGED phase
GenClose ==
  /\ InGen /\ Top \in {"S", "K"}
  /\ doc' = Append(doc, Ev(IF Top = "S" THEN "SE" ELSE "ME", 0, "", "p", ""))
  /\ stk' = AfterNode(PopStk(stk)) /\ UNCHANGED phase
GenDone == /\ phase = "gen" /\ doc # <<>> /\ stk = <<>> /\ phase' = "run" /\ UNCHANGED <<doc, stk>>
Gen == /\ \/ GenRoot \/ (\E sc \in KeyScalars : GenKeyScalar(sc)) \/ (\E b \in BOOLEAN : GenValScalar(b))
          \/ GenOpen("SS") \/ GenOpen("MS") \/ GenClose \/ GenDone
       /\ UNCHANGED <<pol, mpos, seen, mstack, pending, flushing, yields, mst>>

Init == doc = <<>> /\ stk = <<>> /\ phase = "gen" /\ pol \in Policies /\ MAInit
Next == Gen \/ (phase = "run" /\ MANext /\ UNCHANGED <<doc, pol, stk, phase>>)
Spec == Init /\ [][Next]_vars

InvAgree == phase = "run" => Agree
InvCursor == phase = "run" => CursorAtEntry
(* the machine's verdict is what the whole-document oracle says about the root *)
InvFaultyRoot == (phase = "run" /\ mst \in {"dup", "merge"}) => Faulty(doc, 1, pol)
(* C04: a mapping without repeated own keys is delivered identically under all three policies *)
NoOwnDup == \A i, j \in 1..Len(OwnE(doc, 1)) : i # j => FP(doc, OwnE(doc, 1)[i]) # FP(doc, OwnE(doc, 1)[j])
InvPolicyIrrelevant == (phase = "run" /\ mst # "run" /\ NoOwnDup) =>
                          \A p \in {"Error", "FirstWins", "LastWins"} : Delivered(doc, 1, p) = Delivered(doc, 1, pol)
(* documents are policy independent: print each once *)
EmitCase == (phase = "run" /\ mst # "run" /\ pol = "Error") => PrintT(<<"CASE", ToJson([doc |-> doc])>>)
=============================================================================
