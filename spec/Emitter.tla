------------------------------ MODULE Emitter ------------------------------
(***************************************************************************)
(* C13 / C20: the Serde data model as a value grammar, and what "round     *)
(* trips" means.  A value is a uniform record [t, s, xs]:                  *)
(*   leaves  "U" unit  "US" unit struct  "B" bool  "I" int  "S" string     *)
(*           "None"    "UV" unit variant                                   *)
(*   unary   "Some" "NS" newtype struct "NV" newtype variant "SV" struct   *)
(*           variant {a}                                                   *)
(*   n-ary   "Seq" "Tup" "TS" tuple struct "TV" tuple variant "Struct"     *)
(*           (fields a b c)  "Map" (xs alternates key, value)              *)
(*   wrappers (C20, layout only) "FlowSeq" "FlowMap" "Commented"(s = text) *)
(*           "SpaceAfter" "Lit"(s) "Fold"(s)                               *)
(* Data(v) strips the wrappers.  The property: the emitted text is ONE     *)
(* document and reads back, into the same shape, as Data(v).               *)
(***************************************************************************)
EXTENDS Naturals, Sequences, FiniteSets, TLC

Val(t, s, xs) == [t |-> t, s |-> s, xs |-> xs]
Wrappers == {"FlowSeq", "FlowMap", "Commented", "SpaceAfter"}
RECURSIVE Data(_)
Data(v) == IF v.t \in Wrappers THEN Data(v.xs[1])
           ELSE IF v.t \in {"Lit", "Fold"} THEN Val("S", v.s, <<>>)
           ELSE Val(v.t, v.s, [j \in 1..Len(v.xs) |-> Data(v.xs[j])])
(* the uniform projection N(c, s, a) the harness reports for a value read back *)
RECURSIVE Proj(_)
Proj(v) == LET d == v IN
           IF d.t \in Wrappers THEN Proj(d.xs[1])
           ELSE IF d.t \in {"Lit", "Fold"} THEN [c |-> "S", s |-> d.s, a |-> <<>>]
           ELSE IF d.t \in {"B", "I", "S"} THEN [c |-> d.t, s |-> d.s, a |-> <<>>]
           ELSE [c |-> d.t, s |-> "", a |-> [j \in 1..Len(d.xs) |-> Proj(d.xs[j])]]
(* what may legitimately differ: a string under an explicit folded wrapper is compared modulo one trailing line break *)
StripNL(s) == IF Len(s) > 0 /\ SubSeq(s, Len(s), Len(s)) = "\n" THEN SubSeq(s, 1, Len(s) - 1) ELSE s
(* YAML has one null: a value that is written as null cannot be told from None when it is read back *)
(* into an Option, so Some(x) for such x is outside what can round-trip (as in every YAML/JSON codec) *)
RECURSIVE WrittenAsNull(_)
WrittenAsNull(v) == v.t \in {"None", "U", "US"} \/ (v.t \in {"Some", "NS", "SpaceAfter", "Commented"} /\ WrittenAsNull(v.xs[1]))
RECURSIVE SameData(_, _)
SameData(v, o) ==      \* v: value written (may carry wrappers), o: projection read back
  IF v.t \in Wrappers THEN SameData(v.xs[1], o)
  ELSE IF v.t = "Fold" THEN o.c = "S" /\ StripNL(o.s) = StripNL(v.s)
  ELSE IF v.t = "Lit" THEN o = [c |-> "S", s |-> v.s, a |-> <<>>]
  ELSE IF v.t \in {"B", "I", "S"} THEN o = [c |-> v.t, s |-> v.s, a |-> <<>>]
  ELSE IF v.t = "Some" /\ WrittenAsNull(v.xs[1]) THEN o.c = "None" \/ (o.c = "Some" /\ Len(o.a) = 1 /\ SameData(v.xs[1], o.a[1]))
  ELSE o.c = v.t /\ Len(o.a) = Len(v.xs) /\ \A j \in 1..Len(v.xs) : SameData(v.xs[j], o.a[j])

(* ---------------- enumeration of small values ---------------- *)
Leaves == {Val("U", "", <<>>), Val("B", "true", <<>>), Val("I", "1", <<>>), Val("S", "x", <<>>), Val("None", "", <<>>), Val("UV", "", <<>>)}
KeyS(k) == Val("S", k, <<>>)
Unary(X) == {Val(c, "", <<x>>) : c \in {"Some", "NS", "NV", "SV"}, x \in X}
Pairs(X, Y) == {<<x, y>> : x \in X, y \in Y}
Nary(P) == {Val(c, "", p) : c \in {"Seq", "Tup", "TS", "TV", "Struct"}, p \in P}
Maps(X, Y) == {Val("Map", "", <<KeyS("k"), x>>) : x \in X} \cup {Val("Map", "", <<KeyS("k"), p[1], KeyS("m"), p[2]>>) : p \in Pairs(X, Y)}
              \cup {Val("Map", "", <<Val("I", "1", <<>>), x>>) : x \in X}                              \* integer key
              \cup {Val("Map", "", <<Val("Seq", "", <<Val("I", "1", <<>>)>>), x>>) : x \in X}          \* composite key
              \cup {Val("Map", "", <<Val("Struct", "", <<Val("I", "1", <<>>)>>), x>>) : x \in X}       \* struct key
              \cup {Val("Map", "", <<Val("Tup", "", <<Val("I", "1", <<>>), Val("S", "x", <<>>)>>), x>>) : x \in X}   \* composite key of two elements
              \cup {Val("Map", "", <<k, x>>) : k \in {Val("B", "false", <<>>), Val("UV", "", <<>>), Val("Some", "", <<Val("I", "1", <<>>)>>)}, x \in X}   \* bool / unit variant / Some(int) key
Empties == {Val("Seq", "", <<>>), Val("Map", "", <<>>), Val("Tup", "", <<>>), Val("Struct", "", <<>>)}
Level(X, Y) ==     \* one more constructor on top: children from X (and the second child from Y)
  Unary(X) \cup Nary({<<x>> : x \in X}) \cup Nary(Pairs(X, Y)) \cup Nary(Pairs(Y, X)) \cup Maps(X, Y) \cup Maps(Y, X)
(* (a dummy parameter keeps TLC from evaluating the large sets eagerly at start-up) *)
D0 == Leaves \cup Empties
D1(u) == D0 \cup Level(D0, D0)
D2(u) == D1(u) \cup Level(D1(u), {Val("I", "1", <<>>)})
(* a thinner depth-3 slice: one path of depth 3 *)
D3(u) == D2(u) \cup Level(Level(Level(D0, {Val("I", "1", <<>>)}), {Val("I", "1", <<>>)}), {Val("S", "x", <<>>)})
(* mappings with composite keys of several elements, in every kind of parent position (the key's own layout depends on *)
(* where its mapping sits): mapping value, struct field, sequence item, variant payloads, value of another composite key *)
CKeys == {Val("Seq", "", <<Val("I", "1", <<>>), Val("I", "2", <<>>)>>), Val("Tup", "", <<Val("I", "1", <<>>), Val("S", "x", <<>>)>>),
          Val("TS", "", <<Val("I", "1", <<>>), Val("I", "2", <<>>), Val("I", "3", <<>>)>>), Val("Seq", "", <<Val("Seq", "", <<Val("I", "1", <<>>), Val("I", "2", <<>>)>>), Val("I", "3", <<>>)>>),
          Val("Struct", "", <<Val("I", "1", <<>>), Val("I", "2", <<>>)>>),
          \* enum variants with a payload in key position (written `? Variant: payload`)
          Val("NV", "", <<Val("I", "7", <<>>)>>), Val("NV", "", <<Val("S", "x", <<>>)>>),
          Val("TV", "", <<Val("I", "1", <<>>), Val("I", "2", <<>>)>>), Val("SV", "", <<Val("I", "1", <<>>)>>)}
CKMaps == {Val("Map", "", <<k, Val("I", "7", <<>>)>>) : k \in CKeys}
          \cup {Val("Map", "", <<k, Val("I", "7", <<>>), KeyS("m"), Val("I", "8", <<>>)>>) : k \in CKeys}
          \cup {Val("Map", "", <<KeyS("m"), Val("I", "8", <<>>), k, Val("Seq", "", <<Val("I", "7", <<>>)>>)>>) : k \in CKeys}
Under(m) == {m, Val("Map", "", <<KeyS("k"), m>>), Val("Struct", "", <<m, Val("I", "1", <<>>)>>), Val("Struct", "", <<Val("I", "1", <<>>), m>>),
             Val("Seq", "", <<m, m>>), Val("NV", "", <<m>>), Val("SV", "", <<m>>), Val("TV", "", <<Val("I", "1", <<>>), m>>), Val("Some", "", <<m>>),
             Val("Map", "", <<KeyS("k"), Val("Seq", "", <<m>>)>>), Val("Map", "", <<Val("Seq", "", <<Val("I", "1", <<>>), Val("I", "2", <<>>)>>), m>>),
             Val("Map", "", <<KeyS("k"), Val("Map", "", <<KeyS("j"), m>>)>>), Val("Seq", "", <<Val("Struct", "", <<m>>)>>)}
KeyNest(u) == UNION {Under(m) : m \in CKMaps}
(* deep chains: indentation grows with depth x indent_step, so layout code that works for shallow documents is also *)
(* exercised at 32 / 64 / 100+ columns; a sibling after the deep part shows whether later entries keep their parent  *)
RECURSIVE Chain(_, _, _)
Chain(kind, n, leaf) ==
  IF n = 0 THEN leaf
  ELSE LET inner == Chain(kind, n - 1, leaf)
           k == IF kind = "Mix" THEN (CASE n % 4 = 0 -> "Map" [] n % 4 = 1 -> "Seq" [] n % 4 = 2 -> "Struct" [] OTHER -> "NV") ELSE kind IN
       CASE k = "Map"    -> Val("Map", "", <<KeyS("k"), inner, KeyS("m"), Val("I", "1", <<>>)>>)
         [] k = "Seq"    -> Val("Seq", "", <<inner, Val("I", "1", <<>>)>>)
         [] k = "Struct" -> Val("Struct", "", <<inner, Val("I", "1", <<>>)>>)
         [] OTHER        -> Val("NV", "", <<inner>>)
DeepSet(u) == {Chain(kind, n, leaf) : kind \in {"Map", "Seq", "Struct", "NV", "Mix"}, n \in {5, 9, 13, 17, 21},
                                      leaf \in {Val("S", "x", <<>>), Val("Seq", "", <<Val("I", "1", <<>>), Val("I", "2", <<>>)>>)}}
Size(v) == 1   \* placeholder for documentation; sizes are counted by the harness
=============================================================================
