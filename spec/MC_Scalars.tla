---------------------------- MODULE MC_Scalars ----------------------------
(* Exhaustive evaluation of the scalar tables over the generated corpus: self-check of the digit-string *)
(* arithmetic against real arithmetic (8/16 bit), width laws, and one CASE line per token.               *)
EXTENDS Scalars, Json
VARIABLES i, legacy
Init == i = 1 /\ legacy \in BOOLEAN
Next == i < Len(Corpus) /\ i' = i + 1 /\ UNCHANGED legacy
Spec == Init /\ [][Next]_<<i, legacy>>
InvSelfCheck == SelfCheck(Corpus[i], legacy)
InvWidthLaws == WidthLaws(Corpus[i], legacy)
InvBoolStrict == BoolParse(Corpus[i], TRUE) # "none" => BoolParse(Corpus[i], FALSE) = BoolParse(Corpus[i], TRUE)
EmitCase == legacy = FALSE => PrintT(<<"CASE", ToJson([tok |-> Corpus[i]])>>)
=============================================================================
