------------------------- MODULE TV_TypedCursor -------------------------
(***************************************************************************)
(* Trace validator for C05: the reference interpreter on the parser's      *)
(* event stream.  Record: [id, schema, raw, str, wd, multi, read] where    *)
(* str / wd are what from_str::<T> and with_deserializer_from_str          *)
(* returned for the type described by `schema` (uniform value or ERR),     *)
(* multi = <<"ok", v>> or <<ERR>> from from_multiple, read = the items of  *)
(* the streaming iterator.  All must agree with FaithfulDoc(schema, raw).  *)
(***************************************************************************)
EXTENDS TypedCursor, Json, IOUtils
Recs == ndJsonDeserialize(IOEnv.TRACE)
VARIABLE l
Norm(o) == IF o.c = "ERR" THEN ERRN ELSE o
Check(r) ==
  LET x == ExpandAll(r.raw) IN
  IF HasErr(x) THEN "skip" ELSE
  LET f == FaithfulDoc(r.schema, x) IN
  IF Norm(r.str) # f THEN "str"
  ELSE IF Norm(r.wd) # f THEN "with_deserializer"
  ELSE IF NullLikeNode(x, 1) THEN       \* a null document is skipped by the multi-document entry points (C11)
       (IF Len(r.multi) = 1 /\ r.multi[1].c = "ok" /\ r.read = <<>> THEN "ok" ELSE "null-document-not-skipped")
  ELSE IF (IF IsErrN(f) THEN Len(r.multi) # 1 \/ r.multi[1].c # "ERR"
           ELSE Len(r.multi) # 2 \/ r.multi[1].c # "ok" \/ r.multi[2] # f) THEN "multi"
  ELSE IF (Len(r.read) # 1 \/ Norm(r.read[1]) # f) THEN "read"
  ELSE "ok"
Init == l = 1 /\ TLCSet(1, 0) /\ TLCSet(2, 0)
Next == /\ l <= Len(Recs)
        /\ LET r == Recs[l]  c == Check(r) IN
             /\ IF c \in {"ok", "skip"} THEN TRUE
                ELSE /\ PrintT(<<"MISMATCH", r.id, ToJson([verdict |-> c, schema |-> r.schema, str |-> r.str, wd |-> r.wd, multi |-> r.multi,
                                                           read |-> r.read, required |-> FaithfulDoc(r.schema, ExpandAll(r.raw))])>>)
                     /\ TLCSet(1, TLCGet(1) + 1)
             /\ IF c = "ok" /\ r.str.c # "ERR" THEN TLCSet(2, TLCGet(2) + 1) ELSE TRUE
        /\ l' = l + 1
Spec == Init /\ [][Next]_l
Accepted == /\ PrintT(<<"TVDONE", TLCGet("stats").diameter - 1, Len(Recs), TLCGet(1)>>)
            /\ PrintT(<<"TVOKVALUES", TLCGet(2)>>)
            /\ TLCGet("stats").diameter - 1 = Len(Recs)
            /\ TLCGet(1) = 0
=============================================================================
