---------------------------- MODULE TV_Budget ----------------------------
(***************************************************************************)
(* Trace validator for C07.  One record = one call of the real crate with  *)
(* a budget:                                                               *)
(*  [id, entry, raw, lim, res, rep, items]                                 *)
(*  entry  "str" from_str_with_options | "multi" from_multiple_with_options*)
(*         | "check-all" / "check-perdoc" check_yaml_budget                *)
(*         | "read" read_with_options (per-document enforcement)           *)
(*  raw    FULL parser event stream of the text (STS, DS, .., DE, STE),    *)
(*         taken from saphyr-parser directly; scalars carry n = bytes      *)
(*  lim    the eight limits (-1 = unlimited) + rmin/rmult (ratio rule,     *)
(*         rmin = -1 disabled)                                             *)
(*  res    "ok" | "b:<quantity>" (budget breach) | "o:<class>" other error *)
(*  rep    usage report handed to the callback / returned ([] if none)     *)
(*  items  for "read": per yielded item "ok" | "b:<quantity>" | "o:..."    *)
(***************************************************************************)
EXTENDS Budget, Json, IOUtils
Recs == ndJsonDeserialize(IOEnv.TRACE)
VARIABLE l

NoReplay(raw) == [j \in 1..Len(raw) |-> Plain(raw[j])]
RatioFires(u, lim) == lim.rmin # Unl /\ u.aliases >= lim.rmin /\ (u.anchors = 0 \/ u.aliases > lim.rmult * u.anchors)
IsB(s) == Len(s) >= 2 /\ SubSeq(s, 1, 2) = "b:"
IsO(s) == Len(s) >= 2 /\ SubSeq(s, 1, 2) = "o:"
BK(s) == SubSeq(s, 3, Len(s))
RepEq(rep, u) == \A q \in Kinds : rep[q] = u[q]
(* the report with merge_keys ignored: used to tell the known merge-key phase inversion apart *)
RepEqButMK(rep, u) == \A q \in Kinds \ {"merge_keys"} : rep[q] = u[q]
RECURSIVE AliasInMappingFrom(_, _, _)
AliasInMappingFrom(raw, i, st) ==
  IF i > Len(raw) THEN FALSE ELSE
  LET e == raw[i] IN
  CASE e.k = "AL" -> (st # <<>> /\ st[Len(st)] = "M") \/ AliasInMappingFrom(raw, i + 1, st)
    [] e.k = "MS" -> AliasInMappingFrom(raw, i + 1, Append(st, "M"))
    [] e.k = "SS" -> AliasInMappingFrom(raw, i + 1, Append(st, "Q"))
    [] e.k \in {"SE", "ME"} -> AliasInMappingFrom(raw, i + 1, PopStk(st))
    [] OTHER -> AliasInMappingFrom(raw, i + 1, st)
AliasInMapping(raw) == AliasInMappingFrom(raw, 1, <<>>)

(* verdict for whole-stream enforcement over observed stream o *)
Whole(r, o) ==
  LET u == Usage(o) IN
  IF IsO(r.res) THEN "skip"                          \* a non-budget error ended the call first
  ELSE IF Within(u, r.lim) THEN
       (IF RatioFires(u, r.lim) THEN (IF r.res = "b:ratio" THEN "ok" ELSE "ratio-not-enforced")
        ELSE IF r.res # "ok" THEN "rejected-within-limits"
        ELSE IF r.rep = <<>> THEN "ok"
        ELSE IF RepEq(r.rep, u) THEN "ok"
        ELSE IF RepEqButMK(r.rep, u) THEN "report-merge-keys" ELSE "report-wrong")
  ELSE IF ~IsB(r.res) THEN "accepted-over-limit"
  ELSE IF BK(r.res) \in FirstExceeded(o, r.lim, 1) THEN "ok"
  ELSE IF Exceeded(u, [r.lim EXCEPT !.merge_keys = Unl]) = {} /\ "merge_keys" \in Exceeded(u, r.lim) THEN "breach-merge-keys"
  ELSE "wrong-breach-kind"

(* per-document enforcement (harness generates non-null documents only; `documents` is not      *)
(* limited): the documents are judged one by one, each on its own quantities - "the number of    *)
(* documents already read never affects whether a document is accepted".  A document within the  *)
(* limits must be yielded as ok, also after an earlier document was rejected; a document over a  *)
(* limit must be rejected with a matching breach, or - the iterator may end after a budget error *)
(* - not be yielded at all, but then no later document within the limits may be missing either.  *)
RECURSIVE PerDocItems(_, _, _, _)
PerDocItems(r, d, i, nd) ==
  IF d > nd THEN (IF i > Len(r.items) THEN "ok" ELSE "extra-item")
  ELSE LET u == DocUsage(r.raw, d)  lim == [r.lim EXCEPT !.documents = Unl] IN
       IF i <= Len(r.items) /\ IsO(r.items[i]) THEN "skip"
       ELSE IF Within(u, lim) THEN
            (IF i > Len(r.items) THEN "document-within-limits-not-yielded"
             ELSE IF r.items[i] = "ok" THEN PerDocItems(r, d + 1, i + 1, nd) ELSE "rejected-within-limits")
       ELSE IF i > Len(r.items) THEN PerDocItems(r, d + 1, i, nd)
       ELSE IF ~IsB(r.items[i]) THEN "accepted-over-limit"
       ELSE IF BK(r.items[i]) \in Exceeded(u, lim) THEN PerDocItems(r, d + 1, i + 1, nd) ELSE "wrong-breach-kind"

Check(r) ==
  IF ~AllResolvable(r.raw) THEN "skip"
  ELSE CASE r.entry \in {"str", "str-ign", "str-opt", "multi"} -> Whole(r, Obs(r.raw))
         [] r.entry = "check-all" -> Whole(r, NoReplay(r.raw))
         [] r.entry = "read" -> PerDocItems(r, 1, 1, Len(DocStarts(r.raw)))
         [] OTHER -> "skip"

Init == l = 1 /\ TLCSet(1, 0) /\ TLCSet(2, 0)
Next == /\ l <= Len(Recs)
        /\ LET r == Recs[l]  c == Check(r) IN
             /\ IF c \in {"ok", "skip"} THEN TRUE
                ELSE /\ PrintT(<<"MISMATCH", r.id, ToJson([verdict |-> c, entry |-> r.entry, res |-> r.res, rep |-> r.rep,
                                                           alias_in_mapping |-> AliasInMapping(r.raw),
                                                           required_usage |-> Usage(Obs(r.raw))])>>)
                     /\ TLCSet(1, TLCGet(1) + 1)
             /\ IF c = "ok" THEN TLCSet(2, TLCGet(2) + 1) ELSE TRUE
        /\ l' = l + 1
Spec == Init /\ [][Next]_l
Accepted == /\ PrintT(<<"TVDONE", TLCGet("stats").diameter - 1, Len(Recs), TLCGet(1)>>)
            /\ PrintT(<<"TVDECIDED", TLCGet(2)>>)
            /\ TLCGet("stats").diameter - 1 = Len(Recs)
            /\ TLCGet(1) = 0
=============================================================================
