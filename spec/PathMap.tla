------------------------------ MODULE PathMap ------------------------------
(***************************************************************************)
(* C18: what the validating entry points must report.                      *)
(*                                                                         *)
(* Recorder: while a document is deserialized, every mapping value and     *)
(* every sequence element is recorded under its path (keys and indices     *)
(* from the root) with its use site and definition site - the same sites   *)
(* Locations.tla gives a span-carrying value at that node (outermost alias *)
(* / merge entry wins; own entries shadow merged ones).                    *)
(* Recorded(raw, i, use, p) = set of [p, u, d, v] for the nodes below the  *)
(* node at raw index i (v = scalar text of the resolved node, "" if none). *)
(*                                                                         *)
(* The fixed validated family (YAML spelling of the keys):                 *)
(*   Outer { first: Inner, subItem: Inner, items: [Inner], tag: String }   *)
(*   Inner { name: String (length >= 2), maxCount: Int (1..9) }            *)
(*   tag: length >= 1.  Rust field names: sub_item, max_count (renamed).   *)
(* Issues(raw) = the issues validation must report, each with the display  *)
(* path (Rust spelling for inner segments, YAML spelling for the leaf) and *)
(* the two sites.                                                          *)
(***************************************************************************)
EXTENDS Locations

Seg(k, n) == [k |-> k, n |-> n]
IdxName(j) == <<"0", "1", "2", "3", "4", "5", "6", "7", "8", "9">>[j + 1]
ScalarOf(raw, i) == LET j == Res(raw, i) IN IF raw[j].k = "S" THEN raw[j].v ELSE ""
KeyTextOf(raw, e) == raw[Res(raw, e)].v

RECURSIVE Recorded(_, _, _, _)
Recorded(raw, i, use, p) ==
  LET j == Res(raw, i)
      below == IF use # 0 THEN use ELSE IF raw[i].k = "AL" THEN i ELSE 0 IN
  CASE raw[j].k = "SS" ->
         LET its == ItemStarts(raw, j + 1) IN
         UNION {LET q == Append(p, Seg("idx", IdxName(n - 1))) IN
                {[p |-> q, u |-> UseOf(below, its[n]), d |-> Res(raw, its[n]), v |-> ScalarOf(raw, its[n])]}
                \cup Recorded(raw, its[n], below, q) : n \in 1..Len(its)}
    [] raw[j].k = "MS" ->
         LET own0 == RawOwn(raw, j)
             \* a repeated own key (only possible under DuplicateKeyPolicy::LastWins): the last entry is the one whose value is used
             own == SelectSeq(own0, LAMBDA e : ~\E n \in 1..Len(own0) : own0[n] > e /\ KeyTextOf(raw, own0[n]) = KeyTextOf(raw, e))
             mvs == RawMergeVals(raw, j)
             ownKeys == {KeyTextOf(raw, own[n]) : n \in 1..Len(own)}
             mg == {m \in UNION {MergedFrom(raw, mvs[n], below) : n \in 1..Len(mvs)} : KeyTextOf(raw, m.e) \notin ownKeys}
             ents == {[e |-> own[n], use |-> below] : n \in 1..Len(own)} \cup mg IN
         UNION {LET q == Append(p, Seg("key", KeyTextOf(raw, x.e)))  val == RawVal(raw, x.e) IN
                {[p |-> q, u |-> UseOf(x.use, val), d |-> Res(raw, val), v |-> ScalarOf(raw, val)]}
                \cup Recorded(raw, val, x.use, q) : x \in ents}
    [] OTHER -> {}
(* a merged key supplied by two sources: which one wins is C03's subject; such documents are not decided here *)
RECURSIVE Clash(_, _)
Clash(raw, i) ==
  LET j == Res(raw, i) IN
  CASE raw[j].k = "SS" -> \E n \in 1..Len(ItemStarts(raw, j + 1)) : Clash(raw, ItemStarts(raw, j + 1)[n])
    [] raw[j].k = "MS" ->
         LET mvs == RawMergeVals(raw, j)
             mg == UNION {MergedFrom(raw, mvs[n], 1) : n \in 1..Len(mvs)} IN
         \/ \E a, b \in mg : a.e # b.e /\ KeyTextOf(raw, a.e) = KeyTextOf(raw, b.e)
         \/ \E n \in 1..Len(RawEntries(raw, j)) : Clash(raw, RawVal(raw, RawEntries(raw, j)[n]))
    [] OTHER -> FALSE

(* ---------------- the validated family ---------------- *)
Rust(k) == CASE k = "maxCount" -> "max_count" [] k = "subItem" -> "sub_item" [] k = "NEST" -> "nest" [] k = "n-est2" -> "ne_st2" [] OTHER -> k
BadName(v) == Len(v) < 2
BadCount(v) == v \notin {"1", "2", "3", "4", "5", "6", "7", "8", "9"}
BadTag(v) == Len(v) < 1
IsKey(s, n) == s.k = "key" /\ s.n = n
InnerAt(p) == \/ Len(p) = 1 /\ (IsKey(p[1], "first") \/ IsKey(p[1], "subItem") \/ IsKey(p[1], "NEST") \/ IsKey(p[1], "n-est2"))
              \/ Len(p) = 2 /\ IsKey(p[1], "items") /\ p[2].k = "idx"
              \/ Len(p) = 2 /\ IsKey(p[1], "extras") /\ p[2].k = "key"       \* the map-typed field of the extended family
Violated(p, v) ==
  \/ Len(p) = 1 /\ (IsKey(p[1], "tag") \/ IsKey(p[1], "TAG2") \/ IsKey(p[1], "a-bc") \/ IsKey(p[1], "xyZ") \/ IsKey(p[1], "xYz")) /\ BadTag(v)   \* (TAG2, a-bc, xyZ, xYz: the extended family)
  \/ Len(p) >= 2 /\ InnerAt(SubSeq(p, 1, Len(p) - 1))
     /\ ((IsKey(p[Len(p)], "name") /\ BadName(v)) \/ (IsKey(p[Len(p)], "maxCount") /\ BadCount(v)))
RECURSIVE Display(_, _)
Display(p, n) ==
  IF n > Len(p) THEN "" ELSE
  LET s == p[n]
      txt == IF s.k = "idx" THEN "[" \o s.n \o "]"
             ELSE (IF n > 1 THEN "." ELSE "") \o (IF n = Len(p) THEN s.n ELSE Rust(s.n)) IN
  txt \o Display(p, n + 1)
Issues(raw) == {[path |-> Display(r.p, 1), u |-> r.u, d |-> r.d] : r \in {r \in Recorded(raw, 1, 0, <<>>) : Violated(r.p, r.v)}}
=============================================================================
