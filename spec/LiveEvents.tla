---------------------------- MODULE LiveEvents ----------------------------
(***************************************************************************)
(* Operational model of src/live_events.rs `LiveEvents::next_impl` for one *)
(* document: the event pump with anchor recording and alias replay.        *)
(* One action per arm of the code:                                         *)
(*   PopExhausted, ServeInjected      - the `loop` over `self.inject`      *)
(*   PullScalar, PullStart, PullEnd, PullAlias - `match raw`               *)
(*   Finish                           - parser exhausted                   *)
(* State: raw (parser events of the document, markers stripped), pos,      *)
(* inject (stack of [id, idx]), anchors (id -> recorded buffer), rec       *)
(* (stack of open recording frames [id, depth, buf]), out (history of      *)
(* delivered events), replayed / perAnchor (alias hardening counters),     *)
(* st ("run" | "done" | "err_*").                                          *)
(*                                                                         *)
(* Named deviation kept from the code: NormalizeAnchoredEmptyQuoted - an   *)
(* anchored empty quoted scalar is delivered (and recorded) as a plain     *)
(* empty scalar.                                                           *)
(***************************************************************************)
EXTENDS YamlModel, TLC
CONSTANTS MaxTotalReplayed, MaxStackDepth, MaxPerAnchor, NormalizeAnchoredEmptyQuoted
VARIABLES raw, pos, inject, anchors, rec, out, st, replayed, perAnchor

levars == <<pos, inject, anchors, rec, out, st, replayed, perAnchor>>

LEInit == /\ pos = 1 /\ inject = <<>> /\ anchors = <<>> /\ rec = <<>> /\ out = <<>>
          /\ st = "run" /\ replayed = 0 /\ perAnchor = <<>>

(* anchors / perAnchor are functions over a growing set of ids *)
Has(f, id) == id \in DOMAIN f
Put(f, id, x) == [j \in (DOMAIN f) \cup {id} |-> IF j = id THEN x ELSE f[j]]
Cnt(f, id) == IF Has(f, id) THEN f[id] ELSE 0

Normalize(e) == IF NormalizeAnchoredEmptyQuoted /\ e.k = "S" /\ e.v = "" /\ e.a # 0 /\ e.q \in {"s", "d"}
                THEN [e EXCEPT !.q = "p"] ELSE e

RecordAll(r, e) == [i \in 1..Len(r) |-> [r[i] EXCEPT !.buf = Append(@, e)]]
RecordAllButLast(r, e) == [i \in 1..Len(r) |-> IF i = Len(r) THEN r[i] ELSE [r[i] EXCEPT !.buf = Append(@, e)]]
BumpStart(r) == [i \in 1..Len(r) |-> [r[i] EXCEPT !.depth = @ + 1]]
BumpEnd(r) == [i \in 1..Len(r) |-> [r[i] EXCEPT !.depth = @ - 1]]

(* pop the top frames whose depth reached 0, storing their buffers *)
RECURSIVE Finalize(_, _)
Finalize(r, an) == IF r # <<>> /\ r[Len(r)].depth = 0
                   THEN Finalize(SubSeq(r, 1, Len(r) - 1), Put(an, r[Len(r)].id, r[Len(r)].buf))
                   ELSE <<r, an>>

Running == st = "run"
TopInj == inject[Len(inject)]

PopExhausted ==
  /\ Running /\ inject # <<>>
  /\ TopInj.idx > Len(anchors[TopInj.id])
  /\ inject' = SubSeq(inject, 1, Len(inject) - 1)
  /\ UNCHANGED <<pos, anchors, rec, out, st, replayed, perAnchor>>

ServeInjected ==
  /\ Running /\ inject # <<>>
  /\ TopInj.idx <= Len(anchors[TopInj.id])
  /\ LET e == anchors[TopInj.id][TopInj.idx] IN
     /\ inject' = [inject EXCEPT ![Len(inject)].idx = @ + 1]
     /\ replayed' = replayed + 1
     /\ IF replayed + 1 > MaxTotalReplayed
        THEN st' = "err_total" /\ UNCHANGED <<rec, out>>
        ELSE /\ rec' = RecordAll(rec, e)        \* replayed events are recorded into open frames
             /\ out' = Append(out, e)
             /\ UNCHANGED st
  /\ UNCHANGED <<pos, anchors, perAnchor>>

AtRaw == Running /\ inject = <<>> /\ pos <= Len(raw)

PullScalar ==
  /\ AtRaw /\ raw[pos].k = "S"
  /\ LET e == Normalize(raw[pos]) IN
     /\ rec' = RecordAll(rec, e)
     /\ anchors' = IF e.a # 0 THEN Put(anchors, e.a, <<e>>) ELSE anchors
     /\ out' = Append(out, e)
  /\ pos' = pos + 1
  /\ UNCHANGED <<inject, st, replayed, perAnchor>>

PullStart ==
  /\ AtRaw /\ IsStart(raw[pos])
  /\ LET e == raw[pos]
         r1 == BumpStart(rec)
     IN /\ rec' = IF e.a # 0
                  THEN RecordAllButLast(Append(r1, [id |-> e.a, depth |-> 1, buf |-> <<e>>]), e)
                  ELSE RecordAll(r1, e)
        /\ out' = Append(out, e)
  /\ pos' = pos + 1
  /\ UNCHANGED <<inject, anchors, st, replayed, perAnchor>>

PullEnd ==
  /\ AtRaw /\ IsEnd(raw[pos])
  /\ LET e == raw[pos]
         fin == Finalize(BumpEnd(RecordAll(rec, e)), anchors)
     IN /\ rec' = fin[1] /\ anchors' = fin[2] /\ out' = Append(out, e)
  /\ pos' = pos + 1
  /\ UNCHANGED <<inject, st, replayed, perAnchor>>

PullAlias ==
  /\ AtRaw /\ raw[pos].k = "AL"
  /\ LET id == raw[pos].a IN
     /\ perAnchor' = Put(perAnchor, id, Cnt(perAnchor, id) + 1)
     /\ IF Cnt(perAnchor, id) + 1 > MaxPerAnchor THEN st' = "err_peranchor" /\ UNCHANGED <<inject, pos>>
        ELSE IF Len(inject) + 1 > MaxStackDepth THEN st' = "err_stack" /\ UNCHANGED <<inject, pos>>
        ELSE IF \E i \in 1..Len(rec) : rec[i].id = id THEN st' = "err_recursive" /\ UNCHANGED <<inject, pos>>
        ELSE IF ~Has(anchors, id) THEN st' = "err_unknown" /\ UNCHANGED <<inject, pos>>
        ELSE /\ inject' = Append(inject, [id |-> id, idx |-> 1])
             /\ pos' = pos + 1 /\ UNCHANGED st
  /\ UNCHANGED <<anchors, rec, out, replayed>>

Finish ==
  /\ Running /\ inject = <<>> /\ pos > Len(raw)
  /\ st' = "done"
  /\ UNCHANGED <<pos, inject, anchors, rec, out, replayed, perAnchor>>

LENext == PopExhausted \/ ServeInjected \/ PullScalar \/ PullStart \/ PullEnd \/ PullAlias \/ Finish

(***************************************************************************)
(* Properties (C02, C08 counters, and structural invariants of the pump)   *)
(***************************************************************************)
Unlimited == MaxTotalReplayed >= 1000000 /\ MaxStackDepth >= 64 /\ MaxPerAnchor >= 1000000

(* C02: what was delivered is the alias-free expansion; failures exactly   *)
(* when the expansion is undefined (self reference)                        *)
Transparent ==
  /\ st = "done" => StripAnchors(out) = StripAnchors(ExpandAll(raw))
  /\ st = "err_recursive" => HasErr(ExpandAll(raw))
  /\ (Unlimited /\ st \notin {"run", "done"}) => st = "err_recursive"
(* an error is raised only if required: the pump never invents failures *)
NoSpuriousError == (Unlimited /\ HasErr(ExpandAll(raw))) => st # "done"

(* recorded buffers never contain aliases, so replay never nests *)
InjectDepthLeOne == Len(inject) <= 1
(* frames form a stack whose depths decrease towards the top *)
RecStackOrdered == \A i \in 1..Len(rec) : \A j \in 1..Len(rec) : i < j => rec[i].depth >= rec[j].depth
(* every stored buffer is one complete node *)
BuffersAreNodes == \A id \in DOMAIN anchors : anchors[id] # <<>> /\ E(anchors[id], 1) = Len(anchors[id])
(* C08 counters *)
ReplayBounded == replayed <= MaxTotalReplayed + 1 /\ (st # "err_total" => replayed <= MaxTotalReplayed)
PerAnchorBounded == \A id \in DOMAIN perAnchor : st # "err_peranchor" => perAnchor[id] <= MaxPerAnchor
(* what recording retains: sum of buffer lengths (C08 cost model) *)
RECURSIVE SumLen(_)
SumLen(s) == IF s = <<>> THEN 0 ELSE Len(s[1]) + SumLen(Tail(s))
Held == SumLen([i \in 1..Len(rec) |-> rec[i].buf])
=============================================================================
