---------------------------- MODULE TV_Base64 ----------------------------
(* records [id, s, obs, strobs, strign, sbytes] : obs = decoded bytes as a sequence of integers, or <<-1>> for an error;   *)
(* strobs / strign = the same scalar read into a String without / with ignore_binary_tag_for_string                         *)
EXTENDS Base64, Json, IOUtils
Recs == ndJsonDeserialize(IOEnv.TRACE)
VARIABLE l
Init == l = 1 /\ TLCSet(1, 0)
Next == /\ l <= Len(Recs)
        /\ LET r == Recs[l] IN
             LET d == Decode(r.s)
                 ascii == d # <<0 - 1>> /\ \A j \in 1..Len(d) : d[j] < 128
                 (* into a String: the decoded payload (it has to be UTF-8: decided here for ASCII payloads, otherwise either *)
                 (* the payload or an error); with ignore_binary_tag_for_string the text as written                           *)
                 strOk == IF d = <<0 - 1>> THEN r.strobs = <<0 - 1>>
                          ELSE IF ascii THEN r.strobs = d ELSE r.strobs \in {d, <<0 - 1>>}
                 ignOk == r.strign = r.sbytes IN
             IF r.obs = d /\ strOk /\ ignOk THEN TRUE
             ELSE PrintT(<<"MISMATCH", r.id, ToJson([s |-> r.s, observed |-> r.obs, required |-> d, as_string |-> r.strobs, as_text |-> r.strign])>>) /\ TLCSet(1, TLCGet(1) + 1)
        /\ l' = l + 1
Spec == Init /\ [][Next]_l
Accepted == /\ PrintT(<<"TVDONE", TLCGet("stats").diameter - 1, Len(Recs), TLCGet(1)>>)
            /\ TLCGet("stats").diameter - 1 = Len(Recs) /\ TLCGet(1) = 0
=============================================================================
