---------------------------- MODULE TV_Base64 ----------------------------
(* records [id, s, obs] : obs = decoded bytes as a sequence of integers, or <<-1>> for an error *)
EXTENDS Base64, Json, IOUtils
Recs == ndJsonDeserialize(IOEnv.TRACE)
VARIABLE l
Init == l = 1 /\ TLCSet(1, 0)
Next == /\ l <= Len(Recs)
        /\ LET r == Recs[l] IN
             IF r.obs = Decode(r.s) THEN TRUE
             ELSE PrintT(<<"MISMATCH", r.id, ToJson([s |-> r.s, observed |-> r.obs, required |-> Decode(r.s)])>>) /\ TLCSet(1, TLCGet(1) + 1)
        /\ l' = l + 1
Spec == Init /\ [][Next]_l
Accepted == /\ PrintT(<<"TVDONE", TLCGet("stats").diameter - 1, Len(Recs), TLCGet(1)>>)
            /\ TLCGet("stats").diameter - 1 = Len(Recs) /\ TLCGet(1) = 0
=============================================================================
