---------------------------- MODULE MC_Emitter ----------------------------
(* Enumerates the value trees of Emitter!D1/D2/D3 (by constant Depth) and, for C20, decorated variants; one CASE per value. *)
(* Model-level sanity: Data is idempotent and Proj(Data(v)) satisfies SameData.                                            *)
EXTENDS Emitter, Json
CONSTANTS Depth, Decorate
VARIABLES val, done
Base == (IF Depth = 1 THEN D1(0) ELSE IF Depth = 2 THEN D2(0) ELSE D3(0)) \cup KeyNest(0) \cup DeepSet(0)
(* decorated variants of a value: one wrapper at the root or around one child *)
Decor(v) ==
  (IF v.t \in {"Seq", "Tup"} THEN {Val("FlowSeq", "", <<v>>)} ELSE {})
  \cup (IF v.t \in {"Map", "Struct"} THEN {Val("FlowMap", "", <<v>>)} ELSE {})
  \cup {Val("Commented", c, <<v>>) : c \in {"note", "a # b", "x: y"}}
  \cup {Val("SpaceAfter", "", <<v>>)}
  \cup (IF v.t = "S" THEN {Val("Lit", v.s, <<>>), Val("Fold", v.s, <<>>)} ELSE {})
DecorChild(v) == IF v.xs = <<>> THEN {} ELSE
  UNION {{[v EXCEPT !.xs[j] = d] : d \in Decor(v.xs[j])} : j \in {j \in 1..Len(v.xs) : ~(v.t = "Map" /\ j % 2 = 1)}}
All == IF Decorate THEN UNION {Decor(v) \cup DecorChild(v) : v \in Base} ELSE Base
Init == val \in All /\ done = FALSE
Next == ~done /\ done' = TRUE /\ UNCHANGED val
Spec == Init /\ [][Next]_<<val, done>>
InvDataIdempotent == Data(Data(val)) = Data(val)
InvSameData == SameData(val, Proj(Data(val)))
EmitCase == done => PrintT(<<"CASE", ToJson([tree |-> val])>>)
=============================================================================
