------------------------------ MODULE Scalars ------------------------------
(***************************************************************************)
(* C06: how a scalar is interpreted from its text, style, tag, the         *)
(* requested type and the options.  A transcription of the documented      *)
(* tables as pure operators over strings (TLC treats strings as sequences  *)
(* for Len, \o and SubSeq; Ch(s, i) is the i-th character).                *)
(*                                                                         *)
(* Integers: optional sign, radix by prefix (0x 0o 0b, legacy 00), digits  *)
(* with `_` ignored, at least one digit; the value is exact, and it is     *)
(* accepted iff it fits the target width.  TLC integers are 32-bit, so     *)
(* magnitudes are compared as normalised digit strings against the         *)
(* boundary tables of ScalarTables (self-checked below with arithmetic).   *)
(***************************************************************************)
EXTENDS Naturals, Sequences, FiniteSets, TLC, ScalarTables

Ch(s, i) == SubSeq(s, i, i)
WS == {" ", "\t", "\n", "\r"}
RECURSIVE TrimL(_), TrimR(_)
TrimL(s) == IF Len(s) > 0 /\ Ch(s, 1) \in WS THEN TrimL(SubSeq(s, 2, Len(s))) ELSE s
TrimR(s) == IF Len(s) > 0 /\ Ch(s, Len(s)) \in WS THEN TrimR(SubSeq(s, 1, Len(s) - 1)) ELSE s
Trim(s) == TrimR(TrimL(s))
StartsWith(s, p) == Len(s) >= Len(p) /\ SubSeq(s, 1, Len(p)) = p
Drop(s, n) == SubSeq(s, n + 1, Len(s))

Lower(c) == CASE c = "A" -> "a" [] c = "B" -> "b" [] c = "C" -> "c" [] c = "D" -> "d" [] c = "E" -> "e" [] c = "F" -> "f"
              [] c = "G" -> "g" [] c = "H" -> "h" [] c = "I" -> "i" [] c = "J" -> "j" [] c = "K" -> "k" [] c = "L" -> "l"
              [] c = "M" -> "m" [] c = "N" -> "n" [] c = "O" -> "o" [] c = "P" -> "p" [] c = "Q" -> "q" [] c = "R" -> "r"
              [] c = "S" -> "s" [] c = "T" -> "t" [] c = "U" -> "u" [] c = "V" -> "v" [] c = "W" -> "w" [] c = "X" -> "x"
              [] c = "Y" -> "y" [] c = "Z" -> "z" [] OTHER -> c
RECURSIVE LowerS(_)
LowerS(s) == IF Len(s) = 0 THEN s ELSE Lower(Ch(s, 1)) \o LowerS(Drop(s, 1))

DigitOrder == <<"0", "1", "2", "3", "4", "5", "6", "7", "8", "9", "a", "b", "c", "d", "e", "f">>
DigitVal(c) == CHOOSE v \in 0..15 : DigitOrder[v + 1] = c
IsDigit(c, radix) == \E v \in 0..(radix - 1) : DigitOrder[v + 1] = Lower(c)

(* ---------------- integer notation ---------------- *)
(* returns [ok, neg, radix, digits] for a trimmed token *)
SignSplit(t) == IF StartsWith(t, "+") THEN [neg |-> FALSE, rest |-> Drop(t, 1), minus |-> FALSE]
                ELSE IF StartsWith(t, "-") THEN [neg |-> TRUE, rest |-> Drop(t, 1), minus |-> TRUE]
                ELSE [neg |-> FALSE, rest |-> t, minus |-> FALSE]
RadixDigits(legacy, rest) ==
  IF StartsWith(rest, "0x") \/ StartsWith(rest, "0X") THEN [radix |-> 16, digits |-> Drop(rest, 2)]
  ELSE IF StartsWith(rest, "0o") \/ StartsWith(rest, "0O") THEN [radix |-> 8, digits |-> Drop(rest, 2)]
  ELSE IF StartsWith(rest, "0b") \/ StartsWith(rest, "0B") THEN [radix |-> 2, digits |-> Drop(rest, 2)]
  ELSE IF legacy /\ StartsWith(rest, "00") THEN [radix |-> 8, digits |-> IF rest = "00" THEN "0" ELSE Drop(rest, 2)]
  ELSE [radix |-> 10, digits |-> rest]
RECURSIVE StripUnderscores(_)
StripUnderscores(d) == IF Len(d) = 0 THEN d
                       ELSE IF Ch(d, 1) = "_" THEN StripUnderscores(Drop(d, 1)) ELSE Ch(d, 1) \o StripUnderscores(Drop(d, 1))
RECURSIVE StripLeadingZeros(_)
StripLeadingZeros(d) == IF Len(d) > 1 /\ Ch(d, 1) = "0" THEN StripLeadingZeros(Drop(d, 1)) ELSE d
DigitsValid(d, radix) == LET u == StripUnderscores(d) IN Len(u) > 0 /\ \A i \in 1..Len(u) : IsDigit(Ch(u, i), radix)
NormDigits(d) == StripLeadingZeros(LowerS(StripUnderscores(d)))
(* a <= b for normalised digit strings of one radix *)
RECURSIVE LexLE(_, _)
LexLE(a, b) == IF Len(a) = 0 THEN TRUE
               ELSE IF Ch(a, 1) = Ch(b, 1) THEN LexLE(Drop(a, 1), Drop(b, 1))
               ELSE DigitVal(Ch(a, 1)) < DigitVal(Ch(b, 1))
MagLE(a, b) == Len(a) < Len(b) \/ (Len(a) = Len(b) /\ LexLE(a, b))

(* [ok, neg, radix, mag] : the integer a token denotes for a target (signed?, bits) under `legacy` *)
IntParse(tok, signed, bits, legacy) ==
  LET t == Trim(tok)
      sp == SignSplit(t)
      rd == RadixDigits(legacy, sp.rest)
      bad == [ok |-> FALSE, neg |-> FALSE, radix |-> 10, mag |-> ""] IN
  IF ~DigitsValid(rd.digits, rd.radix) THEN bad
  ELSE LET m == NormDigits(rd.digits)  zero == m = "0" IN
       IF signed THEN
          (IF (IF sp.neg THEN MagLE(m, MaxSignedNegMag(bits, rd.radix)) ELSE MagLE(m, MaxSignedPos(bits, rd.radix)))
           THEN [ok |-> TRUE, neg |-> sp.neg /\ ~zero, radix |-> rd.radix, mag |-> m] ELSE bad)
       ELSE (IF ~sp.minus /\ MagLE(m, MaxUnsigned(bits, rd.radix))
             THEN [ok |-> TRUE, neg |-> FALSE, radix |-> rd.radix, mag |-> m] ELSE bad)

(* ---------------- booleans, nulls ---------------- *)
BoolParse(tok, strict) ==
  LET t == LowerS(Trim(tok)) IN
  IF strict THEN (IF t = "true" THEN "true" ELSE IF t = "false" THEN "false" ELSE "none")
  ELSE IF t \in {"true", "yes", "y", "on"} THEN "true"
  ELSE IF t \in {"false", "no", "n", "off"} THEN "false" ELSE "none"
NullLikeTok(tok, style) == style = "p" /\ (tok = "" \/ tok = "~" \/ LowerS(tok) = "null")
SpecialFloat(tok) == LET t == LowerS(Trim(tok)) IN
                     IF t \in {".nan", "+.nan", "-.nan"} THEN "nan"
                     ELSE IF t \in {".inf", "+.inf"} THEN "inf" ELSE IF t = "-.inf" THEN "-inf" ELSE "none"

(* ---------------- targets ---------------- *)
IntTargets == {"i8", "i16", "i32", "i64", "i128", "u8", "u16", "u32", "u64", "u128"}
Signed(tg) == Ch(tg, 1) = "i"
Bits(tg) == CASE tg \in {"i8", "u8"} -> 8 [] tg \in {"i16", "u16"} -> 16 [] tg \in {"i32", "u32"} -> 32
              [] tg \in {"i64", "u64"} -> 64 [] OTHER -> 128
(* what a plain scalar could be taken for by a schema-inferring reader (no_schema quoting rule);   *)
(* floatlike is supplied by the caller: TLA+ has no float grammar of Rust's str::parse             *)
MaybeNotString(tok, style, floatlike) ==
  style = "p" /\ (floatlike \/ IntParse(tok, TRUE, 128, FALSE).ok \/ BoolParse(tok, FALSE) # "none" \/ NullLikeTok(tok, "p"))

(* Required outcome for target tg: [ok, kind, ...]                                                 *)
(*  ints: [ok, neg, radix, mag]; bool: "true"/"false"/"none"; str: "ok"/"err"                     *)
StrAccept(tok, style, tag, noSchema, floatlike) ==
  IF tag = "!!str" THEN TRUE
  ELSE IF tag = "!!null" \/ NullLikeTok(tok, style) THEN FALSE
  ELSE IF noSchema /\ MaybeNotString(tok, style, floatlike) THEN FALSE
  ELSE tag \in {"", "!"}       \* !!int, !!bool, ... cannot be read into a string

(* a char target: the scalar's text must be exactly one character; a null (tag or unquoted null-like text) is not a   *)
(* character; under no_schema an unquoted text that looks like a number / boolean / null must be quoted. Other tags    *)
(* (!!int 1, ! a) do not matter. nchars = number of code points of the token.                                          *)
CharAccept(tok, style, tag, noSchema, floatlike, nchars) ==
  IF tag = "!!null" THEN FALSE
  ELSE IF tag # "!!str" /\ NullLikeTok(tok, style) THEN FALSE
  ELSE IF noSchema /\ tag # "!!str" /\ MaybeNotString(tok, style, floatlike) THEN FALSE
  ELSE nchars = 1

(* untyped inference (deserialize_any): constructor of the result *)
AnyKind(tok, style, tag, strict, legacy, floatKind) ==
  IF tag = "!!null" \/ NullLikeTok(tok, style) THEN "N"
  ELSE IF tag \notin {"", "!!str", "!"} THEN "E"                \* other core tags on an untyped target: an error
  ELSE IF style # "p" \/ tag = "!!str" \/ tag = "!" THEN "S"
  ELSE IF BoolParse(tok, strict) # "none" THEN "B"
  ELSE IF IntParse(tok, FALSE, 64, legacy).ok \/ IntParse(tok, TRUE, 64, legacy).ok THEN "I"
  ELSE IF floatKind = "finite" THEN "F" ELSE "S"               \* non-finite floats and everything else: text

(* ---------------- self-check of the string arithmetic (8 and 16 bit, real arithmetic) ---------------- *)
RECURSIVE ValueOf(_, _)
ValueOf(m, radix) == IF Len(m) = 0 THEN 0 ELSE ValueOf(SubSeq(m, 1, Len(m) - 1), radix) * radix + DigitVal(Ch(m, Len(m)))
Pow2(n) == IF n = 7 THEN 128 ELSE IF n = 8 THEN 256 ELSE IF n = 15 THEN 32768 ELSE 65536
SelfCheck(tok, legacy) ==
  \A bits \in {8, 16} :
    LET t == Trim(tok)  sp == SignSplit(t)  rd == RadixDigits(legacy, sp.rest) IN
    (DigitsValid(rd.digits, rd.radix) /\ Len(NormDigits(rd.digits)) <= 6) =>
       LET v == ValueOf(NormDigits(rd.digits), rd.radix) IN
       /\ IntParse(tok, FALSE, bits, legacy).ok = (~sp.minus /\ v <= Pow2(bits) - 1)
       /\ IntParse(tok, TRUE, bits, legacy).ok = (IF sp.neg THEN v <= Pow2(bits - 1) ELSE v <= Pow2(bits - 1) - 1)
(* monotone in the width, and unsigned acceptance implies signed acceptance at the next width *)
WidthLaws(tok, legacy) ==
  /\ \A sg \in BOOLEAN : \A b \in {8, 16, 32, 64} : IntParse(tok, sg, b, legacy).ok => IntParse(tok, sg, 2 * b, legacy).ok
  /\ \A b \in {8, 16, 32, 64} : IntParse(tok, FALSE, b, legacy).ok => IntParse(tok, TRUE, 2 * b, legacy).ok
  /\ \A b \in {8, 16, 32, 64, 128} : (IntParse(tok, TRUE, b, legacy).ok /\ ~IntParse(tok, TRUE, b, legacy).neg /\ ~SignSplit(Trim(tok)).minus)
                                        => IntParse(tok, FALSE, b, legacy).ok
=============================================================================
