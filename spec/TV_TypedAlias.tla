--------------------------- MODULE TV_TypedAlias ---------------------------
(***************************************************************************)
(* C02 for TYPED targets.  A record is one document read twice into the    *)
(* same target type (schemas of TypedCursor: booleans, integers, strings,  *)
(* units, options, sequences, maps, tuples, structs, enums in all          *)
(* notations):                                                             *)
(*   praw / plain   : the alias-free document and what from_str returned   *)
(*   araw / aliased : the same document with ONE sub-node reached through  *)
(*                    an alias, and what from_str returned for it          *)
(*   form "wrap"    : araw = [ &a node , document with *a ] read as        *)
(*                    (ignored, T): the node is defined before the         *)
(*                    document and used inside it (value, item or scalar   *)
(*                    key position)                                        *)
(*   form "inplace" : a later sub-node identical to an earlier one is an   *)
(*                    alias to it, read as T                               *)
(* The validator first checks with YamlModel!ExpandAll that araw really    *)
(* expands to praw (so that the harness cannot compare unrelated texts),   *)
(* then requires what C02 states: the aliased read gives exactly the value *)
(* of the expansion, and fails exactly when the expansion fails.           *)
(***************************************************************************)
EXTENDS YamlModel, Json, IOUtils, TLC
Recs == ndJsonDeserialize(IOEnv.TRACE)
VARIABLE l
Norm(s) == [j \in 1..Len(s) |-> [k |-> s[j].k, v |-> s[j].v, q |-> s[j].q, t |-> s[j].t]]
ExpansionOk(r) ==
  LET x == ExpandAll(r.araw) IN
  IF HasErr(x) THEN FALSE
  ELSE IF r.form = "inplace" THEN Norm(x) = Norm(r.praw)
  ELSE /\ Len(x) >= 3 /\ x[1].k = "SS" /\ x[Len(x)].k = "SE"
       /\ LET first == E(x, 2) IN first + 1 <= Len(x) - 1 /\ Norm(SubSeq(x, first + 1, Len(x) - 1)) = Norm(r.praw)
IsErr(n) == n.c = "ERR"
Check(r) ==
  IF ~ExpansionOk(r) THEN "harness-texts-are-not-expansion-related"
  ELSE IF IsErr(r.plain) # IsErr(r.aliased) THEN (IF IsErr(r.aliased) THEN "alias-rejected-where-the-copy-is-accepted" ELSE "alias-accepted-where-the-copy-is-rejected")
  ELSE IF ~IsErr(r.plain) /\ r.plain # r.aliased THEN "aliased-value-differs-from-the-copy"
  ELSE "ok"
Init == l = 1 /\ TLCSet(1, 0)
Next == /\ l <= Len(Recs)
        /\ LET r == Recs[l]  c == Check(r) IN
             IF c = "ok" THEN TRUE
             ELSE /\ PrintT(<<"MISMATCH", r.id, ToJson([verdict |-> c, form |-> r.form, schema |-> r.schema, yaml |-> r.yaml, plain_yaml |-> r.plain_yaml,
                                                         plain |-> r.plain, aliased |-> r.aliased])>>)
                  /\ TLCSet(1, TLCGet(1) + 1)
        /\ l' = l + 1
Spec == Init /\ [][Next]_l
Accepted == /\ PrintT(<<"TVDONE", TLCGet("stats").diameter - 1, Len(Recs), TLCGet(1)>>)
            /\ TLCGet("stats").diameter - 1 = Len(Recs) /\ TLCGet(1) = 0
=============================================================================
