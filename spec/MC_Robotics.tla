---------------------------- MODULE MC_Robotics ----------------------------
(* every token sequence up to MaxLen over a small alphabet x tag: laws of the acceptor, and each sequence as a test case *)
EXTENDS Robotics, Json
CONSTANTS MaxLen, Emit
VARIABLES ts, tag
vars == <<ts, tag>>
T(t, s) == [t |-> t, s |-> s]
Alphabet == {T("num", "2"), T("num", "1_0.5"), T("num", "3e1"), T("num", "1_0e-1"), T("id", "pi"), T("id", "deg"), T("id", "rad"), T("sex", "1:30"),
             T("op", "+"), T("op", "-"), T("op", "*"), T("op", "/"), T("lp", "("), T("rp", ")"), T("num", "1_"), T("id", "foo")}
Tags == {"", "deg", "rad"}
Init == ts = <<>> /\ tag \in Tags
Next == Len(ts) < MaxLen /\ \E a \in Alphabet : ts' = Append(ts, a) /\ UNCHANGED tag
Spec == Init /\ [][Next]_vars
P == Parse(ts, tag)
(* a plan is a well-formed postfix program leaving exactly one value *)
RECURSIVE StackAfter(_, _, _)
StackAfter(plan, i, h) ==
  IF h < 0 THEN 0 - 1 ELSE IF i > Len(plan) THEN h ELSE
  LET o == plan[i].op IN
  IF o \in {"add", "sub", "mul", "div"} THEN (IF h < 2 THEN 0 - 1 ELSE StackAfter(plan, i + 1, h - 1))
  ELSE IF o \in {"neg", "deg2rad"} THEN (IF h < 1 THEN 0 - 1 ELSE StackAfter(plan, i + 1, h))
  ELSE StackAfter(plan, i + 1, h + 1)
InvPlanWellFormed == P.ok => StackAfter(P.plan, 1, 0) = 1
(* laws *)
N2 == T("num", "2")
InvPrecedence ==
  /\ (ts = <<N2, T("op", "+"), N2, T("op", "*"), N2>> /\ tag = "") =>
        P.plan = <<It("num", "2"), It("num", "2"), It("num", "2"), It("mul", ""), It("add", "")>>
  /\ (ts = <<N2, T("op", "-"), N2, T("op", "-"), N2>> /\ tag = "") =>
        P.plan = <<It("num", "2"), It("num", "2"), It("sub", ""), It("num", "2"), It("sub", "")>>
  /\ (ts = <<T("op", "-"), N2, T("op", "*"), N2>> /\ tag = "") =>
        P.plan = <<It("num", "2"), It("neg", ""), It("num", "2"), It("mul", "")>>
(* degrees are converted exactly once: a bare expression under !degrees gets one conversion at the end, a unitized one none; *)
(* deg(...) contributes one conversion per call                                                                              *)
Count(plan, o) == Cardinality({i \in 1..Len(plan) : plan[i].op = o})
Calls(name) == Cardinality({i \in 1..Len(ts) : ts[i] = T("id", name)})
InvConvertOnce == P.ok => Count(P.plan, "deg2rad") = Calls("deg") + (IF tag = "deg" /\ Calls("deg") + Calls("rad") = 0 /\ ~\E i \in 1..Len(ts) : ts[i].t = "sex" THEN 1 ELSE 0)
(* mixing under !degrees: a unitized value next to a bare term at the top level is rejected *)
InvMixedRejected == (tag = "deg" /\ ts = <<T("id", "deg"), T("lp", "("), N2, T("rp", ")"), T("op", "+"), N2>>) => ~P.ok
(* nesting beyond the limit is rejected, up to the limit it is not *)
RECURSIVE Nest(_)
Nest(k) == IF k = 0 THEN <<N2>> ELSE <<T("lp", "(")>> \o Nest(k - 1) \o <<T("rp", ")")>>
InvDepthLimit == \A k \in 0..(MaxDepth + 2) : Parse(Nest(k), "").ok <=> k <= MaxDepth
EmitCase == Emit => PrintT(<<"CASE", ToJson([ts |-> ts, tag |-> tag, ok |-> P.ok, plan |-> P.plan])>>)
=============================================================================
