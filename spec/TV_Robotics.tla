---------------------------- MODULE TV_Robotics ----------------------------
(***************************************************************************)
(* Trace validator for C19.  One record = one scalar (token list ts, tag)  *)
(* requested as f32 or f64 with the option on and off.  plan / want: the   *)
(* plan the harness folded and the resulting bit pattern; on / off: what   *)
(* the crate returned; plain: Rust's own float parser on the same text.    *)
(* Token kinds "lit" (ordinary-literal corpus), "bytes" (arbitrary text)   *)
(* and "deep" (very deep nesting) are not parsed by the specification.     *)
(***************************************************************************)
EXTENDS Robotics, Json, IOUtils
Recs == ndJsonDeserialize(IOEnv.TRACE)
VARIABLE l
Opaque(r) == Len(r.ts) = 1 /\ r.ts[1].t \in {"lit", "bytes", "deep"}
(* what the plain reader accepts among token lists: an optional sign and one number without underscores, or inf / nan words *)
SignedPlain(ts) == LET k == Len(ts) IN
  /\ k \in {1, 2} /\ (k = 2 => ts[1].t = "op" /\ ts[1].s \in {"+", "-"})
  /\ \/ (ts[k].t = "num" /\ NumOk(ts[k].s) /\ ~\E i \in 1..Len(ts[k].s) : Ch(ts[k].s, i) = "_")
     \/ (ts[k].t = "id" /\ ts[k].s \in {"inf", "nan"})
Check(r) ==
  IF r.on.panic \/ r.off.panic THEN "panic"
  ELSE IF r.on.ms > 2000 \/ r.off.ms > 2000 THEN "unbounded-work"
  ELSE IF Opaque(r) THEN
       (* ordinary literals: whatever the plain reader makes of the text, switching the option on must not change it *)
       IF r.ts[1].t = "lit" /\ r.off.ok /\ (~r.on.ok \/ r.on.bits # r.off.bits) THEN "ordinary-literal-changed"
       ELSE "ok"
  ELSE LET p == Parse(r.ts, r.tag) IN
       IF ~p.ok /\ r.on.ok THEN "malformed-expression-accepted"
       ELSE IF p.ok /\ ~r.on.ok THEN "well-formed-expression-rejected"
       ELSE IF p.ok /\ r.has /\ p.plan # r.plan THEN "harness-plan-differs-from-specification"
       ELSE IF p.ok /\ r.has /\ r.on.bits # r.want THEN "wrong-value"
       ELSE IF r.off.ok /\ ~SignedPlain(r.ts) THEN "expression-evaluated-with-the-option-off"
       ELSE IF r.off.ok /\ r.tag # "deg" /\ (~r.on.ok \/ r.on.bits # r.off.bits) THEN "ordinary-literal-changed"
       ELSE "ok"
Init == l = 1 /\ TLCSet(1, 0)
Next == /\ l <= Len(Recs)
        /\ LET r == Recs[l]  c == Check(r) IN
             IF c = "ok" THEN TRUE
             ELSE /\ PrintT(<<"MISMATCH", r.id, ToJson([verdict |-> c, text |-> r.text, tag |-> r.tag, ty |-> r.ty])>>)
                  /\ TLCSet(1, TLCGet(1) + 1)
        /\ l' = l + 1
Spec == Init /\ [][Next]_l
Accepted == /\ PrintT(<<"TVDONE", TLCGet("stats").diameter - 1, Len(Recs), TLCGet(1)>>)
            /\ TLCGet("stats").diameter - 1 = Len(Recs) /\ TLCGet(1) = 0
=============================================================================
