------------------------------ MODULE Bounds ------------------------------
(***************************************************************************)
(* C08: the cost of deserialization is bounded by the configured limits.   *)
(* For a full raw stream (one document) and alias limits                   *)
(*   lim = [total, per, stack]                                             *)
(* FirstTrip says which alias limit must stop the parse first, scanning    *)
(* the aliases in document order exactly as the property words it:         *)
(*   per-anchor count  > per    at the alias event                         *)
(*   replay nesting    > stack  at the alias event (nesting is 1: recorded *)
(*                              buffers hold expanded events, never        *)
(*                              aliases - LiveEvents!InjectDepthLeOne)     *)
(*   replayed events   > total  at the event that crosses the limit        *)
(* and "ok" when none does.  Replayed(raw) and Delivered(raw) are the      *)
(* closed forms the harness' observers are compared with.                  *)
(***************************************************************************)
EXTENDS Budget

RECURSIVE Trip(_, _, _, _, _)
(* i: raw index; rep: replayed so far; per: function id -> count (as a sequence of ids seen) *)
CountIn(seq, x) == Cardinality({j \in 1..Len(seq) : seq[j] = x})
Trip(raw, lim, i, rep, seen) ==
  IF i > Len(raw) THEN "ok"
  ELSE IF raw[i].k # "AL" THEN Trip(raw, lim, i + 1, rep, seen)
  ELSE LET id == raw[i].a  n == CountIn(seen, id) + 1 IN
       IF n > lim.per THEN "per_anchor"
       ELSE IF 1 > lim.stack THEN "stack"
       ELSE IF ~Resolvable(raw, i) THEN "unresolved"
       ELSE LET s == DefIdx(raw, id, i)  len == Len(ReplayOf(raw, s, E(raw, s))) IN
            IF rep + len > lim.total THEN "total" ELSE Trip(raw, lim, i + 1, rep + len, Append(seen, id))
FirstTrip(raw, lim) == Trip(raw, lim, 1, 0, <<>>)
Replayed(raw) == Len(Obs(raw)) - Len(raw)
(* nodes handed to the target: node starts of the observed stream, an alias + replay being one node *)
DeliveredNodes(raw) == CountK(Obs(raw), {"S", "SS", "MS"})
=============================================================================
