------------------------------ MODULE Totality ------------------------------
(***************************************************************************)
(* C01, outcome contract.  The declared product of one input:              *)
(* entry points x target types x option vectors, restricted by             *)
(* Applicable (str-based entry points need valid UTF-8; the borrowed       *)
(* target only exists for borrowing entry points).  A run record per input *)
(* must account for exactly that many calls, each ending in a value or an  *)
(* error value whose every rendering succeeded; anything else (panic,      *)
(* abort of the process, timeout, rendering panic) is listed in `bad`.     *)
(* The progress part of C01 (termination of the event pump) is the         *)
(* liveness property of MC_Totality; the nesting part is bounded by the    *)
(* depth accounting of Budget.tla (C07).                                   *)
(***************************************************************************)
EXTENDS Naturals, Sequences, FiniteSets, TLC
Entries == {"str", "slice", "reader", "multi", "slice_multi", "read", "wd_str", "wd_slice", "wd_reader"}
Targets == {"tree", "ignored", "struct", "enum", "map", "optvec", "bytes", "string", "borrowed", "floats", "unit", "units"}
OptVecs == {"default", "lenient", "tight"}
NeedsUtf8(e) == e \in {"str", "multi", "wd_str"}
Borrowing(e) == e \in {"str", "slice"}
Applicable(e, t, utf8) == (NeedsUtf8(e) => utf8) /\ (t = "borrowed" => Borrowing(e))
Product(utf8) == {<<e, t, o>> \in Entries \X Targets \X OptVecs : Applicable(e, t, utf8)}
Outcomes == {"ok", "err"}
(* verdict for one run record r = [utf8, calls, ok, err, bad] *)
RunVerdict(r) ==
  IF r.bad # <<>> THEN r.bad[1].outcome                       \* "panic" | "abort" | "timeout" | "render-panic"
  ELSE IF r.calls # Cardinality(Product(r.utf8)) THEN "calls-missing-from-the-declared-product"
  ELSE IF r.ok + r.err # r.calls THEN "outcome-neither-value-nor-error"
  ELSE "ok"
=============================================================================
