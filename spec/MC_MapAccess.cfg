SPECIFICATION Spec
CONSTANTS
  MaxEv = 9
  Policies = {"Error", "FirstWins", "LastWins"}
  AllowSeqKeys = FALSE
  KeyScalars <- KeyScalarsQ
INVARIANTS
  InvAgree
  InvCursor
  InvFaultyRoot
  EmitCase
CHECK_DEADLOCK FALSE
