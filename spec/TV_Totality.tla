---------------------------- MODULE TV_Totality ----------------------------
(* Trace validator for C01: one record per input, see Totality.tla *)
EXTENDS Totality, Json, IOUtils
Recs == ndJsonDeserialize(IOEnv.TRACE)
VARIABLE l
Init == l = 1 /\ TLCSet(1, 0)
Next == /\ l <= Len(Recs)
        /\ LET r == Recs[l]  c == RunVerdict(r) IN
             IF c = "ok" THEN TRUE
             ELSE /\ PrintT(<<"MISMATCH", r.id, ToJson([verdict |-> c, bad |-> r.bad])>>)
                  /\ TLCSet(1, TLCGet(1) + 1)
        /\ l' = l + 1
Spec == Init /\ [][Next]_l
Accepted == /\ PrintT(<<"TVDONE", TLCGet("stats").diameter - 1, Len(Recs), TLCGet(1)>>)
            /\ TLCGet("stats").diameter - 1 = Len(Recs) /\ TLCGet(1) = 0
=============================================================================
