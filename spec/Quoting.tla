------------------------------ MODULE Quoting ------------------------------
(***************************************************************************)
(* C12: every string survives the round trip.  Strings are sequences of    *)
(* SYMBOLIC characters (one-character strings for printable ASCII, names   *)
(* for the rest: "SP" "TAB" "LF" "CR" "BOM" "NEL" "LS" "C0" "C1" "DEL"     *)
(* "BS").                                                                  *)
(* Operational side: the serializer's decision to write a string PLAIN in  *)
(* a position (src/ser_quoting.rs is_plain_safe / is_plain_value_safe,     *)
(* KeyScalarSink).  Declarative side: what a YAML reader makes of that     *)
(* text when it stands plain in that position.  Property: a string is      *)
(* written plain only if it reads back as the same string - never as       *)
(* null, a number, a boolean, a merge key, a document marker or another    *)
(* string.  Quoted and block forms are decided by the round trip itself    *)
(* (TV_Quoting: read-back = original).                                     *)
(***************************************************************************)
EXTENDS Naturals, Sequences, FiniteSets, TLC

IsWs(c) == c \in {"SP", "TAB", "LF", "CR"}                \* is_ascii_whitespace
IsBlank(c) == c \in {"SP", "TAB"}
Control(c) == c \in {"TAB", "LF", "CR", "C0", "C1", "DEL", "NEL"}    \* char::is_control
Digit(c) == c \in {"0", "1"}
StartsWith(t, p) == Len(t) >= Len(p) /\ SubSeq(t, 1, Len(p)) = p
HasSub(t, p) == \E i \in 1..(Len(t) - Len(p) + 1) : SubSeq(t, i, i + Len(p) - 1) = p
Has(t, c) == \E i \in 1..Len(t) : t[i] = c
RECURSIVE TrimR(_), TrimL(_)
TrimR(t) == IF t # <<>> /\ IsWs(t[Len(t)]) THEN TrimR(SubSeq(t, 1, Len(t) - 1)) ELSE t
TrimL(t) == IF t # <<>> /\ IsWs(t[1]) THEN TrimL(Tail(t)) ELSE t
AllDigits(t) == t # <<>> /\ \A i \in 1..Len(t) : Digit(t[i])
(* numeric looking over {0 1 . - +}: [+-]?( D+ | D+ . D* | . D+ ) *)
NumBody(t) == \/ AllDigits(t)
              \/ \E i \in 1..Len(t) : /\ t[i] = "." /\ (\A j \in 1..Len(t) : j # i => Digit(t[j]))
                                      /\ Len(t) > 1 /\ (i > 1 \/ i < Len(t)) /\ (i = 1 => Len(t) > 1)
NumericLooking(t) == IF t # <<>> /\ t[1] \in {"-", "+"} THEN NumBody(Tail(t)) ELSE NumBody(t)
Lower1(c) == IF c = "N" THEN "n" ELSE IF c = "Y" THEN "y" ELSE c
Yaml11Bool(t) == Len(t) = 1 /\ Lower1(t[1]) \in {"y", "n"}          \* the one-letter spellings within the alphabet
Ambiguous(t) == t = <<>> \/ t = <<"~">> \/ NumericLooking(t)
AmbiguousValue(t, yaml12) == Ambiguous(t) \/ (~yaml12 /\ Yaml11Bool(t))
Indicators == {",", ":", "[", "]", "{", "}", "#", "&", "*", "!", "|", ">", "'", "\"", "%", "@", "`"}
HasControl(t) == \E i \in 1..Len(t) : Control(t[i])

(* ---- the serializer's predicates ---- *)
(* repairs (CONSTANT-free: the module models the tree as it is; see QuoteTrailingBlank etc.) *)
FirstCharOk(t) == /\ ~IsWs(t[1])
                  /\ (t[1] \in {"-", "?"} => Len(t) > 1 /\ ~IsWs(t[2]))
                  /\ t[1] \notin Indicators
(* strings the repaired predicates refuse to write plain *)
DocMarker(t) == \E m \in {<<"-", "-", "-">>, <<".", ".", ".">>} : StartsWith(t, m) /\ (Len(t) = 3 \/ IsWs(t[4]))
Risky(t) == \/ IsWs(t[Len(t)])               \* trailing blank or break: trimmed by every reader
            \/ DocMarker(t)                  \* `---` / `...` at column 0
            \/ t = <<"<", "<">>              \* the merge key
            \/ Has(t, "BOM")                 \* U+FEFF is dropped at the start of a document
CONSTANT Repaired                            \* TRUE: predicates after the fix commit; FALSE: the pinned tree
PlainValueSafe(t, yaml12, inFlow) ==
    /\ ~AmbiguousValue(t, yaml12) /\ FirstCharOk(t)
    /\ (Repaired => ~Risky(t))
    /\ ~HasSub(t, <<":", "SP">>) /\ (TrimR(TrimL(t)) = <<>> \/ TrimR(TrimL(t))[Len(TrimR(TrimL(t)))] # ":")
    /\ ~HasControl(t) /\ ~Has(t, "#")
    /\ (inFlow => \A i \in 1..Len(t) : t[i] \notin {",", "[", "]", "{", "}"})
    /\ ((Repaired /\ inFlow) => ~(Len(t) >= 2 /\ SubSeq(t, Len(t) - 1, Len(t)) = <<"SP", "-">>))
PlainSafe(t) == /\ ~Ambiguous(t) /\ FirstCharOk(t) /\ ~HasControl(t)
                /\ (Repaired => ~Risky(t))
                /\ ~Has(t, ":") /\ ~Has(t, "#")
(* single characters '.', '#', '-' are always single-quoted by serialize_str *)
EmittedPlain(t, p, yaml12) ==
  IF p = "key" THEN PlainSafe(t) /\ PlainValueSafe(t, yaml12, TRUE)
  ELSE IF Len(t) = 1 /\ t[1] \in {".", "#", "-"} THEN FALSE
  ELSE IF p = "flow" THEN PlainValueSafe(t, yaml12, TRUE) ELSE PlainValueSafe(t, yaml12, FALSE)

(* ---- what a YAML reader makes of text t written plain at position p ---- *)
AtCol0(p) == p \in {"root", "key"}
AtDocStart(p) == p \in {"root", "key"}
ReadsBackSame(t, p, yaml12) ==
    /\ t # <<>> /\ TrimR(t) = t /\ TrimL(t) = t
    /\ ~(AtCol0(p) /\ DocMarker(t))
    /\ ~(AtDocStart(p) /\ t[1] = "BOM")
    /\ ~(t[1] \in {"-", "?", ":"} /\ (Len(t) = 1 \/ IsWs(t[2])))
    /\ t[1] \notin (Indicators \ {":"})
    /\ ~HasSub(t, <<"SP", "#">>) /\ ~HasSub(t, <<"TAB", "#">>)
    /\ ~HasSub(t, <<":", "SP">>) /\ ~HasSub(t, <<":", "TAB">>) /\ t[Len(t)] # ":"
    /\ ~HasControl(t) /\ ~Has(t, "LS")
    /\ (p \in {"flow", "key"} => \A i \in 1..Len(t) : t[i] \notin {",", "[", "]", "{", "}"})
    /\ (p = "flow" => ~(Len(t) >= 2 /\ SubSeq(t, Len(t) - 1, Len(t)) = <<"SP", "-">>))     \* ` -` in front of `]` or `,`
    /\ t # <<"~">> /\ ~NumericLooking(t)          \* null / number for an untyped or lenient reader
    /\ ~(~yaml12 /\ Yaml11Bool(t))
    /\ ~(p = "key" /\ t = <<"<", "<">>)           \* merge key
RoundTrips(t, p, yaml12) == EmittedPlain(t, p, yaml12) => ReadsBackSame(t, p, yaml12)
=============================================================================
