--------------------------- MODULE TR_MapAccess ---------------------------
(***************************************************************************)
(* Action-level trace validation of the mapping access machine (C03/C04).  *)
(*                                                                         *)
(* `MA::next_key_seed` (de.rs) is instrumented (cfg serde_saphyr_verif) to *)
(* log every iteration of its loop AFTER the step was taken: which branch  *)
(* ran (KP: an entry popped from the pending queue, FL: the next merge     *)
(* batch requested, KL: the live stream looked at), what it did (yield,    *)
(* skip, dup, merge, end, end-flush, batch, done) and the sizes of the     *)
(* pending queue, of the merge stack and of the seen-key set plus the      *)
(* flushing flag.  One record = one parse of an alias-free root mapping    *)
(* under one policy: [id, doc, policy, steps, res].  A step is consumed    *)
(* iff MapAccessMachine, in its current state, takes exactly the logged    *)
(* branch (Label) and its post-state has the logged sizes; at the end of   *)
(* the steps the machine must have terminated the way the call did.  So    *)
(* the order in which merged entries are queued, the batches popped, the   *)
(* duplicate decisions and what skip_one_node leaves behind are compared   *)
(* after every single iteration, not only in the value returned.           *)
(***************************************************************************)
EXTENDS MapAccessMachine, Json, IOUtils
Recs == ndJsonDeserialize(IOEnv.TRACE)
VARIABLES k, l
trvars == <<doc, pol, mpos, seen, mstack, pending, flushing, yields, mst, k, l>>
Steps == IF k <= Len(Recs) THEN Recs[k].steps ELSE <<>>
PostMatches(s) == Len(pending') = s.pending /\ Len(mstack') = s.mstack /\ Cardinality(seen') = s.seen /\ flushing' = s.flushing
Consume == /\ l <= Len(Steps) /\ MARun
           /\ LET s == Steps[l] IN Label = <<s.act, s.out>> /\ MANext /\ PostMatches(s)
           /\ l' = l + 1 /\ UNCHANGED <<doc, pol, k>>
(* the machine's final state against how the call ended *)
EndOk == LET res == Recs[k].res IN
         IF res = "ok" THEN mst = "ok"
         \* (a trace that stops while the machine is still running ended inside a VALUE - a nested mapping, an ignored node -
         \* whose own errors are not this machine's; nothing is required of the error class then)
         ELSE /\ mst # "ok"
              /\ (mst = "dup" => res = "DuplicateKey")
LoadNext == /\ k' = k + 1 /\ l' = 1
            /\ IF k + 1 <= Len(Recs) THEN doc' = Recs[k + 1].doc /\ pol' = Recs[k + 1].policy ELSE doc' = <<>> /\ pol' = "Error"
            /\ mpos' = 2 /\ seen' = {} /\ mstack' = <<>> /\ pending' = <<>> /\ flushing' = FALSE /\ yields' = <<>> /\ mst' = "run"
TrFinished == k <= Len(Recs) /\ l > Len(Steps)
Advance == TrFinished /\ EndOk /\ LoadNext
ModelState == [label |-> (IF MARun THEN Label ELSE <<"-", mst>>), pending |-> Len(pending), mstack |-> Len(mstack), seen |-> Cardinality(seen),
               flushing |-> flushing, mpos |-> mpos, mst |-> mst, yields |-> yields]
Reject == /\ k <= Len(Recs)
          /\ \/ /\ TrFinished /\ ~EndOk
                /\ PrintT(<<"MISMATCH", Recs[k].id, ToJson([verdict |-> "map-access-trace-ends-in-a-state-the-model-does-not-end-in", res |-> Recs[k].res,
                             policy |-> pol, model |-> ModelState])>>)
             \/ /\ ~TrFinished /\ ~ENABLED Consume
                /\ PrintT(<<"MISMATCH", Recs[k].id, ToJson([verdict |-> "map-access-step-not-allowed-by-the-machine-model", step |-> l, logged |-> Steps[l],
                             policy |-> pol, model |-> ModelState])>>)
          /\ TLCSet(1, TLCGet(1) + 1)
          /\ LoadNext
TrInit == /\ k = 1 /\ l = 1 /\ doc = Recs[1].doc /\ pol = Recs[1].policy /\ MAInit
          /\ TLCSet(1, 0) /\ TLCSet(2, 0)
TrNext == Consume \/ Advance \/ Reject
TrSpec == TrInit /\ [][TrNext]_trvars
Count == TLCSet(2, IF k > TLCGet(2) THEN k ELSE TLCGet(2))
Accepted == /\ PrintT(<<"TVDONE", TLCGet(2) - 1, Len(Recs), TLCGet(1)>>)
            /\ TLCGet(2) = Len(Recs) + 1 /\ TLCGet(1) = 0
=============================================================================
