------------------------- MODULE MapAccessMachine -------------------------
EXTENDS MapAccess

(***************************************************************************)
(* Operational model of MA::next_key_seed for ONE mapping (root at ms).    *)
(* pending entries are key indices; a batch is a sequence of key indices.  *)
(***************************************************************************)
RECURSIVE PendingOf(_, _), PopAppend(_)
(* while let Some(b) = batches.pop() { merged.append(b) } *)
PopAppend(bs) == IF bs = <<>> THEN <<>> ELSE bs[Len(bs)] \o PopAppend(SubSeq(bs, 1, Len(bs) - 1))
(* pending_entries_from_events / collect_entries_from_map (precondition SrcOk) *)
PendingOf(x, s) ==
  CASE x[s].k = "MS" -> OwnE(x, s) \o PopAppend([j \in 1..Len(MergeVals(x, s)) |-> PendingOf(x, MergeVals(x, s)[j])])
    [] x[s].k = "SS" -> PopAppend([j \in 1..Len(Items(x, s)) |-> PendingOf(x, Items(x, s)[j])])
    [] OTHER -> <<>>

VARIABLES doc, pol, mpos, seen, mstack, pending, flushing, yields, mst
mavars == <<mpos, seen, mstack, pending, flushing, yields, mst>>
MAInit == mpos = 2 /\ seen = {} /\ mstack = <<>> /\ pending = <<>> /\ flushing = FALSE /\ yields = <<>> /\ mst = "run"
MARun == mst = "run"

KeyPending ==       \* `if let Some(entry) = self.pending.pop_front()` (only reached while flushing here)
  /\ MARun /\ pending # <<>>
  /\ LET e == pending[1]  f == FP(doc, e) IN
     /\ pending' = Tail(pending)
     /\ IF f \in seen THEN UNCHANGED <<yields, seen>>       \* flushing_merges: duplicates skipped silently
        ELSE yields' = Append(yields, e) /\ seen' = seen \cup {f}
  /\ UNCHANGED <<mpos, mstack, flushing, mst>>
RECURSIVE PopBatch(_)
PopBatch(ms) == IF ms = <<>> THEN <<ms, <<>>>>
                ELSE IF ms[Len(ms)] = <<>> THEN PopBatch(SubSeq(ms, 1, Len(ms) - 1))
                ELSE <<SubSeq(ms, 1, Len(ms) - 1), ms[Len(ms)]>>
FlushNext ==        \* enqueue_next_merge_batch
  /\ MARun /\ pending = <<>> /\ flushing
  /\ LET pb == PopBatch(mstack) IN
     IF pb[2] = <<>> THEN mst' = "ok" /\ mstack' = pb[1] /\ flushing' = FALSE /\ UNCHANGED pending    \* `self.flushing_merges = false; return Ok(None)`
     ELSE mstack' = pb[1] /\ pending' = pb[2] /\ UNCHANGED <<mst, flushing>>
  /\ UNCHANGED <<mpos, seen, yields>>
KeyLive ==          \* `match self.ev.peek()`
  /\ MARun /\ pending = <<>> /\ ~flushing
  /\ IF doc[mpos].k = "ME" THEN
        /\ mpos' = mpos + 1
        /\ IF mstack = <<>> THEN mst' = "ok" /\ UNCHANGED flushing ELSE flushing' = TRUE /\ UNCHANGED mst
        /\ UNCHANGED <<seen, mstack, pending, yields>>
     ELSE IF IsMergeKeyEv(doc[mpos]) THEN
        LET vs == ValOf(doc, mpos) IN
        IF ~SrcOk(doc, vs) THEN mst' = "merge" /\ UNCHANGED <<mpos, seen, mstack, pending, flushing, yields>>
        ELSE /\ mstack' = (IF PendingOf(doc, vs) = <<>> THEN mstack ELSE Append(mstack, PendingOf(doc, vs)))
             /\ mpos' = E(doc, vs) + 1 /\ UNCHANGED <<seen, pending, flushing, yields, mst>>
     ELSE LET f == FP(doc, mpos)  vs == ValOf(doc, mpos) IN
        IF f \in seen /\ pol = "Error" THEN mst' = "dup" /\ UNCHANGED <<mpos, seen, mstack, pending, flushing, yields>>
        ELSE IF f \in seen /\ pol = "FirstWins" THEN      \* skip_one_node
             mpos' = E(doc, vs) + 1 /\ UNCHANGED <<seen, mstack, pending, flushing, yields, mst>>
        ELSE /\ yields' = Append(yields, mpos) /\ seen' = seen \cup {f}
             /\ mpos' = E(doc, vs) + 1 /\ UNCHANGED <<mstack, pending, flushing, mst>>
MANext == KeyPending \/ FlushNext \/ KeyLive

(* which branch of the loop in next_key_seed the machine takes next (the names the step hook logs): *)
(* KP an entry popped from the pending queue, FL the next merge batch requested, KL the live stream *)
Label ==
  IF pending # <<>> THEN <<"KP", IF FP(doc, pending[1]) \in seen THEN "skip" ELSE "yield">>
  ELSE IF flushing THEN <<"FL", IF PopBatch(mstack)[2] = <<>> THEN "done" ELSE "batch">>
  ELSE IF doc[mpos].k = "ME" THEN <<"KL", IF mstack = <<>> THEN "end" ELSE "end-flush">>
  ELSE IF IsMergeKeyEv(doc[mpos]) THEN <<"KL", IF SrcOk(doc, ValOf(doc, mpos)) THEN "merge" ELSE "merge-error">>
  ELSE LET f == FP(doc, mpos) IN
       IF f \in seen /\ pol = "Error" THEN <<"KL", "dup">>
       ELSE IF f \in seen /\ pol = "FirstWins" THEN <<"KL", "skip">> ELSE <<"KL", "yield">>

(* operational result agrees with the declarative requirement *)
Agree ==
  mst # "run" =>
    LET d == Delivered(doc, 1, pol) IN
    /\ mst = d.st
    /\ (mst = "ok" /\ ~MapAmbiguous(doc, 1)) =>
          /\ Len(yields) = Len(d.own) + Cardinality(d.merged)
          /\ SubSeq(yields, 1, Len(d.own)) = d.own
          /\ {yields[j] : j \in (Len(d.own) + 1)..Len(yields)} = d.merged
(* the cursor is always at an entry boundary of the root mapping: skip_one_node leaves nothing behind *)
CursorAtEntry == MARun /\ ~flushing /\ pending = <<>> => (mpos = Len(doc) \/ mpos \in Range(Entries(doc, 1)))
=============================================================================
