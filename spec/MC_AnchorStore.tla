-------------------------- MODULE MC_AnchorStore --------------------------
(* (1) every graph up to MaxFields fields over MaxAllocs allocations: the serializer / deserializer model preserves sharing; *)
(* (2) every history of calls (nesting depth <= 2) over the thread-local state machine: clean at every boundary, a nested    *)
(*     call is transparent to its caller.                                                                                    *)
EXTENDS AnchorStore, Json
CONSTANTS MaxAllocs, MaxFields, ScopeSaves, MaxCalls
VARIABLES fs, gphase,                   \* graph generator
          tl, frames, ncalls            \* call histories: frames = stack of [saved, pushed] per active call
vars == <<fs, gphase, tl, frames, ncalls>>

GenField(k, n) == /\ gphase = "gen" /\ Len(fs) < MaxFields /\ fs' = Append(fs, [k |-> k, n |-> n])
                  /\ UNCHANGED <<gphase, tl, frames, ncalls>>
GenDone == /\ gphase = "gen" /\ fs # <<>> /\ gphase' = "done" /\ UNCHANGED <<fs, tl, frames, ncalls>>

(* ---- histories ---- *)
Active == Len(frames)
ScopeEnter == /\ gphase = "gen" /\ fs = <<>> /\ Active < 2 /\ ncalls < MaxCalls
              /\ frames' = Append(frames, [saved |-> tl, pushed |-> 0])
              /\ tl' = CleanTL                                  \* both designs start the callee from a clean state
              /\ ncalls' = ncalls + 1 /\ UNCHANGED <<fs, gphase>>
PushCtx(id) == /\ Active > 0 /\ Len(tl.stack) < 2
               /\ tl' = [tl EXCEPT !.stack = Append(@, id), !.inprog = @ \cup {id}]
               /\ frames' = [frames EXCEPT ![Active].pushed = @ + 1]
               /\ UNCHANGED <<fs, gphase, ncalls>>
StoreA(id) == /\ Active > 0 /\ tl.stack # <<>> /\ tl.stack[Len(tl.stack)] = id
              /\ tl' = [tl EXCEPT !.store = @ \cup {id}]
              /\ UNCHANGED <<fs, gphase, frames, ncalls>>
PopCtx == /\ Active > 0 /\ frames[Active].pushed > 0
          /\ tl' = [tl EXCEPT !.stack = SubSeq(@, 1, Len(@) - 1), !.inprog = @ \ {tl.stack[Len(tl.stack)]}]
          /\ frames' = [frames EXCEPT ![Active].pushed = @ - 1]
          /\ UNCHANGED <<fs, gphase, ncalls>>
(* normal return, error return or panic: guards pop every context the call pushed, then the scope ends *)
ScopeExit == /\ Active > 0
             /\ tl' = (IF ScopeSaves THEN frames[Active].saved ELSE CleanTL)
             /\ frames' = SubSeq(frames, 1, Active - 1)
             /\ UNCHANGED <<fs, gphase, ncalls>>
Init == fs = <<>> /\ gphase = "gen" /\ tl = CleanTL /\ frames = <<>> /\ ncalls = 0
Next == \/ \E k \in {"S", "W", "WD"}, n \in 1..MaxAllocs : GenField(k, n) /\ frames = <<>> /\ ncalls = 0
        \/ GenDone
        \/ ScopeEnter \/ (\E id \in 1..2 : PushCtx(id) \/ StoreA(id)) \/ PopCtx \/ ScopeExit
Spec == Init /\ [][Next]_vars

InvSharing == (gphase = "done" /\ ~WeakBeforeStrong(fs)) => (De(fs) # <<0 - 1>> /\ SameSharing(fs, De(fs)))
(* the serializer's table defines every live allocation exactly once and refers to it everywhere else *)
InvEmitOnce == gphase = "done" =>
                 /\ DefCount(fs) = Cardinality({fs[i].n : i \in {i \in 1..Len(fs) : fs[i].k # "WD"}})
                 /\ DefCount(fs) + AliasCount(fs) = Cardinality({i \in 1..Len(fs) : fs[i].k # "WD"})
InvWeakFirstIsError == (gphase = "done" /\ WeakBeforeStrong(fs)) => De(fs) = <<0 - 1>>
(* C15 *)
InvCleanAtBoundary == Active = 0 => tl = CleanTL
(* when a call returns (normally, by error or by unwinding), its caller finds the thread-local state it had before the call *)
NestedTransparent == [][(Active > 0 /\ Len(frames') = Active - 1) => tl' = frames[Active].saved]_vars
EmitCase == gphase = "done" => PrintT(<<"CASE", ToJson([fields |-> fs])>>)
=============================================================================
