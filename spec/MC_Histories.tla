---------------------------- MODULE MC_Histories ----------------------------
(* C15: every sequence of up to MaxLen calls over NCalls call kinds (the harness' alphabet: successful parse with sharing, *)
(* failure midway through an anchored node, failure with a missing field, budget breach, panicking visitor, a parse nested *)
(* inside a user Deserialize impl - at top level and inside an anchored node -, abandoned iterator, serialization with     *)
(* shared pointers, unknown alias, weak reference).  One CASE per history; the thread-local state machine itself is        *)
(* model-checked in MC_AnchorStore (InvCleanAtBoundary, NestedTransparent).                                                *)
EXTENDS Naturals, Sequences, TLC, Json
CONSTANTS MaxLen, NCalls
VARIABLE h
Init == h = <<>>
Next == Len(h) < MaxLen /\ \E c \in 1..NCalls : h' = Append(h, c)
Spec == Init /\ [][Next]_h
EmitCase == h # <<>> => PrintT(<<"CASE", ToJson([calls |-> h])>>)
=============================================================================
