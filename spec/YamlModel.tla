---------------------------- MODULE YamlModel ----------------------------
(***************************************************************************)
(* Shared data model of serde-saphyr's input side.                         *)
(*                                                                         *)
(* A *raw stream* is the sequence of events saphyr-parser produces for a   *)
(* text.  Events are uniform records                                       *)
(*     [k, a, v, q, t]                                                     *)
(*   k \in {"S","SS","SE","MS","ME","AL","DS","DE","ERR"}                 *)
(*   a  anchor id (0 = none; for "AL" the id referred to)                  *)
(*   v  scalar text, q style ("p" plain,"s","d" quoted,"l","f" block)      *)
(*   t  tag ("" none)                                                      *)
(* All operators take the stream as an argument so that model-checking     *)
(* modules (stream is a variable built by the generator) and trace         *)
(* validators (stream comes from a recorded JSON line) share them.         *)
(***************************************************************************)
EXTENDS Naturals, Sequences, FiniteSets, SequencesExt

Ev(k, a, v, q, t) == [k |-> k, a |-> a, v |-> v, q |-> q, t |-> t]
ERRE == Ev("ERR", 0, "", "p", "")
HasErr(s) == \E j \in 1..Len(s) : s[j].k = "ERR"
IsStart(e) == e.k \in {"SS", "MS"}
IsEnd(e)   == e.k \in {"SE", "ME"}
IsNodeStart(e) == e.k \in {"S", "SS", "MS", "AL"}
Rev(s) == [j \in 1..Len(s) |-> s[Len(s) + 1 - j]]

(* index of the last event of the node that starts at i *)
RECURSIVE EndAt(_, _, _)
EndAt(r, i, d) ==
  LET e == r[i] IN
  IF IsStart(e) THEN EndAt(r, i + 1, d + 1)
  ELSE IF IsEnd(e) THEN (IF d = 1 THEN i ELSE EndAt(r, i + 1, d - 1))
  ELSE (IF d = 0 THEN i ELSE EndAt(r, i + 1, d))
E(r, i) == EndAt(r, i, 0)

(* start indices of the items of a sequence whose first item would be at i *)
RECURSIVE ItemStarts(_, _)
ItemStarts(r, i) == IF r[i].k = "SE" THEN <<>> ELSE <<i>> \o ItemStarts(r, E(r, i) + 1)
(* start indices of the keys of a mapping whose first key would be at i *)
RECURSIVE EntryStarts(_, _)
EntryStarts(r, i) == IF r[i].k = "ME" THEN <<>> ELSE <<i>> \o EntryStarts(r, E(r, E(r, i) + 1) + 1)

(* position where anchor id is defined: saphyr ids are unique per definition *)
DefStart(r, id) == CHOOSE i \in 1..Len(r) : r[i].k \in {"S", "SS", "MS"} /\ r[i].a = id
Defined(r, id, before) == \E i \in 1..(before - 1) : r[i].k \in {"S", "SS", "MS"} /\ r[i].a = id

(***************************************************************************)
(* C02: the alias-free expansion.  Each alias is replaced by the expansion *)
(* of the node anchored under the id the parser resolved it to; an alias   *)
(* inside its own anchor's node is an error (serde-saphyr: "recursive      *)
(* references require weak types").  Anchor marks are kept in the result   *)
(* (callers strip them with StripAnchors) so that C14 can see them.        *)
(***************************************************************************)
RECURSIVE Expand(_, _, _)
Expand(r, lo, hi) ==
  IF lo > hi THEN <<>> ELSE
  LET e == r[lo] IN
  IF e.k = "AL" THEN
     IF ~Defined(r, e.a, lo) THEN <<ERRE>> ELSE
     LET s == DefStart(r, e.a)  t == E(r, s) IN
       IF s < lo /\ lo <= t THEN <<ERRE>>
       ELSE LET x == Expand(r, s, t) IN
            IF HasErr(x) THEN <<ERRE>> ELSE
            LET rest == Expand(r, lo + 1, hi) IN IF HasErr(rest) THEN <<ERRE>> ELSE x \o rest
  ELSE LET rest == Expand(r, lo + 1, hi) IN IF HasErr(rest) THEN <<ERRE>> ELSE <<e>> \o rest
ExpandAll(r) == Expand(r, 1, Len(r))
StripAnchors(s) == [j \in 1..Len(s) |-> [s[j] EXCEPT !.a = 0]]

(***************************************************************************)
(* Untyped values: uniform records [c, s, a] (constructor, text, children) *)
(***************************************************************************)
N(c, s, a) == [c |-> c, s |-> s, a |-> a]
ERRN == N("ERR", "", <<>>)
IsErrN(n) == n.c = "ERR"

(* Untyped resolution of a scalar for the small alphabets used by the      *)
(* structural models ("1" integer, "~"/"null"/empty null, the rest text;   *)
(* quoted or block styles are always text).  The full table is Scalars.tla *)
NullLikeText(v) == v \in {"", "~", "null", "Null", "NULL"}
Leaf(e) == IF e.q # "p" THEN N("S", e.v, <<>>)
           ELSE IF NullLikeText(e.v) THEN N("N", "", <<>>)
           ELSE IF e.v \in {"0", "1", "2", "3", "4", "5", "6", "7", "8", "9"} THEN N("I", e.v, <<>>)
           ELSE IF e.v \in {"true", "false"} THEN N("B", e.v, <<>>)
           ELSE N("S", e.v, <<>>)

(* tree of the node at i of an alias-free stream; every entry delivered in *)
(* order as a pair (the order-preserving, LastWins view)                   *)
RECURSIVE TreeAt(_, _), TreeItems(_, _), TreeEntries(_, _)
TreeAt(x, i) == CASE x[i].k = "S"  -> Leaf(x[i])
                  [] x[i].k = "SS" -> N("Seq", "", TreeItems(x, i + 1))
                  [] x[i].k = "MS" -> N("Map", "", TreeEntries(x, i + 1))
                  [] OTHER -> ERRN
TreeItems(x, i) == IF x[i].k = "SE" THEN <<>> ELSE <<TreeAt(x, i)>> \o TreeItems(x, E(x, i) + 1)
TreeEntries(x, i) == IF x[i].k = "ME" THEN <<>>
                     ELSE LET v == E(x, i) + 1 IN
                          <<N("P", "", <<TreeAt(x, i), TreeAt(x, v)>>)>> \o TreeEntries(x, E(x, v) + 1)

(* C02 oracle: value required for a single-document content stream *)
RequiredTree(raw) == LET x == ExpandAll(raw) IN IF HasErr(x) THEN ERRN ELSE TreeAt(x, 1)

(***************************************************************************)
(* Well-formed stream generator support: the stack of open containers,     *)
(* "S" = in a sequence, "K" = mapping expecting a key, "V" = expecting a   *)
(* value.                                                                  *)
(***************************************************************************)
AfterNode(s) == IF s = <<>> THEN s
                ELSE IF s[Len(s)] = "K" THEN [s EXCEPT ![Len(s)] = "V"]
                ELSE IF s[Len(s)] = "V" THEN [s EXCEPT ![Len(s)] = "K"] ELSE s
(* events still needed to close everything *)
Need(s) == Len(s) + (IF s # <<>> /\ s[Len(s)] = "V" THEN 1 ELSE 0)
PopStk(s) == SubSeq(s, 1, Len(s) - 1)
=============================================================================
