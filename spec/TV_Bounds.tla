---------------------------- MODULE TV_Bounds ----------------------------
(***************************************************************************)
(* Trace validator for C08.  Records:                                      *)
(*  kind "limits": [raw, lim{total,per,stack}, res, nodes]                 *)
(*     res = "ok" | "total" | "per_anchor" | "stack" | "o:<class>"         *)
(*     nodes = number of nodes the target received (on ok)                 *)
(*  kind "family": [family, params, replayed_expected, nodes, peak,        *)
(*                  input_bytes, counted_events, res] for the attack       *)
(*     families whose size makes raw events impractical to ship; the       *)
(*     closed forms are checked against the model on the small grid by     *)
(*     MC_Bounds and the observers against the closed forms here.          *)
(***************************************************************************)
EXTENDS Bounds, Json, IOUtils
Recs == ndJsonDeserialize(IOEnv.TRACE)
VARIABLE l
K == 700            \* bytes of heap per (input byte + budget-counted event), fixed once from flat documents (measured <= 170)
C0 == 65536
CheckLimits(r) ==
  LET t == FirstTrip(r.raw, r.lim) IN
  IF t = "unresolved" THEN "ok"
  ELSE IF SubSeq(r.res, 1, 2) = "o:" THEN "ok"          \* another error class ended the parse first
  ELSE IF t # r.res THEN (IF r.res = "ok" THEN "limit-not-enforced" ELSE IF t = "ok" THEN "rejected-within-limits" ELSE "wrong-limit")
  ELSE IF t = "ok" /\ r.nodes # DeliveredNodes(r.raw) THEN "delivered-count"
  ELSE "ok"
CheckFamily(r) ==
  IF r.res = "ok" /\ r.nodes # r.nodes_expected THEN "delivered-count"
  ELSE IF r.res = "ok" /\ r.nodes > r.max_nodes THEN "nodes-over-budget"
  ELSE IF r.must_fail /\ r.res = "ok" THEN "attack-accepted"
  ELSE IF ~r.must_fail /\ r.res # "ok" THEN "rejected-within-limits"
  ELSE IF r.peak > K * (r.input_bytes + r.counted_events) + C0 THEN "heap"
  ELSE "ok"
Check(r) == IF r.kind = "limits" THEN CheckLimits(r) ELSE CheckFamily(r)
Init == l = 1 /\ TLCSet(1, 0)
Next == /\ l <= Len(Recs)
        /\ LET r == Recs[l]  c == Check(r) IN
             IF c = "ok" THEN TRUE
             ELSE /\ PrintT(<<"MISMATCH", r.id, ToJson([verdict |-> c, rec |-> [r EXCEPT !.raw = <<>>], required |-> IF r.kind = "limits" THEN FirstTrip(r.raw, r.lim) ELSE ""])>>)
                  /\ TLCSet(1, TLCGet(1) + 1)
        /\ l' = l + 1
Spec == Init /\ [][Next]_l
Accepted == /\ PrintT(<<"TVDONE", TLCGet("stats").diameter - 1, Len(Recs), TLCGet(1)>>)
            /\ TLCGet("stats").diameter - 1 = Len(Recs) /\ TLCGet(1) = 0
=============================================================================
