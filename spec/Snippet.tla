------------------------------ MODULE Snippet ------------------------------
(***************************************************************************)
(* C17: the contract of a rendered error report.                           *)
(*                                                                         *)
(* Texts and rendered lines are sequences of code points.  A report is     *)
(* reduced by the harness to its lines, each classified (one-to-one, from  *)
(* the gutter syntax only) as                                              *)
(*    "src"  : `NN | content`      with no = NN, content = the rest        *)
(*    "mark" : `   | ^^^ label`    with caret = 1-based column of first ^  *)
(*    "bar"  : `   |`                                                      *)
(*    "other": anything else (headline, `-->` line, label continuation).   *)
(* A window is a maximal run of src / mark / bar lines.                    *)
(*                                                                         *)
(* Declarative contract for one window rendered for location (e, c) with   *)
(* crop radius r over source lines ls (breaks LF, CR LF, lone CR):         *)
(*   W1 the numbered lines are consecutive, lie in [e-2, e+2] /\ [1, n]    *)
(*      and include e;                                                     *)
(*   W2 every numbered line shows a contiguous slice of its source line    *)
(*      (control characters replaced one for one), optionally between      *)
(*      ellipsis marks, that lies inside columns [max(1, c-r), c+r]; a     *)
(*      context line lying wholly left of that window may be shown whole   *)
(*      (documented exception) if it is no wider than a window;            *)
(*   W3 the error line's slice contains column c (or ends at the end of    *)
(*      line when c is the end-of-line position) and the caret is under it;*)
(*   W4 no line of the whole report contains a C0 control other than LF /  *)
(*      TAB, DEL, or a C1 control.                                         *)
(* Operational part: CropLine / Rebase transcribe crop_line_by_cols and    *)
(* the span rebasing of crop_window_text (src/de/snippet.rs); MC_Snippet   *)
(* shows on a grid that what they produce satisfies W2 and W3.             *)
(***************************************************************************)
EXTENDS Naturals, Integers, Sequences, FiniteSets, TLC

Ell == 8230
Bad(cp) == (cp < 32 /\ cp \notin {9, 10}) \/ cp = 127 \/ (cp >= 128 /\ cp <= 159)
Clean(s) == \A i \in 1..Len(s) : ~Bad(s[i])
Max(a, b) == IF a > b THEN a ELSE b
Min(a, b) == IF a < b THEN a ELSE b

(* ---------------- line structure ---------------- *)
RECURSIVE SplitFrom(_, _, _)
SplitFrom(t, i, cur) ==
  IF i > Len(t) THEN <<cur>>
  ELSE IF t[i] = 10 THEN <<cur>> \o SplitFrom(t, i + 1, <<>>)
  ELSE IF t[i] = 13 THEN (IF i < Len(t) /\ t[i + 1] = 10 THEN <<cur>> \o SplitFrom(t, i + 2, <<>>)
                          ELSE <<cur>> \o SplitFrom(t, i + 1, <<>>))
  ELSE SplitFrom(t, i + 1, Append(cur, t[i]))
Lines(t) == SplitFrom(t, 1, <<>>)
HasLoneCR(t) == \E i \in 1..Len(t) : t[i] = 13 /\ (i = Len(t) \/ t[i + 1] # 10)

(* ---------------- W2 / W3 ---------------- *)
(* shown x stands for source y: same length, equal except that a forbidden character may be replaced by an allowed one *)
SanEq(x, y) == Len(x) = Len(y) /\ \A i \in 1..Len(x) : x[i] = y[i] \/ (Bad(y[i]) /\ ~Bad(x[i]))
WinL(c, r) == Max(1, c - r)
WinR(c, r) == c + r
(* content = [ell] slice(line, a, b) [ell]; p, q = width of the left / right ellipsis mark: 0 none, 1 the ellipsis *)
(* character, 3 three full stops (the snippet library's own trimming of very wide lines)                         *)
Dots == <<46, 46, 46>>
EllAt(content, from, w) == (w = 1 /\ content[from] = Ell) \/ (w = 3 /\ SubSeq(content, from, from + 2) = Dots)
Shows(content, line, a, b, p, q) ==
  /\ Len(content) = p + (b - a + 1) + q
  /\ (p > 0 => EllAt(content, 1, p)) /\ (q > 0 => EllAt(content, Len(content) - q + 1, q))
  /\ SanEq(SubSeq(content, p + 1, Len(content) - q), SubSeq(line, a, b))
(* candidate (a, b, p, q) for a shown line: p / q from the content, b from a and the length *)
Cands(content, line) ==
  LET n == Len(line) IN
  {x \in [a : 1..(n + 1), p : {0, 1, 3}, q : {0, 1, 3}] :
      /\ Len(content) >= x.p + x.q
      /\ (x.p > 0 => EllAt(content, 1, x.p))
      /\ (x.q > 0 => EllAt(content, Len(content) - x.q + 1, x.q))
      /\ x.a + (Len(content) - x.p - x.q) - 1 <= n}
BOf(content, x) == x.a + (Len(content) - x.p - x.q) - 1
(* narrowed enumeration: the slice starts inside the window, or the line is shown whole *)
CandStarts(content, line, c, r) ==
  LET n == Len(line)  L == WinL(c, r) IN
  {x \in Cands(content, line) : x.a = 1 \/ (x.a >= L /\ x.a <= Min(WinR(c, r), n) + 1)}
LineVerdict(content, line, c, r, isErr, caret) ==
  LET n == Len(line)  L == WinL(c, r)  R == WinR(c, r)
      ok == {x \in CandStarts(content, line, c, r) : Shows(content, line, x.a, BOf(content, x), x.p, x.q)}
      inWin == {x \in ok : (x.a >= L /\ BOf(content, x) <= R) \/ BOf(content, x) < x.a}
      whole == {x \in ok : x.a = 1 /\ (BOf(content, x) = n \/ x.q = 3) /\ n < L /\ ~isErr}
      marked == {x \in inWin : \/ (c <= n /\ x.a <= c /\ c <= BOf(content, x) /\ caret = x.p + (c - x.a) + 1)
                               \/ (c = n + 1 /\ BOf(content, x) = n /\ x.q = 0 /\ caret = Len(content) + 1)}
  IN IF ok = {} THEN "not-a-slice-of-the-source-line"
     ELSE IF inWin = {} /\ whole = {} THEN "outside-the-crop-window"
     ELSE IF inWin = {} /\ n > 2 * r + 1 THEN "context-line-left-of-window-shown-uncropped"
     ELSE IF isErr /\ c > n + 1 THEN "column-beyond-line"
     ELSE IF isErr /\ marked = {} THEN "marker-not-under-column"
     ELSE "ok"

(* ---------------- a window ---------------- *)
(* w = sequence of classified lines [kind, no, content, caret] *)
SrcIdx(w) == SelectSeq([i \in 1..Len(w) |-> i], LAMBDA i : w[i].kind = "src")
WindowVerdict(w, ls, e, c, r) ==
  LET si == SrcIdx(w)  n == Len(ls)
      shown(k) == \E j \in 1..Len(si) : w[si[j]].no = k
      (* end of input: the location is the empty line after the final line break; the report may then *)
      (* point just past the end of the last real line instead of printing an empty numbered line      *)
      eof == e = n /\ n > 1 /\ ls[n] = <<>> /\ c = 1 /\ ~shown(e) /\ shown(e - 1)
      en == IF eof THEN e - 1 ELSE e IN
  IF si = <<>> THEN "empty-window"
  ELSE IF \E j \in 1..(Len(si) - 1) : w[si[j + 1]].no # w[si[j]].no + 1 THEN "line-numbers-not-consecutive"
  ELSE IF \E j \in 1..Len(si) : w[si[j]].no < Max(1, e - 2) \/ w[si[j]].no > Min(n, e + 2) THEN "more-than-two-lines-of-context"
  ELSE IF ~shown(en) THEN "error-line-not-shown"
  ELSE LET errAt == CHOOSE j \in 1..Len(si) : w[si[j]].no = en
           (* the caret line is the first mark line after the error line *)
           marks == {i \in (si[errAt] + 1)..Len(w) : w[i].kind = "mark" /\ \A k \in (si[errAt] + 1)..(i - 1) : w[k].kind # "src"}
       IN IF marks = {} THEN "no-marker"
          ELSE LET m == CHOOSE i \in marks : \A k \in marks : i <= k
                   vs == [j \in 1..Len(si) |-> LineVerdict(w[si[j]].content, ls[w[si[j]].no], c, r, j = errAt /\ ~eof, w[m].caret)]
                   bad == {j \in 1..Len(si) : vs[j] # "ok"}
               IN IF bad = {} THEN "ok" ELSE vs[CHOOSE j \in bad : \A k \in bad : j <= k]

(* ---------------- operational model: crop_line_by_cols + rebasing ---------------- *)
(* returns [a, b, p, q]: columns a..b of the line are kept, with ellipsis flags; b < a = empty *)
CropLine(n, L, R) ==
  IF n = 0 THEN [a |-> 1, b |-> 0, p |-> 0, q |-> 0]
  ELSE IF L >= n + 1 THEN [a |-> 1, b |-> n, p |-> 0, q |-> 0]              \* window starts at / after EOL: kept intact
  ELSE IF L <= 1 /\ R >= n THEN [a |-> 1, b |-> n, p |-> 0, q |-> 0]
  ELSE LET s == Min(L, n + 1)  ex == Min(R + 1, n + 1) IN
       [a |-> s, b |-> ex - 1, p |-> IF s > 1 THEN 1 ELSE 0, q |-> IF ex <= n THEN 1 ELSE 0]
(* caret column on the cropped error line for error column c (clamped to the produced line) *)
Rebase(n, c, cr) == Min(cr.p + Max(0, Min(c, n + 1) - cr.a) + 1, cr.p + (cr.b - cr.a + 1) + cr.q + 1)
=============================================================================
