---------------------------- MODULE MC_Snippet ----------------------------
(* the cropping arithmetic on a grid: every (line length, context line lengths, column, radius) *)
EXTENDS Snippet, Json
CONSTANTS MaxLen, Radii
VARIABLES n, np, nx, c, r, done
vars == <<n, np, nx, c, r, done>>
Ident(k) == [i \in 1..k |-> 1000 + i]          \* a line whose characters are all different
Init == n = 0 /\ np = 0 /\ nx = 0 /\ c = 1 /\ r = 1 /\ done = FALSE
Next == /\ ~done
        /\ n' \in 0..MaxLen /\ np' \in 0..MaxLen /\ nx' \in {0, MaxLen}
        /\ c' \in 1..(n' + 1) /\ r' \in Radii /\ done' = TRUE
Spec == Init /\ [][Next]_vars
Rendered(k, isErr) ==
  LET cr == CropLine(k, WinL(c, r), WinR(c, r))
      body == SubSeq(Ident(k), cr.a, cr.b) IN
  (IF cr.p = 1 THEN <<Ell>> ELSE <<>>) \o body \o (IF cr.q = 1 THEN <<Ell>> ELSE <<>>)
(* what the operational model produces is accepted by the declarative contract (the documented exception aside) *)
InvErrLine == done => LineVerdict(Rendered(n, TRUE), Ident(n), c, r, TRUE, Rebase(n, c, CropLine(n, WinL(c, r), WinR(c, r)))) = "ok"
InvContext == done => \A k \in {np, nx} :
                 LineVerdict(Rendered(k, FALSE), Ident(k), c, r, FALSE, 0) \in {"ok", "context-line-left-of-window-shown-uncropped"}
(* at most 2r+1 source characters of the error line are shown *)
InvWidth == done => LET cr == CropLine(n, WinL(c, r), WinR(c, r)) IN cr.b - cr.a + 1 <= 2 * r + 1
EmitCase == done => PrintT(<<"CASE", ToJson([n |-> n, np |-> np, nx |-> nx, c |-> c, r |-> r])>>)
=============================================================================
