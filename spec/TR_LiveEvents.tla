--------------------------- MODULE TR_LiveEvents ---------------------------
(***************************************************************************)
(* Action-level trace validation of the event pump (C02, C08, C01).        *)
(*                                                                         *)
(* The real LiveEvents::next_impl is instrumented (cfg serde_saphyr_verif) *)
(* to log one step per action of LiveEvents.tla - pop / serve / scalar /   *)
(* start / end / alias / finish - together with cheap scalar state taken   *)
(* AFTER the step: height of the injection stack, height of the recording  *)
(* stack, replayed-event counter, number of stored anchors, events held in *)
(* open recording frames, and whether the step ended in an error.          *)
(* One record = one document: [raw, steps].  The trace is accepted iff the *)
(* specification can take, for every logged step, the action of that name  *)
(* from its current state and lands in a state with the logged scalars.    *)
(* Unlogged state (buffers, anchors' contents, the output) is inferred by  *)
(* the specification's own actions.  A record that cannot be matched is    *)
(* reported with the index of the first unmatched step; validation then    *)
(* continues with the next record.                                         *)
(***************************************************************************)
EXTENDS LiveEvents, Json, IOUtils
Recs == ndJsonDeserialize(IOEnv.TRACE)
VARIABLES k, l            \* record number, position in its step list
trvars == <<raw, pos, inject, anchors, rec, out, st, replayed, perAnchor, k, l>>
Steps == IF k <= Len(Recs) THEN Recs[k].steps ELSE <<>>
ActionOf(name) ==
  CASE name = "pop"    -> PopExhausted
    [] name = "serve"  -> ServeInjected
    [] name = "scalar" -> PullScalar
    [] name = "start"  -> PullStart
    [] name = "end"    -> PullEnd
    [] name = "alias"  -> PullAlias
    (* the consumer may ask again after the end (trailing-content probe, finish()): that changes nothing *)
    [] name = "finish" -> Finish \/ (st = "done" /\ UNCHANGED levars)
    [] OTHER -> FALSE
ErrOf(s) == IF s \in {"run", "done"} THEN "" ELSE s
(* the logged scalars hold in the successor state *)
Matches(e) ==
  (* at the end of a document the implementation has already cleared its per-document tables when it logs the step *)
  IF e.a = "finish" THEN st' = "done" ELSE
  /\ Len(inject') = e.inject /\ Len(rec') = e.rec /\ replayed' = e.replayed
  /\ Cardinality(DOMAIN anchors') = e.anchors /\ SumLen([i \in 1..Len(rec') |-> rec'[i].buf]) = e.held
  /\ ErrOf(st') = e.err
Consume == /\ l <= Len(Steps)
           /\ ActionOf(Steps[l].a) /\ Matches(Steps[l])
           /\ l' = l + 1 /\ UNCHANGED <<raw, k>>
(* after the last record the validator parks in a terminal state k = Len(Recs) + 1 *)
LoadNext == /\ k <= Len(Recs)
            /\ k' = k + 1 /\ l' = 1 /\ raw' = IF k < Len(Recs) THEN Recs[k + 1].raw ELSE <<>>
            /\ pos' = 1 /\ inject' = <<>> /\ anchors' = <<>> /\ rec' = <<>> /\ out' = <<>>
            /\ st' = "run" /\ replayed' = 0 /\ perAnchor' = <<>>
(* the record is finished: every step consumed and (for a trace that ran to the end) the model is done or failed too *)
Finished == k <= Len(Recs) /\ l > Len(Steps)
Advance == Finished /\ LoadNext
(* the next step cannot be matched: report and move on *)
Reject == /\ k <= Len(Recs) /\ ~Finished /\ ~ENABLED Consume
          /\ PrintT(<<"MISMATCH", Recs[k].id, ToJson([verdict |-> "trace-step-not-allowed-by-LiveEvents", step |-> l, action |-> Steps[l].a,
                                                       logged |-> Steps[l],
                                                       model |-> [inject |-> Len(inject), rec |-> Len(rec), replayed |-> replayed, st |-> st, pos |-> pos]])>>)
          /\ TLCSet(1, TLCGet(1) + 1)
          /\ LoadNext
Init == /\ k = 1 /\ l = 1 /\ raw = Recs[1].raw /\ LEInit /\ TLCSet(1, 0) /\ TLCSet(2, 0)
Next == Consume \/ Advance \/ Reject
Spec == Init /\ [][Next]_trvars
(* every record consumed or rejected: the terminal state k = Len(Recs) + 1 was reached *)
Count == TLCSet(2, IF k > TLCGet(2) THEN k ELSE TLCGet(2))
Accepted == /\ PrintT(<<"TVDONE", TLCGet(2) - 1, Len(Recs), TLCGet(1)>>)
            /\ TLCGet(2) = Len(Recs) + 1 /\ TLCGet(1) = 0
=============================================================================
