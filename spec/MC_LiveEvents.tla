-------------------------- MODULE MC_LiveEvents --------------------------
(***************************************************************************)
(* Exhaustive instance for C02 (and the pump part of C08): a document      *)
(* generator (one action per appended event, so TLC's BFS enumerates all   *)
(* well-formed documents up to MaxEv events) followed by the LiveEvents    *)
(* pump.  Every completed behaviour is one document; it is printed as a    *)
(* CASE line for the conformance harness.                                  *)
(***************************************************************************)
EXTENDS LiveEvents, Bounds, Json
CONSTANTS MaxEv, Names, Scalars, AllowContainerKeys
VARIABLES stk, nmap, nid, idname, phase

ScalarsAB == {<<"1", "p">>, <<"x", "p">>}
ScalarsRich == {<<"1", "p">>, <<"x", "p">>, <<"~", "p">>, <<"", "d">>}
gvars == <<raw, stk, nmap, nid, idname, phase>>
vars == <<raw, stk, nmap, nid, idname, phase, pos, inject, anchors, rec, out, st, replayed, perAnchor>>

Room == MaxEv - Len(raw)
Top == stk[Len(stk)]
CanStartNode == phase = "gen" /\ (IF stk = <<>> THEN raw = <<>> ELSE TRUE)
KeyPos == stk # <<>> /\ Top = "K"

Define(n) == /\ nmap' = IF n = 0 THEN nmap ELSE [nmap EXCEPT ![n] = nid]
             /\ nid' = IF n = 0 THEN nid ELSE nid + 1
             /\ idname' = IF n = 0 THEN idname ELSE Append(idname, n)

GenScalar(sc, n) ==
  /\ CanStartNode /\ Room - 1 >= Need(AfterNode(stk))
  /\ raw' = Append(raw, Ev("S", IF n = 0 THEN 0 ELSE nid, sc[1], sc[2], ""))
  /\ stk' = AfterNode(stk) /\ Define(n) /\ UNCHANGED phase
GenAlias(n) ==
  /\ CanStartNode /\ stk # <<>> /\ nmap[n] # 0 /\ Room - 1 >= Need(AfterNode(stk))
  /\ raw' = Append(raw, Ev("AL", nmap[n], "", "p", ""))
  /\ stk' = AfterNode(stk) /\ UNCHANGED <<nmap, nid, idname, phase>>
GenOpen(kind, n) ==
  /\ CanStartNode /\ (KeyPos => AllowContainerKeys)
  /\ LET s2 == Append(stk, IF kind = "SS" THEN "S" ELSE "K") IN
       /\ Room - 1 >= Need(s2) /\ stk' = s2
  /\ raw' = Append(raw, Ev(kind, IF n = 0 THEN 0 ELSE nid, "", "p", ""))
  /\ Define(n) /\ UNCHANGED phase
GenClose ==
  /\ phase = "gen" /\ stk # <<>> /\ Top \in {"S", "K"}
  /\ raw' = Append(raw, Ev(IF Top = "S" THEN "SE" ELSE "ME", 0, "", "p", ""))
  /\ stk' = AfterNode(PopStk(stk)) /\ UNCHANGED <<nmap, nid, idname, phase>>
GenDone ==
  /\ phase = "gen" /\ raw # <<>> /\ stk = <<>>
  /\ phase' = "run" /\ UNCHANGED <<raw, stk, nmap, nid, idname>>

Gen == /\ \/ \E sc \in Scalars, n \in Names \cup {0} : GenScalar(sc, n)
          \/ \E n \in Names : GenAlias(n)
          \/ \E n \in Names \cup {0} : GenOpen("SS", n) \/ GenOpen("MS", n)
          \/ GenClose \/ GenDone
       /\ UNCHANGED levars

Init == /\ raw = <<>> /\ stk = <<>> /\ nmap = [n \in Names |-> 0] /\ nid = 1 /\ idname = <<>> /\ phase = "gen"
        /\ LEInit
Next == Gen \/ (phase = "run" /\ LENext /\ UNCHANGED <<raw, stk, nmap, nid, idname, phase>>)
Spec == Init /\ [][Next]_vars

Finished == phase = "run" /\ st # "run"
InvTransparent == phase = "run" => Transparent
InvNoSpurious == Finished => NoSpuriousError
InvInjectDepth == InjectDepthLeOne
InvRecOrdered == RecStackOrdered
InvBuffers == BuffersAreNodes
InvReplayBounded == ReplayBounded /\ PerAnchorBounded
(* C08: the pump stops at exactly the alias limit Bounds!FirstTrip names, and only then *)
InvTripAgrees == Finished =>
  LET t == FirstTrip(raw, [total |-> MaxTotalReplayed, per |-> MaxPerAnchor, stack |-> MaxStackDepth]) IN
  /\ (st = "done") = (t = "ok") /\ (st = "err_total") = (t = "total") /\ (st = "err_peranchor") = (t = "per_anchor")
  /\ (st = "err_stack") = (t = "stack") /\ (st = "err_recursive") = (t = "unresolved")
(* what the pump delivered and replayed are the closed forms *)
InvClosedForms == (Finished /\ st = "done") => (replayed = Replayed(raw) /\ Len(SelectSeq(out, LAMBDA e : IsNodeStart(e))) = DeliveredNodes(raw))
(* termination measure: every run step consumes a raw event, a replay event or a stack frame *)
EmitCase == Finished => PrintT(<<"CASE", ToJson([doc |-> raw, names |-> idname, st |-> st])>>)
=============================================================================
