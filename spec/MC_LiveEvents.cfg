SPECIFICATION Spec
CONSTANTS
  MaxEv = 7
  Names = {1, 2}
  Scalars <- ScalarsAB
  AllowContainerKeys = FALSE
  MaxTotalReplayed = 1000000
  MaxStackDepth = 64
  MaxPerAnchor = 1000000
  NormalizeAnchoredEmptyQuoted = TRUE
INVARIANTS
  InvTransparent
  InvNoSpurious
  InvInjectDepth
  InvRecOrdered
  InvBuffers
  InvReplayBounded
  EmitCase
CHECK_DEADLOCK FALSE
