----------------------------- MODULE MC_Tokens -----------------------------
(* C01 input family 1: every string of up to MaxLen tokens over the YAML indicator alphabet (symbolic names; the harness *)
(* maps them to bytes).  The alphabet and the bound live here.                                                          *)
EXTENDS Naturals, Sequences, TLC, Json
CONSTANTS MaxLen
VARIABLE ts
Tokens == {"dash", "colon", "qmark", "lbr", "rbr", "lbc", "rbc", "comma", "anchor", "alias", "tag", "strtag", "pipe", "gt",
           "dq", "sq", "hash", "pct", "docstart", "docend", "merge", "tilde", "tab", "cr", "lf", "sp", "bom", "two", "ff", "word",
           "num", "bang", "star", "amp", "bslash", "nulltag", "bintag", "inttag"}
Init == ts = <<>>
Next == Len(ts) < MaxLen /\ \E t \in Tokens : ts' = Append(ts, t)
Spec == Init /\ [][Next]_ts
EmitCase == PrintT(<<"CASE", ToJson([ts |-> ts])>>)
=============================================================================
