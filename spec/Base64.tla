------------------------------ MODULE Base64 ------------------------------
(***************************************************************************)
(* C06, `!!binary` payloads: strict canonical base64.  A text decodes iff, *)
(* after removing ASCII whitespace, its length is a multiple of 4, every   *)
(* character is in the alphabet, padding `=` occurs only as the last one   *)
(* or two characters of the last quantum, and the unused trailing bits of  *)
(* a padded quantum are zero.  The result is the byte sequence.            *)
(***************************************************************************)
EXTENDS Naturals, Sequences, TLC
Ch(s, i) == SubSeq(s, i, i)
Alphabet == "ABCDEFGHIJKLMNOPQRSTUVWXYZabcdefghijklmnopqrstuvwxyz0123456789+/"
Sextet(c) == IF \E v \in 1..64 : Ch(Alphabet, v) = c THEN (CHOOSE v \in 1..64 : Ch(Alphabet, v) = c) - 1 ELSE 64   \* 64 = invalid
RECURSIVE Clean(_)
Clean(s) == IF Len(s) = 0 THEN s
            ELSE IF Ch(s, 1) \in {" ", "\t", "\n", "\r"} THEN Clean(SubSeq(s, 2, Len(s))) ELSE Ch(s, 1) \o Clean(SubSeq(s, 2, Len(s)))
ERRB == <<0 - 1>>
(* one quantum of 4 characters; last = it is the final quantum *)
Quantum(q, last) ==
  LET a == Sextet(Ch(q, 1))  b == Sextet(Ch(q, 2))
      p3 == Ch(q, 3) = "="  p4 == Ch(q, 4) = "="
      c == IF p3 THEN 0 ELSE Sextet(Ch(q, 3))
      d == IF p4 THEN 0 ELSE Sextet(Ch(q, 4)) IN
  IF a = 64 \/ b = 64 \/ c = 64 \/ d = 64 THEN ERRB
  ELSE IF (p3 \/ p4) /\ ~last THEN ERRB
  ELSE IF p3 /\ ~p4 THEN ERRB
  ELSE IF p3 THEN (IF b % 16 # 0 THEN ERRB ELSE <<a * 4 + b \div 16>>)
  ELSE IF p4 THEN (IF c % 4 # 0 THEN ERRB ELSE <<a * 4 + b \div 16, (b % 16) * 16 + c \div 4>>)
  ELSE <<a * 4 + b \div 16, (b % 16) * 16 + c \div 4, (c % 4) * 64 + d>>
RECURSIVE DecodeClean(_)
DecodeClean(s) == IF Len(s) = 0 THEN <<>>
                  ELSE LET h == Quantum(SubSeq(s, 1, 4), Len(s) = 4) IN
                       IF h = ERRB THEN ERRB
                       ELSE LET t == DecodeClean(SubSeq(s, 5, Len(s))) IN IF t = ERRB THEN ERRB ELSE h \o t
Decode(s) == LET c == Clean(s) IN IF Len(c) % 4 # 0 THEN ERRB ELSE DecodeClean(c)
=============================================================================
