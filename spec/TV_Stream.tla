---------------------------- MODULE TV_Stream ----------------------------
(***************************************************************************)
(* Trace validator for C11.  Record = one text run through every entry     *)
(* point: [id, kinds, batch, iter, single] where                           *)
(*   batch  = <<"ok", v1, v2, ..>> | <<"err">>   (from_multiple)           *)
(*   iter   = items of read(): value kind | "type" | "syntax"              *)
(*   biter  = items of the iterators given a budget the "BF"/"BI" kinds    *)
(*            exceed: value kind | "type" | "syntax" | "budget"            *)
(*   titer  = items of the iterators reading pairs of integers             *)
(*   single = value kind | "null" | "err"        (from_str / from_reader)  *)
(* Each field may be a list of observations (one per entry point variant): *)
(* all of them must equal the specification's answer.                      *)
(***************************************************************************)
EXTENDS Stream, Json, IOUtils
Recs == ndJsonDeserialize(IOEnv.TRACE)
VARIABLE l
Check(r) ==
  IF \E j \in 1..Len(r.batch) : r.batch[j] # Batch(r.kinds) THEN "batch"
  ELSE IF \E j \in 1..Len(r.iter) : ~IterAdmissible(r.iter[j], r.kinds) THEN "iter"
  ELSE IF \E j \in 1..Len(r.biter) : ~IterAdmissibleB(r.biter[j], r.kinds) THEN "iter-with-budget"
  ELSE IF \E j \in 1..Len(r.titer) : ~IterAdmissible(r.titer[j], TupleView(r.kinds)) THEN "iter-of-pairs"
  ELSE IF \E j \in 1..Len(r.single) : r.single[j] # Single(r.kinds) THEN "single"
  ELSE "ok"
Init == l = 1 /\ TLCSet(1, 0)
Next == /\ l <= Len(Recs)
        /\ LET r == Recs[l]  c == Check(r) IN
             IF c = "ok" THEN TRUE
             ELSE /\ PrintT(<<"MISMATCH", r.id, ToJson([verdict |-> c, kinds |-> r.kinds, batch |-> r.batch, iter |-> r.iter, biter |-> r.biter, titer |-> r.titer, single |-> r.single,
                                                        req_batch |-> Batch(r.kinds), req_iter |-> Iter(r.kinds), req_single |-> Single(r.kinds)])>>)
                  /\ TLCSet(1, TLCGet(1) + 1)
        /\ l' = l + 1
Spec == Init /\ [][Next]_l
Accepted == /\ PrintT(<<"TVDONE", TLCGet("stats").diameter - 1, Len(Recs), TLCGet(1)>>)
            /\ TLCGet("stats").diameter - 1 = Len(Recs)
            /\ TLCGet(1) = 0
=============================================================================
