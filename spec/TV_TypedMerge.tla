--------------------------- MODULE TV_TypedMerge ---------------------------
(***************************************************************************)
(* C03 for TYPED targets.  A record is one document read twice into the    *)
(* same target type (schemas of TypedCursor):                              *)
(*   praw / plain  : a mapping at a struct / map position written out in   *)
(*                   full, and what from_str returned                      *)
(*   mraw / merged : the same mapping with some of its entries supplied    *)
(*                   through `<<` - one source mapping or a sequence of    *)
(*                   two, written in place ("inline") or defined in front  *)
(*                   of the document and referred to by aliases ("wrap",   *)
(*                   read as (ignored, T)); now and then a source also     *)
(*                   carries a key the mapping has itself (it must lose)   *)
(* The validator first checks with MapAccess!Conf that the tree of praw    *)
(* (computed here, YamlModel!TreeAt) is what the merged document must      *)
(* deliver - own entries in order, then the merged ones - so the harness   *)
(* cannot compare unrelated texts; then it requires what C03 states: the   *)
(* merged read gives exactly the value of the full mapping and fails       *)
(* exactly when that fails.  Typed results are compared with map entries   *)
(* sorted by key (delivery order of merged keys is not prescribed).        *)
(***************************************************************************)
EXTENDS MapAccess, Json, IOUtils
Recs == ndJsonDeserialize(IOEnv.TRACE)
VARIABLE l
Doc(r) == LET x == ExpandAll(r.mraw) IN
          IF HasErr(x) THEN <<>>
          ELSE IF r.form = "inline" THEN StripAnchors(x)
          ELSE StripAnchors(SubSeq(x, E(x, 2) + 1, Len(x) - 1))
Related(r) == LET x == Doc(r) IN
              /\ x # <<>> /\ ~Faulty(x, 1, "Error") /\ ~Ambiguous(x, 1, "Error")
              /\ Conf(TreeAt(r.praw, 1), x, 1, "Error")
IsErr(n) == n.c = "ERR"
Check(r) ==
  IF ~Related(r) THEN "harness-texts-are-not-related-by-MapAccess-Conf"
  ELSE IF IsErr(r.plain) # IsErr(r.merged) THEN (IF IsErr(r.merged) THEN "merge-rejected-where-the-full-mapping-is-accepted" ELSE "merge-accepted-where-the-full-mapping-is-rejected")
  ELSE IF ~IsErr(r.plain) /\ r.plain # r.merged THEN "merged-value-differs-from-the-full-mapping"
  ELSE "ok"
Init == l = 1 /\ TLCSet(1, 0)
Next == /\ l <= Len(Recs)
        /\ LET r == Recs[l]  c == Check(r) IN
             IF c = "ok" THEN TRUE
             ELSE /\ PrintT(<<"MISMATCH", r.id, ToJson([verdict |-> c, form |-> r.form, shadow |-> r.shadow, schema |-> r.schema, yaml |-> r.yaml,
                                                         plain_yaml |-> r.plain_yaml, plain |-> r.plain, merged |-> r.merged])>>)
                  /\ TLCSet(1, TLCGet(1) + 1)
        /\ l' = l + 1
Spec == Init /\ [][Next]_l
Accepted == /\ PrintT(<<"TVDONE", TLCGet("stats").diameter - 1, Len(Recs), TLCGet(1)>>)
            /\ TLCGet("stats").diameter - 1 = Len(Recs) /\ TLCGet(1) = 0
=============================================================================
