-------------------------- MODULE TV_AnchorStore --------------------------
(***************************************************************************)
(* Trace validator for C14 (and the call histories of C15).                *)
(* kind "graph": [fields, after, err]: `fields` as in AnchorStore, `after` *)
(*   = class of every field after the real round trip (0 null/dangling,    *)
(*   k > 0 the k-th distinct allocation, <<-1>> an error).  Records of the *)
(*   payload family (the anchored node is a scalar, a block scalar, a      *)
(*   sequence, a map, an empty collection, an enum variant ... in several  *)
(*   parent positions and under several option sets) also carry payload_ok *)
(*   and toks = <<anchored nodes, alias nodes>> counted in the text.       *)
(* kind "chain": recursive wrappers; fields = for each node of a parent    *)
(*   chain the index of the ancestor its weak back edge points to (-1      *)
(*   none), after = the same read from the rebuilt structure.              *)
(* kind "history": [results, fresh, snaps]: every call of a history run on *)
(*   one thread, its result fingerprint, the same call's fingerprint on a  *)
(*   fresh thread, the thread-local snapshot after each top-level call,    *)
(*   and for each nested call the state its caller saw before and after it *)
(***************************************************************************)
EXTENDS AnchorStore, Json, IOUtils
Recs == ndJsonDeserialize(IOEnv.TRACE)
VARIABLE l
Check(r) ==
  CASE r.kind = "graph" ->
         IF WeakBeforeStrong(r.fields) THEN "ok"                   \* outside the documented domain (strong before weak)
         ELSE IF r.after = <<0 - 1>> THEN "round-trip-failed"
         ELSE IF ~SameSharing(r.fields, r.after) THEN "sharing-changed"
         \* payload family: the rebuilt allocations carry the payloads written, and the text defines each shared node
         \* once and refers to it everywhere else (counted on the parser's own event stream)
         ELSE IF "payload_ok" \in DOMAIN r /\ ~r.payload_ok THEN "payload-changed"
         ELSE IF "toks" \in DOMAIN r /\ r.toks # <<DefCount(r.fields), AliasCount(r.fields)>> THEN "not-emitted-once"
         ELSE "ok"
    [] r.kind = "chain" -> IF r.after = r.fields THEN "ok" ELSE "back-edge-changed"
    [] r.kind = "history" ->
         IF \E i \in 1..Len(r.results) : r.results[i] # r.fresh[i] THEN "depends-on-history"
         ELSE IF \E i \in 1..Len(r.snaps) : r.snaps[i] # <<0, 0, 0, 0>> THEN "state-leaked"
         ELSE IF \E i \in 1..Len(r.inner) : r.inner[i] # r.inner_fresh THEN "nested-call-depends-on-caller"
         ELSE IF \E i \in 1..Len(r.nested) : SubSeq(r.nested[i], 1, 3) # SubSeq(r.nested[i], 4, 6) THEN "nested-call-not-transparent"
         ELSE "ok"
    [] OTHER -> "ok"
Init == l = 1 /\ TLCSet(1, 0)
Next == /\ l <= Len(Recs)
        /\ LET r == Recs[l]  c == Check(r) IN
             IF c = "ok" THEN TRUE
             ELSE /\ PrintT(<<"MISMATCH", r.id, ToJson([verdict |-> c, rec |-> r])>>)
                  /\ TLCSet(1, TLCGet(1) + 1)
        /\ l' = l + 1
Spec == Init /\ [][Next]_l
Accepted == /\ PrintT(<<"TVDONE", TLCGet("stats").diameter - 1, Len(Recs), TLCGet(1)>>)
            /\ TLCGet("stats").diameter - 1 = Len(Recs) /\ TLCGet(1) = 0
=============================================================================
