---------------------------- MODULE AnchorStore ----------------------------
(***************************************************************************)
(* C14 (sharing) and C15 (call independence).                              *)
(*                                                                         *)
(* Sharing part.  A graph is a list of FIELDS over allocations 1..N:       *)
(*   [k |-> "S", n]  strong reference (RcAnchor / ArcAnchor) to n          *)
(*   [k |-> "W", n]  weak reference to the live allocation n               *)
(*   [k |-> "WD", n] weak reference whose target is gone (dangling)        *)
(* Serializer (ptr -> id table): first sight of an allocation defines an   *)
(* anchor, later sights are aliases, a dangling weak is null.              *)
(* Deserializer (id -> allocation store): a strong field at a definition   *)
(* creates the allocation, at an alias shares it; a weak field at an alias *)
(* points to it, null is a dangling weak; a weak field at a DEFINITION has *)
(* no strong owner yet and is an error (documented: strong before weak).   *)
(* Property: two fields point to one allocation afterwards iff they did    *)
(* before; dangling stays dangling.                                        *)
(***************************************************************************)
EXTENDS Naturals, Sequences, FiniteSets, TLC

(* token stream of the serializer *)
RECURSIVE SerFrom(_, _, _, _)
SerFrom(fs, i, tbl, next) ==        \* tbl: sequence of <<alloc, id>> pairs
  IF i > Len(fs) THEN <<>> ELSE
  LET f == fs[i]
      known == {j \in 1..Len(tbl) : tbl[j][1] = f.n} IN
  IF f.k = "WD" THEN <<[op |-> "NULL", id |-> 0]>> \o SerFrom(fs, i + 1, tbl, next)
  ELSE IF known # {} THEN <<[op |-> "ALIAS", id |-> tbl[CHOOSE j \in known : TRUE][2]]>> \o SerFrom(fs, i + 1, tbl, next)
  ELSE <<[op |-> "DEF", id |-> next]>> \o SerFrom(fs, i + 1, Append(tbl, <<f.n, next>>), next + 1)
Ser(fs) == SerFrom(fs, 1, <<>>, 1)

(* result of reading the token stream back into fields of the same kinds:  *)
(* a sequence of new-allocation ids (0 = null / dangling), or <<-1>> = error *)
RECURSIVE DeFrom(_, _, _, _)
DeFrom(fs, toks, i, store) ==       \* store: sequence indexed by anchor id -> new allocation id
  IF i > Len(fs) THEN <<>> ELSE
  LET f == fs[i]  t == toks[i] IN
  IF t.op = "NULL" THEN (IF f.k = "S" THEN <<0 - 1>> ELSE <<0>> \o DeFrom(fs, toks, i + 1, store))
  ELSE IF t.op = "DEF" THEN (IF f.k # "S" THEN <<0 - 1>>            \* weak before its strong owner
                             ELSE <<t.id>> \o DeFrom(fs, toks, i + 1, store \cup {t.id}))
  ELSE (IF t.id \in store THEN <<t.id>> \o DeFrom(fs, toks, i + 1, store) ELSE <<0 - 1>>)
De(fs) == LET r == DeFrom(fs, Ser(fs), 1, {}) IN IF \E j \in 1..Len(r) : r[j] = 0 - 1 THEN <<0 - 1>> ELSE r

(* "emits each shared node once and references to it elsewhere": how many definitions and aliases the text must hold *)
DefCount(fs) == Cardinality({j \in 1..Len(Ser(fs)) : Ser(fs)[j].op = "DEF"})
AliasCount(fs) == Cardinality({j \in 1..Len(Ser(fs)) : Ser(fs)[j].op = "ALIAS"})
WeakBeforeStrong(fs) == \E i \in 1..Len(fs) : fs[i].k = "W" /\ ~\E j \in 1..(i - 1) : fs[j].k = "S" /\ fs[j].n = fs[i].n
(* declarative requirement on the classes observed after the round trip (0 = null) *)
SameSharing(fs, after) ==
  /\ Len(after) = Len(fs)
  /\ \A i \in 1..Len(fs) : (fs[i].k = "WD") = (after[i] = 0)
  /\ \A i, j \in 1..Len(fs) : (fs[i].k # "WD" /\ fs[j].k # "WD") => ((after[i] = after[j]) = (fs[i].n = fs[j].n))

(***************************************************************************)
(* Call-independence part (C15).  The thread-local state                   *)
(*   TL = [stack, store, inprog]                                           *)
(* a call = ScopeEnter .. (PushCtx | Store | PopCtx)* .. ScopeExit, calls  *)
(* may nest (a user Deserialize impl calling from_str), and may end by an  *)
(* error or a panic at any point (guards unwind).  CONSTANT ScopeSaves:    *)
(* TRUE = with_document_scope saves the caller's state and restores it;    *)
(* FALSE = it clears the state at entry and exit (the pinned tree).        *)
(***************************************************************************)
CleanTL == [stack |-> <<>>, store |-> {}, inprog |-> {}]
=============================================================================
