-------------------------- MODULE TV_MapAccess --------------------------
(***************************************************************************)
(* Trace validator for C03/C04.  A record is one call of the real crate:   *)
(*   [id, raw, policy, target, obs]                                        *)
(* raw: parser events of the text (anchors/aliases allowed), obs: uniform  *)
(* tree of what from_str_with_options returned (ERR + class on error).     *)
(* The document is first expanded (YamlModel!ExpandAll); the observed      *)
(* value must then conform to MapAccess!Conf, or be an error exactly when  *)
(* MapAccess!Faulty, unless the outcome is not prescribed (Ambiguous).     *)
(* target "pairs": order-preserving pair list (sees every MapAccess yield) *)
(* target "map":   overwriting map keyed by fingerprint (BTreeMap-like):   *)
(*                 observed entries as a set must equal the folded yields. *)
(* target "ignored" / "unknown": the document read into IgnoredAny / into  *)
(*                 a struct that knows none of the keys: every value is    *)
(*                 discarded, yet the document must be rejected exactly    *)
(*                 when MapAccess!Faulty (a repeated key under the Error   *)
(*                 policy or an unmergeable `<<` value in a delivered      *)
(*                 part), with an admissible error class and position.     *)
(***************************************************************************)
EXTENDS MapAccess, Json, IOUtils
Recs == ndJsonDeserialize(IOEnv.TRACE)
VARIABLE l

KindOf(cls) == IF cls = "DuplicateKey" THEN "dup" ELSE IF cls = "MergeValue" THEN "merge" ELSE "other"
(* r.obs.s = error class; r.eloc = positions <<line, col>> reported (primary, use site, definition site); r.pos[i] = <<line, col>> where raw   *)
(* event i starts (only supplied for alias-free texts, where raw indices = expansion indices)   *)
ErrorAdmissible(r, x, p) ==
  LET fs == Faults(x, 1, p, TRUE)  kd == KindOf(r.obs.s) IN
  /\ \E f \in fs : f.kind = kd
  /\ (kd = "dup" /\ r.pos # <<>>) => \E f \in fs : f.kind = "dup" /\ (~f.live \/ \E q \in 1..Len(r.eloc) : r.pos[f.at] = r.eloc[q])
Check(r) ==
  LET x == ExpandAll(r.raw)  p == r.policy IN
  IF HasErr(x) THEN "skip"
  ELSE IF Ambiguous(x, 1, p) THEN "unconstrained"
  ELSE IF Faulty(x, 1, p) THEN (IF r.obs.c # "ERR" THEN "accepted-faulty"
                                ELSE IF ErrorAdmissible(r, x, p) THEN "ok" ELSE "wrong-error")
  ELSE IF r.obs.c = "ERR" THEN "spurious-error"
  ELSE IF r.target \in {"ignored", "unknown"} THEN "ok"      \* a discarding target: only acceptance / rejection is observable
  ELSE IF Conf(r.obs, x, 1, p) THEN "ok" ELSE "wrong-value"

Init == l = 1 /\ TLCSet(1, 0) /\ TLCSet(2, 0)
Next == /\ l <= Len(Recs)
        /\ LET r == Recs[l]  c == Check(r) IN
             /\ IF c \in {"ok", "skip", "unconstrained"} THEN TRUE
                ELSE /\ PrintT(<<"MISMATCH", r.id, ToJson([verdict |-> c, policy |-> r.policy, observed |-> r.obs, eloc |-> r.eloc])>>)
                     /\ TLCSet(1, TLCGet(1) + 1)
             /\ IF c = "ok" THEN TLCSet(2, TLCGet(2) + 1) ELSE TRUE
        /\ l' = l + 1
Spec == Init /\ [][Next]_l
Accepted == /\ PrintT(<<"TVDONE", TLCGet("stats").diameter - 1, Len(Recs), TLCGet(1)>>)
            /\ PrintT(<<"TVDECIDED", TLCGet(2)>>)
            /\ TLCGet("stats").diameter - 1 = Len(Recs)
            /\ TLCGet(1) = 0
=============================================================================
