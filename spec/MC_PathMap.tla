---------------------------- MODULE MC_PathMap ----------------------------
(***************************************************************************)
(* Every document of the validated family up to MaxItems items, built as   *)
(* raw events from per-field choices of FORM (direct / alias of the base   *)
(* mapping / merge of it / merge with one field overridden / name given by *)
(* an aliased scalar) and VALUE (good / bad).  The invariant compares the  *)
(* recorder-based Issues(raw) with the issues read off the choices.        *)
(***************************************************************************)
EXTENDS PathMap, Json
CONSTANTS MaxItems
VARIABLES doc, done
vars == <<doc, done>>
Sc(v) == [k |-> "S", a |-> 0, v |-> v, q |-> "p", t |-> ""]
ScA(v, a) == [k |-> "S", a |-> a, v |-> v, q |-> "p", t |-> ""]
Ev2(k, a) == [k |-> k, a |-> a, v |-> "", q |-> "p", t |-> ""]
NameV(g) == IF g THEN "ok" ELSE "x"
CountV(g) == IF g THEN "5" ELSE "20"
TagV(g) == IF g THEN "tg" ELSE ""
Forms == {"direct", "alias", "merge", "mergeName", "mergeCount", "nameAlias"}
Choice == [f : Forms, n : BOOLEAN, c : BOOLEAN]
(* events of one Inner *)
InnerEv(x) ==
  CASE x.f = "direct"     -> <<Ev2("MS", 0), Sc("name"), Sc(NameV(x.n)), Sc("maxCount"), Sc(CountV(x.c)), Ev2("ME", 0)>>
    [] x.f = "alias"      -> <<Ev2("AL", 1)>>
    [] x.f = "merge"      -> <<Ev2("MS", 0), Sc("<<"), Ev2("AL", 1), Ev2("ME", 0)>>
    [] x.f = "mergeName"  -> <<Ev2("MS", 0), Sc("<<"), Ev2("AL", 1), Sc("name"), Sc(NameV(x.n)), Ev2("ME", 0)>>
    [] x.f = "mergeCount" -> <<Ev2("MS", 0), Sc("maxCount"), Sc(CountV(x.c)), Sc("<<"), Ev2("AL", 1), Ev2("ME", 0)>>
    [] x.f = "nameAlias"  -> <<Ev2("MS", 0), Sc("name"), Ev2("AL", 2), Sc("maxCount"), Sc(CountV(x.c)), Ev2("ME", 0)>>
RECURSIVE Cat(_)
Cat(ss) == IF ss = <<>> THEN <<>> ELSE ss[1] \o Cat(Tail(ss))
Raw(d) ==
  <<Ev2("MS", 0), Sc("base"), Ev2("MS", 1), Sc("name"), Sc(NameV(d.bn)), Sc("maxCount"), Sc(CountV(d.bc)), Ev2("ME", 0),
    Sc("nm"), ScA(NameV(d.sn), 2), Sc("first")>> \o InnerEv(d.first) \o <<Sc("subItem")>> \o InnerEv(d.sub)
  \o <<Sc("items"), Ev2("SS", 0)>> \o Cat([j \in 1..Len(d.items) |-> InnerEv(d.items[j])]) \o <<Ev2("SE", 0), Sc("tag"), Sc(TagV(d.tag)), Ev2("ME", 0)>>
(* issues read off the choices: effective goodness of the two fields per form *)
NameGood(d, x) == CASE x.f \in {"alias", "merge", "mergeCount"} -> d.bn [] x.f = "nameAlias" -> d.sn [] OTHER -> x.n
CountGood(d, x) == CASE x.f \in {"alias", "merge", "mergeName"} -> d.bc [] OTHER -> x.c
ThroughName(x) == x.f \in {"alias", "merge", "mergeCount", "nameAlias"}
ThroughCount(x) == x.f \in {"alias", "merge", "mergeName"}
PathsOf(d, x, prefix) == (IF NameGood(d, x) THEN {} ELSE {[path |-> prefix \o ".name", thru |-> ThroughName(x)]})
                         \cup (IF CountGood(d, x) THEN {} ELSE {[path |-> prefix \o ".maxCount", thru |-> ThroughCount(x)]})
ExpectedByChoice(d) ==
  PathsOf(d, d.first, "first") \cup PathsOf(d, d.sub, "sub_item")
  \cup UNION {PathsOf(d, d.items[j], "items[" \o IdxName(j - 1) \o "]") : j \in 1..Len(d.items)}
  \cup (IF d.tag THEN {} ELSE {[path |-> "tag", thru |-> FALSE]})
Init == doc = [bn |-> TRUE, bc |-> TRUE, sn |-> TRUE, first |-> [f |-> "direct", n |-> TRUE, c |-> TRUE],
               sub |-> [f |-> "direct", n |-> TRUE, c |-> TRUE], items |-> <<>>, tag |-> TRUE] /\ done = FALSE
Items == UNION {[1..k -> Choice] : k \in 0..MaxItems}
(* forms that ignore a value are generated with that value fixed, to avoid duplicates *)
Canon(x) == /\ (x.f \in {"alias", "merge", "mergeCount", "nameAlias"} => x.n)
            /\ (x.f \in {"alias", "merge", "mergeName"} => x.c)
Next == /\ ~done /\ done' = TRUE
        /\ \E bn, bc, sn, tg \in BOOLEAN, f1, f2 \in {x \in Choice : Canon(x)}, its \in {s \in Items : \A j \in 1..Len(s) : Canon(s[j])} :
             doc' = [bn |-> bn, bc |-> bc, sn |-> sn, first |-> f1, sub |-> f2, items |-> its, tag |-> tg]
Spec == Init /\ [][Next]_vars
InvIssues == done => {[path |-> i.path, thru |-> i.u # i.d] : i \in Issues(Raw(doc))} = ExpectedByChoice(doc)
InvNoClash == done => ~Clash(Raw(doc), 1)
EmitCase == done => PrintT(<<"CASE", ToJson([raw |-> Raw(doc)])>>)
=============================================================================
