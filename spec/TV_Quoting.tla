---------------------------- MODULE TV_Quoting ----------------------------
(***************************************************************************)
(* Trace validator for C12.  Records:                                      *)
(*  kind "str":   [s, pos, opt, y12, text, back, plain]  a string written  *)
(*                at a position under an option set and read back into the *)
(*                same type; s/back are sequences of symbolic characters   *)
(*                (back = <<"ERR", class>> on failure)                     *)
(*  kind "int":   [val, backval] any other scalar type, textual projection *)
(*  kind "fshape":[s] the shape of an emitted float text (digit runs as D, *)
(*                signs as S): must be in YAML's float grammar             *)
(* The model's plain decision (Quoting!EmittedPlain) is compared with the  *)
(* recorded one for strings inside the model alphabet: a difference is     *)
(* binding drift (printed as DRIFT), not a violation.                      *)
(***************************************************************************)
EXTENDS Quoting, Json, IOUtils
Recs == ndJsonDeserialize(IOEnv.TRACE)
VARIABLE l
ModelSigma == {"a", "n", "1", "~", "-", ".", ":", "#", "SP", "<", "BOM", ",", "LF", "'", "?", "TAB"}
InModel(s) == \A i \in 1..Len(s) : s[i] \in ModelSigma
(* YAML float grammar on shapes: [S] ( D . D | D . | . D ) [ e S D ]  |  [S] . inf  |  . nan *)
FloatShapeOk(s) ==
  LET body == IF s # <<>> /\ s[1] = "S" THEN Tail(s) ELSE s
      Mant(m) == m \in {<<"D", ".", "D">>, <<"D", ".">>, <<".", "D">>}
  IN \/ body \in {<<".", "i", "n", "f">>, <<".", "n", "a", "n">>}
     \/ Mant(body)
     \/ \E k \in 1..Len(body) : body[k] = "e" /\ Mant(SubSeq(body, 1, k - 1)) /\ SubSeq(body, k + 1, Len(body)) = <<"S", "D">>
Check(r) ==
  CASE r.kind = "str" -> IF r.back = r.s THEN "ok" ELSE "string-changed"
    [] r.kind = "int" -> IF r.backval = r.val THEN "ok" ELSE "value-changed"
    [] r.kind = "fshape" -> IF FloatShapeOk(r.s) THEN "ok" ELSE "float-grammar"
    [] OTHER -> "ok"
Drift(r) == r.kind = "str" /\ r.opt \in {"default", "yaml_12"} /\ r.s # <<>> /\ InModel(r.s) /\ Len(r.s) <= 6
            /\ ~Has(r.s, "LF") /\ EmittedPlain(r.s, r.pos, r.y12) # r.plain
Init == l = 1 /\ TLCSet(1, 0) /\ TLCSet(2, 0)
Next == /\ l <= Len(Recs)
        /\ LET r == Recs[l]  c == Check(r) IN
             /\ IF c = "ok" THEN TRUE
                ELSE /\ PrintT(<<"MISMATCH", r.id, ToJson([verdict |-> c, s |-> r.s, pos |-> r.pos, opt |-> r.opt, text |-> r.text, back |-> r.back,
                                                           val |-> r.val, backval |-> r.backval])>>)
                     /\ TLCSet(1, TLCGet(1) + 1)
             /\ IF Drift(r) THEN PrintT(<<"DRIFT", r.id, r.plain>>) /\ TLCSet(2, TLCGet(2) + 1) ELSE TRUE
        /\ l' = l + 1
Spec == Init /\ [][Next]_l
Accepted == /\ PrintT(<<"TVDONE", TLCGet("stats").diameter - 1, Len(Recs), TLCGet(1)>>)
            /\ PrintT(<<"TVDRIFT", TLCGet(2)>>)
            /\ TLCGet("stats").diameter - 1 = Len(Recs) /\ TLCGet(1) = 0
=============================================================================
