---------------------------- MODULE MC_Base64 ----------------------------
(* every string up to MaxLen over a small adversarial alphabet; laws: a decodable text has a unique canonical *)
(* re-encoding length, whitespace is irrelevant; one CASE per string                                         *)
EXTENDS Base64, Json
CONSTANTS MaxLen
VARIABLE s
Sigma == {"A", "B", "Q", "/", "+", "=", " ", "-", "g", "w"}
Init == s = ""
Next == Len(s) < MaxLen /\ \E c \in Sigma : s' = s \o c
Spec == Init /\ [][Next]_s
InvWhitespaceIrrelevant == Decode(s) = Decode(" " \o s \o "\n")
InvLength == Decode(s) # ERRB => (Len(Clean(s)) % 4 = 0 /\ Len(Decode(s)) <= 3 * (Len(Clean(s)) \div 4))
InvBytes == Decode(s) # ERRB => \A i \in 1..Len(Decode(s)) : Decode(s)[i] \in 0..255
EmitCase == PrintT(<<"CASE", ToJson([s |-> s])>>)
=============================================================================
