----------------------------- MODULE Robotics -----------------------------
(***************************************************************************)
(* C19: the robotics float language as a token-level recursive-descent     *)
(* acceptor that yields, instead of a number, a canonical EVALUATION PLAN  *)
(* (postfix), so that precedence, associativity, unit tracking, the depth  *)
(* limit and every error case are decided here; IEEE arithmetic itself is  *)
(* not expressible in TLA+ and is folded over the plan by the harness.     *)
(*                                                                         *)
(* Tokens: [t, s] with t in                                                *)
(*   "num" (s = literal text, may carry underscores; also .inf / .nan),    *)
(*   "sex" (s = sexagesimal text d:m[:s[.f]]), "id" (lower-case word),     *)
(*   "op" (s in + - * /), "lp", "rp".                                      *)
(* Plan items: [op, s]:  num / const / sex(s, mode) / neg / add sub mul    *)
(* div / deg2rad.                                                          *)
(* Tags: "" | "deg" | "rad" | "time".                                      *)
(***************************************************************************)
EXTENDS Naturals, Integers, Sequences, FiniteSets, TLC
CONSTANT MaxDepth               \* 256 in src/robotics.rs

Digits == {"0", "1", "2", "3", "4", "5", "6", "7", "8", "9"}
Ch(s, i) == SubSeq(s, i, i)
IsDigitAt(s, i) == i >= 1 /\ i <= Len(s) /\ Ch(s, i) \in Digits

(* ---------------- number literals ---------------- *)
(* a run of digits with underscores strictly between digits, from position i; returns the index after the run *)
RECURSIVE RunEnd(_, _)
RunEnd(s, i) == IF i <= Len(s) /\ (Ch(s, i) \in Digits \/ Ch(s, i) = "_") THEN RunEnd(s, i + 1) ELSE i
RunOk(s, a, b) == \A i \in a..(b - 1) : Ch(s, i) = "_" => (i > a /\ IsDigitAt(s, i - 1) /\ i + 1 < b /\ IsDigitAt(s, i + 1))
HasDigit(s, a, b) == \E i \in a..(b - 1) : Ch(s, i) \in Digits
(* int run, optional `.` frac run, optional exponent; at least one digit before the exponent part is not  *)
(* required by the scanner but `.` alone is not a float                                                   *)
NumOk(s) ==
  IF s \in {".inf", ".nan"} THEN TRUE ELSE
  LET i1 == RunEnd(s, 1)
      hasDot == i1 <= Len(s) /\ Ch(s, i1) = "."
      i2 == IF hasDot THEN RunEnd(s, i1 + 1) ELSE i1
      hasE == i2 <= Len(s) /\ Ch(s, i2) \in {"e", "E"}
      i3 == IF hasE /\ i2 + 1 <= Len(s) /\ Ch(s, i2 + 1) \in {"+", "-"} THEN i2 + 2 ELSE i2 + 1
      i4 == IF hasE THEN RunEnd(s, i3) ELSE i2 IN
  /\ i4 = Len(s) + 1
  /\ RunOk(s, 1, i1) /\ (hasDot => RunOk(s, i1 + 1, i2)) /\ (hasE => RunOk(s, i3, i4) /\ HasDigit(s, i3, i4))
  /\ (HasDigit(s, 1, i1) \/ (hasDot /\ HasDigit(s, i1 + 1, i2)))
(* d:m[:s[.f]] with minutes and seconds <= 59 (two digits at most are generated) *)
RECURSIVE SplitColon(_, _, _)
SplitColon(s, i, cur) == IF i > Len(s) THEN <<cur>>
                         ELSE IF Ch(s, i) = ":" THEN <<cur>> \o SplitColon(s, i + 1, "")
                         ELSE SplitColon(s, i + 1, cur \o Ch(s, i))
UIntOk(f) == Len(f) > 0 /\ RunEnd(f, 1) = Len(f) + 1 /\ RunOk(f, 1, Len(f) + 1) /\ HasDigit(f, 1, Len(f) + 1)
Below60(f) == LET ds == SelectSeq([i \in 1..Len(f) |-> Ch(f, i)], LAMBDA c : c \in Digits) IN
              \/ Len(ds) = 1
              \/ (Len(ds) = 2 /\ ds[1] \in {"0", "1", "2", "3", "4", "5"})
              \/ (Len(ds) > 2 /\ \A k \in 1..(Len(ds) - 2) : ds[k] = "0" /\ ds[Len(ds) - 1] \in {"0", "1", "2", "3", "4", "5"})
SexOk(s) ==
  LET fs == SplitColon(s, 1, "") IN
  /\ Len(fs) \in {2, 3}
  /\ UIntOk(fs[1]) /\ UIntOk(fs[2]) /\ Below60(fs[2])
  /\ (Len(fs) = 3 =>
        LET dot == {i \in 1..Len(fs[3]) : Ch(fs[3], i) = "."}
            ip == IF dot = {} THEN fs[3] ELSE SubSeq(fs[3], 1, (CHOOSE i \in dot : \A j \in dot : i <= j) - 1)
            fp == IF dot = {} THEN "" ELSE SubSeq(fs[3], (CHOOSE i \in dot : \A j \in dot : i <= j) + 1, Len(fs[3])) IN
        /\ Cardinality(dot) <= 1 /\ UIntOk(ip) /\ Below60(ip) /\ (dot # {} => UIntOk(fp)))

(* ---------------- the acceptor ---------------- *)
Fail == [ok |-> FALSE, i |-> 0, plan |-> <<>>, used |-> FALSE, plain |-> FALSE]
R(i, plan, used, plain) == [ok |-> TRUE, i |-> i, plan |-> plan, used |-> used, plain |-> plain]
It(op, s) == [op |-> op, s |-> s]
IsOp(ts, i, set) == i <= Len(ts) /\ ts[i].t = "op" /\ ts[i].s \in set
OpName(s) == CASE s = "+" -> "add" [] s = "-" -> "sub" [] s = "*" -> "mul" [] s = "/" -> "div"
(* how a sexagesimal literal is read: top level -> seconds, or radians under an angle tag; inside deg()/rad() -> degrees *)
SexMode(tag, inFunc) == IF ~inFunc THEN (IF tag \in {"deg", "rad"} THEN "radians" ELSE "seconds")
                        ELSE IF tag = "time" THEN "seconds" ELSE "degrees"
RECURSIVE Expr(_, _, _, _, _), ExprRest(_, _, _, _, _), Term(_, _, _, _, _), TermRest(_, _, _, _, _),
          Unary(_, _, _, _, _), SignsEnd(_, _), Primary(_, _, _, _, _)
Expr(ts, i, d, tag, inF) == LET a == Term(ts, i, d, tag, inF) IN IF ~a.ok THEN Fail ELSE ExprRest(ts, a, d, tag, inF)
ExprRest(ts, a, d, tag, inF) ==
  IF IsOp(ts, a.i, {"+", "-"}) THEN
     LET b == Term(ts, a.i + 1, d, tag, inF) IN
     IF ~b.ok THEN Fail
     ELSE ExprRest(ts, R(b.i, a.plan \o b.plan \o <<It(OpName(ts[a.i].s), "")>>, a.used \/ b.used, a.plain \/ b.plain), d, tag, inF)
  ELSE a
Term(ts, i, d, tag, inF) == LET a == Unary(ts, i, d, tag, inF) IN IF ~a.ok THEN Fail ELSE TermRest(ts, a, d, tag, inF)
TermRest(ts, a, d, tag, inF) ==
  IF IsOp(ts, a.i, {"*", "/"}) THEN
     LET b == Unary(ts, a.i + 1, d, tag, inF) IN
     IF ~b.ok THEN Fail
     ELSE TermRest(ts, R(b.i, a.plan \o b.plan \o <<It(OpName(ts[a.i].s), "")>>, a.used \/ b.used, a.plain \/ b.plain), d, tag, inF)
  ELSE a
SignsEnd(ts, i) == IF IsOp(ts, i, {"+", "-"}) THEN SignsEnd(ts, i + 1) ELSE i
Unary(ts, i, d, tag, inF) ==
  LET j == SignsEnd(ts, i)
      minus == Cardinality({k \in i..(j - 1) : ts[k].s = "-"})
      a == Primary(ts, j, d, tag, inF) IN
  IF ~a.ok THEN Fail
  (* the implementation multiplies by a sign of +1 or -1: an odd number of minus signs negates *)
  ELSE R(a.i, a.plan \o (IF minus % 2 = 1 THEN <<It("neg", "")>> ELSE <<>>), a.used, a.plain)
Primary(ts, i, d, tag, inF) ==
  IF i > Len(ts) THEN Fail ELSE
  LET t == ts[i] IN
  CASE t.t = "lp" ->
         IF d >= MaxDepth THEN Fail ELSE
         LET a == Expr(ts, i + 1, d + 1, tag, inF) IN
         IF ~a.ok \/ a.i > Len(ts) \/ ts[a.i].t # "rp" THEN Fail ELSE R(a.i + 1, a.plan, a.used, a.plain)
    [] t.t = "num" ->
         IF ~NumOk(t.s) THEN Fail
         ELSE IF t.s = ".inf" THEN R(i + 1, <<It("const", "inf")>>, FALSE, TRUE)
         ELSE IF t.s = ".nan" THEN R(i + 1, <<It("const", "nan")>>, FALSE, TRUE)
         ELSE R(i + 1, <<It("num", t.s)>>, FALSE, TRUE)
    [] t.t = "sex" ->
         IF ~SexOk(t.s) THEN Fail ELSE R(i + 1, <<It("sex" \o ":" \o SexMode(tag, inF), t.s)>>, TRUE, FALSE)
    [] t.t = "id" ->
         IF t.s \in {"pi", "tau", "inf", "nan"} THEN R(i + 1, <<It("const", t.s)>>, FALSE, TRUE)
         ELSE IF t.s \in {"deg", "rad"} THEN
              IF i + 1 > Len(ts) \/ ts[i + 1].t # "lp" \/ d >= MaxDepth THEN Fail ELSE
              LET a == Expr(ts, i + 2, d + 1, tag, TRUE) IN
              IF ~a.ok \/ a.i > Len(ts) \/ ts[a.i].t # "rp" THEN Fail
              (* whatever the argument was made of, the result counts as a unitized value *)
              ELSE R(a.i + 1, a.plan \o (IF t.s = "deg" THEN <<It("deg2rad", "")>> ELSE <<>>), TRUE, FALSE)
         ELSE Fail
    [] OTHER -> Fail
(* the whole scalar *)
Parse(ts, tag) ==
  LET a == Expr(ts, 1, 0, tag, FALSE) IN
  IF ~a.ok \/ a.i # Len(ts) + 1 THEN [ok |-> FALSE, plan |-> <<>>]
  ELSE IF ~a.used THEN [ok |-> TRUE, plan |-> a.plan \o (IF tag = "deg" THEN <<It("deg2rad", "")>> ELSE <<>>)]
  ELSE IF tag = "deg" /\ a.plain THEN [ok |-> FALSE, plan |-> <<>>]          \* unitized values mixed with bare terms under !degrees
  ELSE [ok |-> TRUE, plan |-> a.plan]
(* a scalar the plain float reader also understands: one number token without underscores, or a float constant *)
Ordinary(ts) == Len(ts) = 1 /\ ts[1].t = "num" /\ NumOk(ts[1].s) /\ ~\E i \in 1..Len(ts[1].s) : Ch(ts[1].s, i) = "_"
=============================================================================
