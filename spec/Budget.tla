------------------------------ MODULE Budget ------------------------------
(***************************************************************************)
(* C07: what the budget enforcer must count, stated as an independent      *)
(* count over the OBSERVED stream, and when it must reject.                *)
(*                                                                         *)
(* A full raw stream here includes the markers: "STS" stream start, "STE"  *)
(* stream end, "DS"/"DE" document start/end.  Scalars carry n = byte       *)
(* length of their text.                                                   *)
(* Obs(raw) = what the enforcer must account for: every raw event in       *)
(* order and, after each resolved alias, the events of its expansion       *)
(* (flag r = TRUE, anchor 0: a replay defines nothing).                    *)
(***************************************************************************)
EXTENDS YamlModel, TLC

Kinds == {"events", "nodes", "depth", "aliases", "anchors", "bytes", "merge_keys", "documents"}
Unl == 0 - 1      \* "unlimited" in limit records

(* ---------------- observed stream ---------------- *)
(* the events of the document containing index i, for alias resolution: anchors are per document *)
DocStartBefore(raw, i) == LET S == {j \in 1..i : raw[j].k = "DS"} IN IF S = {} THEN 1 ELSE CHOOSE j \in S : \A k \in S : k <= j
DefinedInDoc(raw, id, i) == \E j \in DocStartBefore(raw, i)..(i - 1) : raw[j].k \in {"S", "SS", "MS"} /\ raw[j].a = id
DefIdx(raw, id, i) == CHOOSE j \in DocStartBefore(raw, i)..(i - 1) : raw[j].k \in {"S", "SS", "MS"} /\ raw[j].a = id
NOf(e) == IF "n" \in DOMAIN e THEN e.n ELSE 0
Mark(e) == [k |-> e.k, a |-> 0, v |-> e.v, q |-> e.q, t |-> "", n |-> NOf(e), r |-> TRUE]
Plain(e) == [k |-> e.k, a |-> e.a, v |-> e.v, q |-> e.q, t |-> e.t, n |-> NOf(e), r |-> FALSE]
(* alias-free expansion of raw[lo..hi] with every event marked as replayed *)
RECURSIVE ReplayOf(_, _, _)
ReplayOf(raw, lo, hi) ==
  IF lo > hi THEN <<>> ELSE
  LET e == raw[lo] IN
  IF e.k = "AL" THEN (IF DefinedInDoc(raw, e.a, lo) /\ ~(DefIdx(raw, e.a, lo) < lo /\ lo <= E(raw, DefIdx(raw, e.a, lo)))
                      THEN LET s == DefIdx(raw, e.a, lo) IN ReplayOf(raw, s, E(raw, s)) ELSE <<>>) \o ReplayOf(raw, lo + 1, hi)
  ELSE <<Mark(e)>> \o ReplayOf(raw, lo + 1, hi)
Resolvable(raw, i) == raw[i].k = "AL" /\ DefinedInDoc(raw, raw[i].a, i)
                      /\ ~(DefIdx(raw, raw[i].a, i) < i /\ i <= E(raw, DefIdx(raw, raw[i].a, i)))
RECURSIVE ObsFrom(_, _)
ObsFrom(raw, i) ==
  IF i > Len(raw) THEN <<>> ELSE
  IF Resolvable(raw, i) THEN LET s == DefIdx(raw, raw[i].a, i) IN <<Plain(raw[i])>> \o ReplayOf(raw, s, E(raw, s)) \o ObsFrom(raw, i + 1)
  ELSE <<Plain(raw[i])>> \o ObsFrom(raw, i + 1)
Obs(raw) == ObsFrom(raw, 1)
(* an unresolvable alias makes the parse fail; the budget property says nothing past that point *)
AllResolvable(raw) == \A i \in 1..Len(raw) : raw[i].k = "AL" => Resolvable(raw, i)

(* ---------------- independent count ---------------- *)
RECURSIVE CountK(_, _), SumN(_), MaxDepthFrom(_, _, _, _), MergeKeysFrom(_, _, _)
CountK(o, ks) == IF o = <<>> THEN 0 ELSE (IF o[1].k \in ks THEN 1 ELSE 0) + CountK(Tail(o), ks)
SumN(o) == IF o = <<>> THEN 0 ELSE (IF o[1].k = "S" THEN o[1].n ELSE 0) + SumN(Tail(o))
MaxDepthFrom(o, i, d, m) == IF i > Len(o) THEN m
                            ELSE IF IsStart(o[i]) THEN MaxDepthFrom(o, i + 1, d + 1, IF d + 1 > m THEN d + 1 ELSE m)
                            ELSE IF IsEnd(o[i]) THEN MaxDepthFrom(o, i + 1, d - 1, m)
                            ELSE MaxDepthFrom(o, i + 1, d, m)
(* merge keys: untagged plain `<<` scalars standing in KEY position, where an alias together with *)
(* its replay is ONE node.  st: stack of "S" | "K" | "V".                                          *)
IsMK(e) == e.k = "S" /\ e.v = "<<" /\ e.q = "p" /\ e.t = ""
MergeKeysFrom(o, i, st) ==
  IF i > Len(o) THEN 0 ELSE
  LET e == o[i]  isKey == st # <<>> /\ st[Len(st)] = "K" IN
  CASE e.k = "S"  -> (IF isKey /\ IsMK(e) THEN 1 ELSE 0) + MergeKeysFrom(o, i + 1, AfterNode(st))
    [] e.k = "SS" -> MergeKeysFrom(o, i + 1, Append(st, "S"))
    [] e.k = "MS" -> MergeKeysFrom(o, i + 1, Append(st, "K"))
    [] e.k \in {"SE", "ME"} -> MergeKeysFrom(o, i + 1, AfterNode(PopStk(st)))
    [] e.k = "AL" -> (IF i < Len(o) /\ o[i + 1].r THEN MergeKeysFrom(o, i + 1, st)     \* the replay is the node
                      ELSE MergeKeysFrom(o, i + 1, AfterNode(st)))
    [] e.k \in {"DS", "DE"} -> MergeKeysFrom(o, i + 1, <<>>)
    [] OTHER -> MergeKeysFrom(o, i + 1, st)
Usage(o) ==
  [events |-> Len(o),
   nodes |-> CountK(o, {"S", "SS", "MS"}),
   depth |-> MaxDepthFrom(o, 1, 0, 0),
   aliases |-> CountK(o, {"AL"}),
   anchors |-> Cardinality({o[j].a : j \in {j \in 1..Len(o) : o[j].k \in {"S", "SS", "MS"} /\ o[j].a # 0}}),
   bytes |-> SumN(o),
   merge_keys |-> MergeKeysFrom(o, 1, <<>>),
   documents |-> CountK(o, {"DS"})]

Within(u, lim) == \A q \in Kinds : lim[q] = Unl \/ u[q] <= lim[q]
Exceeded(u, lim) == {q \in Kinds : lim[q] # Unl /\ u[q] > lim[q]}
(* the quantities that exceed their limit at the first event where some quantity does *)
RECURSIVE FirstExceeded(_, _, _)
FirstExceeded(o, lim, i) ==
  IF i > Len(o) THEN {} ELSE
  LET x == Exceeded(Usage(SubSeq(o, 1, i)), lim) IN IF x # {} THEN x ELSE FirstExceeded(o, lim, i + 1)

(* ---------------- per-document enforcement ---------------- *)
(* the events of document number d (1-based) of a full raw stream, from its DS to its DE *)
DocStarts(raw) == SelectSeq([j \in 1..Len(raw) |-> j], LAMBDA j : raw[j].k = "DS")
DocSlice(raw, d) == LET ss == DocStarts(raw)  lo == ss[d]
                        hi == IF d < Len(ss) THEN ss[d + 1] - 1 ELSE Len(raw) IN
                    SelectSeq(SubSeq(raw, lo, hi), LAMBDA e : e.k # "STE")
(* per document usage: `documents` is not counted under PerDocument *)
DocUsage(raw, d) == [Usage(Obs(DocSlice(raw, d))) EXCEPT !.documents = 0]
=============================================================================
