---------------------------- MODULE TV_Scalars ----------------------------
(***************************************************************************)
(* Trace validator for C06.  One record = one (token, style, tag, options) *)
(* cell of the table, with what the real crate returned for every target:  *)
(*   ints[tg] = [ok, neg, dec, hex, oct, bin] (magnitude in four radices)  *)
(*   boolv = "true" | "false" | "none";  strv, anyv = uniform values       *)
(*   f64v = bits | "nan" | "err"                                           *)
(*   floatkind / fbits = Rust's own str::parse::<f64> of the trimmed text  *)
(*   (the delegated part: TLA+ has no IEEE arithmetic)                     *)
(***************************************************************************)
EXTENDS Scalars, Json, IOUtils
Recs == ndJsonDeserialize(IOEnv.TRACE)
VARIABLE l

MagIn(o, radix) == CASE radix = 10 -> o.dec [] radix = 16 -> o.hex [] radix = 8 -> o.oct [] OTHER -> o.bin
IntOk(r, tg) ==
  LET p == IntParse(r.tok, Signed(tg), Bits(tg), r.legacy)  o == r.ints[tg] IN
  /\ o.ok = p.ok
  /\ p.ok => (o.neg = p.neg /\ MagIn(o, p.radix) = p.mag)
FloatLike(r) == r.floatkind # "none"
BoolOk(r) == r.boolv = BoolParse(r.tok, r.strict)
StrOk(r) == IF StrAccept(r.tok, r.style, r.tag, r.noschema, FloatLike(r)) THEN r.strv.c = "S" /\ r.strv.s = r.tok
            ELSE r.strv.c = "ERR"
CharOk(r) == IF CharAccept(r.tok, r.style, r.tag, r.noschema, FloatLike(r), r.nchars) THEN r.charv = "ok:" \o r.tok ELSE r.charv = "err"
AnyOk(r) ==
  LET fk == IF r.floatkind = "finite" THEN "finite" ELSE IF r.floatkind = "none" THEN "none" ELSE "nonfinite"
      k == AnyKind(r.tok, r.style, r.tag, r.strict, r.legacy, fk) IN
  CASE k = "N" -> r.anyv.c = "N"
    [] k = "E" -> r.anyv.c = "ERR"
    [] k = "B" -> r.anyv.c = "B" /\ r.anyv.s = BoolParse(r.tok, r.strict)
    [] k = "I" -> LET u == IntParse(r.tok, FALSE, 64, r.legacy)  s == IntParse(r.tok, TRUE, 64, r.legacy)
                      p == IF u.ok THEN u ELSE s IN
                  /\ r.anyv.c = "I"
                  /\ (p.radix = 10 => r.anyv.s = (IF p.neg THEN "-" ELSE "") \o p.mag)
    [] k = "F" -> r.anyv.c = "F" /\ r.anyv.s = r.fbits
    [] OTHER -> /\ r.anyv.c = "S"
                /\ r.anyv.s = (IF r.style = "p" /\ r.tag = "" /\ r.floatkind = "nan" THEN ".nan"
                               ELSE IF r.style = "p" /\ r.tag = "" /\ r.floatkind = "inf" THEN ".inf"
                               ELSE IF r.style = "p" /\ r.tag = "" /\ r.floatkind = "-inf" THEN "-.inf" ELSE r.tok)
(* float targets: special forms decided here, everything else is Rust's parse of the trimmed text, bit for bit *)
F64Ok(r) == LET sp == SpecialFloat(r.tok) IN
            IF sp = "nan" THEN r.f64v = "nan"
            ELSE IF r.floatkind = "none" THEN r.f64v = "err"
            ELSE IF r.floatkind = "nan" THEN r.f64v = "nan"
            ELSE IF r.floatkind = "finite" THEN r.f64v = r.fbits
            ELSE r.f64v \notin {"err", "nan"}
Check(r) ==
  IF r.tag = "" /\ \E tg \in IntTargets : ~IntOk(r, tg) THEN "int"
  ELSE IF r.tag = "" /\ ~BoolOk(r) THEN "bool"
  ELSE IF ~StrOk(r) THEN "str"
  ELSE IF ~CharOk(r) THEN "char"
  ELSE IF ~AnyOk(r) THEN "any"
  ELSE IF r.tag = "" /\ ~F64Ok(r) THEN "f64"
  ELSE "ok"
BadInts(r) == {tg \in IntTargets : ~IntOk(r, tg)}
Init == l = 1 /\ TLCSet(1, 0)
Next == /\ l <= Len(Recs)
        /\ LET r == Recs[l]  c == Check(r) IN
             IF c = "ok" THEN TRUE
             ELSE /\ PrintT(<<"MISMATCH", r.id, ToJson([verdict |-> c, tok |-> r.tok, style |-> r.style, tag |-> r.tag,
                                                        opts |-> <<r.legacy, r.strict, r.noschema>>, boolv |-> r.boolv, strv |-> r.strv,
                                                        anyv |-> r.anyv, f64v |-> r.f64v, floatkind |-> r.floatkind,
                                                        bad_ints |-> IF r.tag = "" THEN BadInts(r) ELSE {}])>>)
                  /\ TLCSet(1, TLCGet(1) + 1)
        /\ l' = l + 1
Spec == Init /\ [][Next]_l
Accepted == /\ PrintT(<<"TVDONE", TLCGet("stats").diameter - 1, Len(Recs), TLCGet(1)>>)
            /\ TLCGet("stats").diameter - 1 = Len(Recs)
            /\ TLCGet(1) = 0
=============================================================================
