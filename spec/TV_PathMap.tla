---------------------------- MODULE TV_PathMap ----------------------------
(***************************************************************************)
(* Trace validator for C18.  One record = one call of a validating entry   *)
(* point (crate garde / validator; str / slice / reader; single document   *)
(* or stream) on a text whose documents are given as raw events with the   *)
(* parser's positions.  issues = what the returned validation error        *)
(* reports: display path, byte offset of the use site and of the           *)
(* definition site.  plain_ok / vok / same: the plain entry point          *)
(* succeeded, the validating one returned Ok, both values are equal.       *)
(***************************************************************************)
EXTENDS PathMap, Json, IOUtils
Recs == ndJsonDeserialize(IOEnv.TRACE)
VARIABLE l
ExpectedOf(d) == {[path |-> i.path, use |-> d.pos[i.u].boff, def |-> d.pos[i.d].boff] : i \in Issues(d.raw)}
(* the same issues by line and column, as Display prints them (without snippets only the use site is printed) *)
ExpectedLc(d) == {[path |-> i.path, uline |-> d.pos[i.u].line, ucol |-> d.pos[i.u].col, dline |-> d.pos[i.d].line, dcol |-> d.pos[i.d].col] : i \in Issues(d.raw)}
UseOnly(s) == {[path |-> i.path, uline |-> i.uline, ucol |-> i.ucol] : i \in s}
Check(r) ==
  IF r.kind # "valid" THEN "ok" ELSE
  IF \E k \in 1..Len(r.docs) : Clash(r.docs[k].raw, 1) THEN "ok" ELSE
  LET exps == [k \in 1..Len(r.docs) |-> ExpectedOf(r.docs[k])]
      exp == UNION {exps[k] : k \in 1..Len(r.docs)}
      failing == Cardinality({k \in 1..Len(r.docs) : exps[k] # {}})
      explc == UNION {ExpectedLc(r.docs[k]) : k \in 1..Len(r.docs)}
      pl == {r.plain[k] : k \in 1..Len(r.plain)}
      sn == {r.snip[k] : k \in 1..Len(r.snip)}
      obs == {r.issues[k] : k \in 1..Len(r.issues)} IN
  IF Len(r.eclass) >= 5 /\ SubSeq(r.eclass, 1, 5) = "PANIC" THEN "panic"
  ELSE IF ~r.plain_ok THEN "plain-entry-point-failed"
  ELSE IF exp = {} THEN (IF ~r.vok THEN "validation-passes-but-error-returned" ELSE IF ~r.same THEN "value-differs-from-plain" ELSE "ok")
  ELSE IF r.vok THEN "validation-fails-but-ok-returned"
  ELSE IF r.eclass # "Validation" THEN "not-a-validation-error"
  ELSE IF {i.path : i \in obs} # {i.path : i \in exp} THEN "reported-paths-differ"
  ELSE IF obs # exp THEN "field-mapped-to-the-wrong-site"
  ELSE IF r.ndocs_reported # failing THEN "not-every-failing-document-reported"
  ELSE IF UseOnly(pl) # UseOnly(explc) THEN "display-without-snippets-reports-other-issues"
  ELSE IF {i.path : i \in sn} # {i.path : i \in explc} THEN "display-with-snippets-reports-other-paths"
  (* the reader entry points keep no source text: Display prints the use site only *)
  ELSE IF r.entry = "reader" /\ UseOnly(sn) # UseOnly(explc) THEN "display-with-snippets-reports-other-sites"
  ELSE IF r.entry # "reader" /\ sn # explc THEN "display-with-snippets-reports-other-sites"
  ELSE "ok"
Init == l = 1 /\ TLCSet(1, 0)
Next == /\ l <= Len(Recs)
        /\ LET r == Recs[l]  c == Check(r) IN
             IF c = "ok" THEN TRUE
             ELSE /\ PrintT(<<"MISMATCH", r.id, ToJson([verdict |-> c])>>)
                  /\ TLCSet(1, TLCGet(1) + 1)
        /\ l' = l + 1
Spec == Init /\ [][Next]_l
Accepted == /\ PrintT(<<"TVDONE", TLCGet("stats").diameter - 1, Len(Recs), TLCGet(1)>>)
            /\ TLCGet("stats").diameter - 1 = Len(Recs) /\ TLCGet(1) = 0
=============================================================================
