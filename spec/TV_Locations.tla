--------------------------- MODULE TV_Locations ---------------------------
(***************************************************************************)
(* Trace validator for C16.                                                *)
(* kind "span": the document read into a tree in which every node is       *)
(*   wrapped in the span-carrying type; tree = [k, r, d, src, a]           *)
(*   (referenced, defined, source slice of d's byte range, children).      *)
(*   text = the input as [w, c] code points, raw/pos = content events and  *)
(*   their positions as reported by the parser alone.                      *)
(* kind "err": the same document read into a typed tree that asks for an   *)
(*   integer at non-key node number `site` (pre-order); eprimary / eref /  *)
(*   edef = the reported locations.                                        *)
(* kind "syn": a damaged document; eprimary = the error's location if any. *)
(***************************************************************************)
EXTENDS Locations, Json, IOUtils
Recs == ndJsonDeserialize(IOEnv.TRACE)
VARIABLE l
SameLoc(a, b) == a.line = b.line /\ a.col = b.col /\ a.off = b.off
Check(r) ==
  CASE r.kind = "span" ->
         IF r.eclass # "" THEN "parse-failed"
         ELSE LVerdict(r.text, r.raw, r.pos, r.tree, 1, 0)
    [] r.kind = "err" ->
         (* the typed target asked for an integer at one non-key node: the error must be reported where a *)
         (* span-carrying value reports that node, with both sites when they differ                        *)
         LET es == ErrSites(r.tree, FALSE, NoPos)[r.site]  o == es.o IN
         IF r.eclass = "NOERROR" \/ SubSeq(r.eclass, 1, 5) = "PANIC" THEN "no-error"
         ELSE IF ~r.hasloc THEN "error-without-location"
         ELSE IF ~Consistent(r.text, r.eprimary) THEN "error-location-inconsistent"
         ELSE IF Pos3(r.edef) # es.def THEN "error-definition-site-is-not-the-node-or-its-anchor"
         ELSE IF ~SameLoc(r.eref, o.r) THEN "error-use-site-is-not-the-alias-or-merge"
         ELSE IF ~(SameLoc(r.eprimary, o.r) \/ SameLoc(r.eprimary, o.d)) THEN "primary-elsewhere"
         ELSE "ok"
    [] r.kind = "syn" ->
         IF SubSeq(r.eclass, 1, 5) = "PANIC" THEN "panic"
         ELSE IF r.hasloc /\ ~Consistent(r.text, r.eprimary) THEN "error-location-inconsistent"
         ELSE "ok"
    [] OTHER -> "ok"
Init == l = 1 /\ TLCSet(1, 0)
Next == /\ l <= Len(Recs)
        /\ LET r == Recs[l]  c == Check(r) IN
             IF c = "ok" THEN TRUE
             ELSE /\ PrintT(<<"MISMATCH", r.id, ToJson([verdict |-> c, yaml |-> r.yaml])>>)
                  /\ TLCSet(1, TLCGet(1) + 1)
        /\ l' = l + 1
Spec == Init /\ [][Next]_l
Accepted == /\ PrintT(<<"TVDONE", TLCGet("stats").diameter - 1, Len(Recs), TLCGet(1)>>)
            /\ TLCGet("stats").diameter - 1 = Len(Recs) /\ TLCGet(1) = 0
=============================================================================
