----------------------------- MODULE Locations -----------------------------
(***************************************************************************)
(* C16: what a reported location means.  A text is a sequence of code      *)
(* points given as records [w, c]: w = UTF-8 width (1..4), c = class       *)
(* ("LF", "CR", or anything else for an ordinary character, tabs included).*)
(* A location is [line, col, off, boff] (1-based line and column counted   *)
(* in code points, 0-based code point offset, byte offset or -1 when none  *)
(* is carried).  Line breaks: LF, CR LF (one break) and a lone CR.         *)
(***************************************************************************)
EXTENDS Naturals, Sequences, FiniteSets, TLC, YamlModel

(* is there a line break ending exactly after code point i (1-based)? *)
BreakEndsAt(t, i) == t[i].c = "LF" \/ (t[i].c = "CR" /\ (i = Len(t) \/ t[i + 1].c # "LF"))
RECURSIVE LineAt(_, _), ColAt(_, _), ByteAt(_, _)
(* line / column / byte offset of the position BEFORE code point off+1, i.e. at 0-based offset off *)
LineAt(t, off) == IF off = 0 THEN 1 ELSE LineAt(t, off - 1) + (IF BreakEndsAt(t, off) THEN 1 ELSE 0)
ColAt(t, off) == IF off = 0 THEN 1 ELSE IF BreakEndsAt(t, off) THEN 1 ELSE ColAt(t, off - 1) + 1
ByteAt(t, off) == IF off = 0 THEN 0 ELSE ByteAt(t, off - 1) + t[off].w
NoByte == 0 - 1
Consistent(t, loc) ==
  /\ loc.off <= Len(t)
  /\ loc.line = LineAt(t, loc.off) /\ loc.col = ColAt(t, loc.off)
  /\ (loc.boff = NoByte \/ loc.boff = ByteAt(t, loc.off))
(* a span [off, off+len) with byte range [boff, boff+blen) lies inside the text and its byte length matches *)
SpanConsistent(t, loc) ==
  /\ Consistent(t, loc)
  /\ loc.off + loc.len <= Len(t)
  /\ (loc.boff = NoByte \/ loc.blen = ByteAt(t, loc.off + loc.len) - ByteAt(t, loc.off))

(***************************************************************************)
(* Use site and definition site of every delivered node.                   *)
(* raw = content events of one document (anchors, aliases, merge keys),    *)
(* pos[i] = position of raw[i] in the text.  The observed value is a tree  *)
(* o = [k, r, d, src, a]: kind, referenced, defined, source slice of d's   *)
(* byte range, children (a mapping's children are key1, value1, key2, ..). *)
(*                                                                         *)
(* use = 0: the node is reached directly, its use site is its own token;   *)
(* use = u > 0: it is reached through the alias / merge entry raw[u] and   *)
(* everything below it keeps that use site (the outermost one wins).       *)
(* A merge entry's use site is its source node: the alias token of         *)
(* `<<: *a` / of an element of `<<: [*a, *b]`, the start of an inline      *)
(* mapping source.                                                         *)
(***************************************************************************)
IsMergeKeyRaw(e) == e.k = "S" /\ e.v = "<<" /\ e.q = "p" /\ e.t = ""
NullLikeRaw(e) == e.k = "S" /\ e.q = "p" /\ e.t = "" /\ NullLikeText(e.v)
Res(raw, i) == IF raw[i].k = "AL" THEN DefStart(raw, raw[i].a) ELSE i
UseOf(use, i) == IF use # 0 THEN use ELSE i
RawEntries(raw, ms) == EntryStarts(raw, ms + 1)
RawOwn(raw, ms) == SelectSeq(RawEntries(raw, ms), LAMBDA e : ~IsMergeKeyRaw(raw[e]))
RawMergeVals(raw, ms) == LET es == SelectSeq(RawEntries(raw, ms), LAMBDA e : IsMergeKeyRaw(raw[e])) IN
                         [j \in 1..Len(es) |-> E(raw, es[j]) + 1]
RawVal(raw, e) == E(raw, e) + 1
(* entries supplied by merge source node s: set of [e |-> key index, use |-> use site] *)
RECURSIVE MergedFrom(_, _, _)
MergedFrom(raw, s, use) ==
  LET j == Res(raw, s)  u == UseOf(use, s) IN
  CASE raw[j].k = "MS" -> {[e |-> RawOwn(raw, j)[n], use |-> u] : n \in 1..Len(RawOwn(raw, j))}
                          \cup UNION {MergedFrom(raw, RawMergeVals(raw, j)[n], u) : n \in 1..Len(RawMergeVals(raw, j))}
    [] raw[j].k = "SS" -> LET its == ItemStarts(raw, j + 1)
                              inner == IF raw[s].k = "AL" THEN u ELSE use IN     \* elements of a literal list keep their own use sites
                          UNION {MergedFrom(raw, its[n], inner) : n \in 1..Len(its)}
    [] OTHER -> {}
SamePos(a, p) == a.line = p.line /\ a.col = p.col /\ a.off = p.off /\ (a.boff = NoByte \/ a.boff = p.boff)
SrcExpected(e) == CASE e.q = "p" -> e.v
                    [] e.q = "d" -> "\"" \o e.v \o "\""
                    [] e.q = "s" -> "'" \o e.v \o "'"
                    [] OTHER -> e.v
RECURSIVE HasBreak(_)
HasBreak(s) == s # "" /\ (SubSeq(s, 1, 1) \in {"\n", "\r"} \/ HasBreak(SubSeq(s, 2, Len(s))))
(* verdict for observed tree o against the node at raw index i reached with use site `use` *)
RECURSIVE LVerdict(_, _, _, _, _, _)
(* the first verdict that is a real failure; the named deviation on quoted scalars only if nothing else is wrong *)
FirstBad(vs) == LET bad == {n \in 1..Len(vs) : vs[n] \notin {"ok", "quoted-span-runs-past-closing-quote"}}
                    dev == {n \in 1..Len(vs) : vs[n] = "quoted-span-runs-past-closing-quote"} IN
                IF bad # {} THEN vs[CHOOSE n \in bad : \A m \in bad : n <= m]
                ELSE IF dev # {} THEN "quoted-span-runs-past-closing-quote" ELSE "ok"
LVerdict(t, raw, pos, o, i, use) ==
  LET j == Res(raw, i)  u == UseOf(use, i)
      below == IF use # 0 THEN use ELSE IF raw[i].k = "AL" THEN i ELSE 0 IN
  IF o.k # raw[j].k THEN "wrong-node-kind"
  ELSE IF ~SpanConsistent(t, o.d) THEN "defined-inconsistent"
  ELSE IF ~SpanConsistent(t, o.r) THEN "referenced-inconsistent"
  ELSE IF ~SamePos(o.d, pos[j]) THEN "defined-names-wrong-node"
  ELSE IF ~SamePos(o.r, pos[u]) THEN "referenced-names-wrong-site"
  ELSE CASE raw[j].k = "S" ->
              (* exact for scalars written on one line; block scalars and scalars continued over several lines are *)
              (* folded / indented in the source, for them only the consistency of the span is required           *)
              IF o.d.boff # NoByte /\ raw[j].q \in {"p", "s", "d"} /\ ~HasBreak(o.src) /\ o.src # SrcExpected(raw[j]) THEN
                 (* named deviation (parser): the span of a quoted scalar runs on over trailing blanks / a comment to the end of its line *)
                 LET ex == SrcExpected(raw[j]) IN
                 IF raw[j].q \in {"d", "s"} /\ Len(o.src) > Len(ex) /\ SubSeq(o.src, 1, Len(ex)) = ex
                    /\ SubSeq(o.src, Len(ex) + 1, Len(ex) + 1) \in {" ", "\t"} THEN "quoted-span-runs-past-closing-quote"
                 ELSE "byte-range-is-not-the-source-text"
              ELSE "ok"
         [] raw[j].k = "SS" ->
              LET its == ItemStarts(raw, j + 1) IN
              IF Len(o.a) # Len(its) THEN "node-count"
              ELSE FirstBad([n \in 1..Len(its) |-> LVerdict(t, raw, pos, o.a[n], its[n], below)])
         [] raw[j].k = "MS" ->
              LET own == RawOwn(raw, j)  no == Len(own)
                  mvs == RawMergeVals(raw, j)
                  mg == UNION {MergedFrom(raw, mvs[n], below) : n \in 1..Len(mvs)}
                  keyText(e) == raw[Res(raw, e)].v
                  clash == \E a, b \in mg : a # b /\ keyText(a.e) = keyText(b.e)
                  clashOwn == \E a \in mg : \E n \in 1..no : keyText(own[n]) = keyText(a.e) IN
              IF clash \/ clashOwn THEN "ok"            \* which source wins is C03's subject, not decided here
              ELSE IF Len(o.a) # 2 * (no + Cardinality(mg)) THEN "node-count"
              ELSE LET ov == FirstBad([n \in 1..(2 * no) |->
                                 IF n % 2 = 1 THEN LVerdict(t, raw, pos, o.a[n], own[(n + 1) \div 2], below)
                                 ELSE LVerdict(t, raw, pos, o.a[n], RawVal(raw, own[n \div 2]), below)]) IN
                   IF ov \notin {"ok", "quoted-span-runs-past-closing-quote"} THEN ov
                   ELSE LET (* a merged entry matches a delivered pair if both nodes conform; the named deviation on quoted *)
                            (* scalars does not stop the match, it is passed on as the map's verdict                       *)
                            Q == "quoted-span-runs-past-closing-quote"
                            slots == (no + 1)..(no + Cardinality(mg))
                            pairV(m, n) == <<LVerdict(t, raw, pos, o.a[2 * n - 1], m.e, m.use), LVerdict(t, raw, pos, o.a[2 * n], RawVal(raw, m.e), m.use)>>
                            fits(m, n) == pairV(m, n)[1] \in {"ok", Q} /\ pairV(m, n)[2] \in {"ok", Q}
                            bad == {m \in mg : ~\E n \in slots : fits(m, n)} IN
                        IF bad # {} THEN "merged-entry-not-attributed-to-its-merge"
                        ELSE IF ov = Q \/ \E m \in mg : ~\E n \in slots : pairV(m, n) = <<"ok", "ok">> THEN Q
                        ELSE "ok"
         [] OTHER -> "wrong-node-kind"
(***************************************************************************)
(* Errors.  ErrSites(o) = pre-order list of the observed tree's nodes that *)
(* are not mapping keys, each with the definition site an error raised at  *)
(* it must carry: the node itself when it is reached directly; when it is  *)
(* reached through an alias / merge entry (r # d), the ANCHORED NODE, i.e. *)
(* the topmost node of the replayed part it belongs to (src/de.rs          *)
(* attach_alias_locations_if_missing re-attaches at every level of the     *)
(* replay, the outermost level wins).                                      *)
(***************************************************************************)
Pos3(a) == [line |-> a.line, col |-> a.col, off |-> a.off]
NoPos == [line |-> 0, col |-> 0, off |-> 0]
RECURSIVE ErrSites(_, _, _), ESList(_, _, _, _)
ErrSites(o, isKey, ptop) ==
  IF isKey THEN <<>> ELSE
  LET differs == Pos3(o.r) # Pos3(o.d)
      top == IF ~differs THEN NoPos ELSE IF ptop # NoPos THEN ptop ELSE Pos3(o.d) IN
  <<[o |-> o, def |-> IF differs THEN top ELSE Pos3(o.d)]>>
  \o (IF o.k \in {"SS", "MS"} THEN ESList(o.a, 1, o.k = "MS", top) ELSE <<>>)
ESList(kids, n, isMap, top) == IF n > Len(kids) THEN <<>>
                               ELSE ErrSites(kids[n], isMap /\ n % 2 = 1, top) \o ESList(kids, n + 1, isMap, top)
=============================================================================
