---------------------------- MODULE TV_Snippet ----------------------------
(***************************************************************************)
(* Trace validator for C17.                                                *)
(* kind "render": one error rendered with (radius, snippet on/off, entry   *)
(*   point, formatter); text = the BOM-stripped input as code points; locs *)
(*   = the locations the report is about (<<primary>> or <<use, def>>);    *)
(*   out = the rendered lines, classified (Snippet.tla header), followed   *)
(*   by the lines of the same error rendered with snippets switched off.   *)
(* kind "miette": the adapter's report: labels as byte spans, the report   *)
(*   rendered without colours.                                             *)
(***************************************************************************)
EXTENDS Snippet, Json, IOUtils
Recs == ndJsonDeserialize(IOEnv.TRACE)
VARIABLE l
(* windows: maximal runs of src / mark / bar lines *)
IsW(o) == o.kind \in {"src", "mark", "bar"}
WinStarts(out) == SelectSeq([i \in 1..Len(out) |-> i], LAMBDA i : IsW(out[i]) /\ (i = 1 \/ ~IsW(out[i - 1])))
RECURSIVE WinEnd(_, _)
WinEnd(out, i) == IF i < Len(out) /\ IsW(out[i + 1]) THEN WinEnd(out, i + 1) ELSE i
HasSrc(out, a, b) == \E i \in a..b : out[i].kind = "src"
Check(r) ==
  CASE r.kind = "render" ->
         IF r.panic # "" THEN "panic"
         ELSE IF \E i \in 1..Len(r.out) : ~Clean(r.out[i].raw) THEN "control-character-in-report"
         ELSE IF Len(r.text) <= 300 /\ Lines(r.text) # r.lines THEN "harness-line-split-differs-from-Snippet!Lines"
         ELSE LET ws == SelectSeq(WinStarts(r.out), LAMBDA i : HasSrc(r.out, i, WinEnd(r.out, i)))
                  ls == r.lines
                  on == r.snippet /\ r.radius > 0 IN
              IF ~on THEN (IF ws # <<>> THEN "snippet-shown-although-switched-off" ELSE "ok")
              ELSE IF Len(ws) > Len(r.locs) THEN "more-windows-than-locations"
              ELSE IF Len(ws) < Len(r.locs) THEN
                   (* the string entry points have the whole text: every located place must show its line *)
                   (* (an empty text has no line to show) *)
                   (* (so has the reader while the whole text fits its window of recent bytes: 500 code points are at most 2000 of its 3072 bytes) *)
                   (IF (r.entry # "reader" \/ (Len(r.text) <= 500 /\ ~r.validation)) /\ r.text # <<>> /\ \A k \in 1..Len(r.locs) : r.locs[k].line <= Len(ls) /\ r.locs[k].col <= Len(ls[r.locs[k].line]) + 1
                    THEN (IF HasLoneCR(r.text) THEN "lone-cr:" ELSE "") \o "no-snippet-for-a-located-error" ELSE "ok")
              ELSE LET vs == [k \in 1..Len(ws) |->
                                 LET w == SubSeq(r.out, ws[k], WinEnd(r.out, ws[k])) IN
                                 WindowVerdict(w, ls, r.locs[k].line, r.locs[k].col, r.radius)]
                       bad == {k \in 1..Len(ws) : vs[k] # "ok"} IN
                   IF bad = {} THEN "ok"
                   ELSE (IF HasLoneCR(r.text) THEN "lone-cr:" ELSE "") \o vs[CHOOSE k \in bad : \A j \in bad : k <= j]
    [] r.kind = "miette" ->
         IF r.panic # "" THEN "panic"
         ELSE IF \E i \in 1..Len(r.out) : ~Clean(r.out[i].raw) THEN "control-character-in-report"
         ELSE IF r.locs # <<>> /\ r.locs[1].off < Len(r.text) /\ r.labels = <<>> THEN "located-error-without-label"
         (* the first label covers exactly the characters the location spans (at least one) *)
         ELSE IF r.locs # <<>> /\ r.labels # <<>> /\ r.locs[1].off < Len(r.text) /\ ~SanEq(r.labels[1].txt, SubSeq(r.text, r.locs[1].off + 1, r.locs[1].off + (IF r.locs[1].len = 0 THEN 1 ELSE r.locs[1].len)))
              THEN "label-not-at-the-location"
         ELSE "ok"
    [] OTHER -> "ok"
Init == l = 1 /\ TLCSet(1, 0)
Next == /\ l <= Len(Recs)
        /\ LET r == Recs[l]  c == Check(r) IN
             IF c = "ok" THEN TRUE
             ELSE /\ PrintT(<<"MISMATCH", r.id, ToJson([verdict |-> c])>>)
                  /\ TLCSet(1, TLCGet(1) + 1)
        /\ l' = l + 1
Spec == Init /\ [][Next]_l
Accepted == /\ PrintT(<<"TVDONE", TLCGet("stats").diameter - 1, Len(Recs), TLCGet(1)>>)
            /\ TLCGet("stats").diameter - 1 = Len(Recs) /\ TLCGet(1) = 0
=============================================================================
