-------------------------- MODULE TV_ReaderInput --------------------------
(***************************************************************************)
(* Trace validator for C09 and C10.                                        *)
(* kind "sched": one reader-based call.  ws = UTF-8 widths of the text's   *)
(*   code points, avail = bytes (after any BOM) the reader delivered before*)
(*   it ended with `ending` ("eof" | "fault"), cap = max_reader_input_bytes*)
(*   (-1 none), out = outcome of the reader entry point, reff = outcome of *)
(*   the in-memory entry point on the delivered prefix (has_ref), pulled = *)
(*   bytes the reader was asked for.                                       *)
(*   Outcomes are [res, cls, line, col, val].                              *)
(* kind "borrow": the borrowing clause.  kind "drain": cap vs bytes pulled.*)
(***************************************************************************)
EXTENDS ReaderInput, Json, IOUtils
Recs == ndJsonDeserialize(IOEnv.TRACE)
VARIABLE l
Allowance == 32768          \* decoder buffer + BufReader + snippet read-ahead
SameOutcome(a, b) == /\ a.res = b.res
                     /\ a.res = "ok" => a.val = b.val
                     /\ a.res = "err" => (a.cls = b.cls /\ a.line = b.line /\ a.col = b.col)
CheckSched(r) ==
  LET x == Expected(r.ws, r.avail, r.ending, r.cap) IN
  IF x.end # "eof" THEN                                   \* C10: a fault / early EOF inside a code point / cap exceeded
       (IF r.out.res # "err" THEN "fault-swallowed"
        ELSE IF r.cap # NoCap /\ r.pulled > r.cap + Allowance THEN "drained-past-cap" ELSE "ok")
  ELSE IF ~r.has_ref THEN "ok"
  ELSE IF SameOutcome(r.out, r.reff) THEN "ok"            \* C09: same value, or same error kind at the same line and column
  ELSE IF r.out.res = r.reff.res /\ r.out.res = "err" THEN "error-differs" ELSE "value-differs"
CheckBorrow(r) ==
  IF r.reader_lends THEN "reader-lends"
  ELSE IF r.borrowed_ok /\ ~(r.verbatim /\ r.same_as_owned) THEN "borrowed-not-verbatim"
  ELSE IF ~r.transformed /\ r.style \in {"p", "s", "d"} /\ ~r.borrowed_ok THEN "verbatim-not-lent"
  ELSE IF r.transformed /\ r.borrowed_ok /\ ~r.verbatim THEN "transformed-lent"
  ELSE "ok"
(* encoded input (UTF-8 with a BOM, UTF-16): the raw length and the decoded length differ, and the property does not say  *)
(* which of the two the cap counts.  Below both the call must fail; at or above both (BOM counted) it must be unaffected; *)
(* in between it may fail, but a value it returns is never one built from a truncated prefix.                              *)
Min2(a, b) == IF a < b THEN a ELSE b
Max2(a, b) == IF a > b THEN a ELSE b
CheckEnc(r) ==
  LET lo == Min2(r.raw_len, r.dec_len)  hi == Max2(r.raw_len, r.dec_len + 3) IN
  IF r.cap < lo THEN (IF r.out.res # "err" THEN "cap-ignored" ELSE IF r.pulled > r.cap + Allowance THEN "drained-past-cap" ELSE "ok")
  ELSE IF r.out.res = "ok" THEN (IF SameOutcome(r.out, r.reff) THEN "ok" ELSE "value-from-truncated-input")
  ELSE IF r.cap >= hi THEN (IF SameOutcome(r.out, r.reff) THEN "ok" ELSE "affected-by-a-cap-it-fits-under")
  ELSE "ok"
(* typed requests (strings through deserialize_str / deserialize_string, field names, numbers, chars; tagged and untagged): *)
(* every entry point gives the outcome of from_str                                                                          *)
CheckAgree(r) == IF \A j \in 2..Len(r.outs) : SameOutcome(r.outs[j][2], r.outs[1][2]) THEN "ok" ELSE "entry-points-disagree"
(* a typed iterator / typed reader over an input that ends with a fault, inside a code point or over the cap: the call   *)
(* must report it, and every value yielded before is the value of that document in the complete text - never one built  *)
(* from the truncated prefix                                                                                             *)
RECURSIVE OkPrefix(_, _, _)
OkPrefix(items, refs, j) == IF j > Len(items) \/ items[j] = "ERR" THEN TRUE
                            ELSE j <= Len(refs) /\ items[j] = refs[j] /\ OkPrefix(items, refs, j + 1)
CheckTypedFault(r) ==
  LET x == Expected(r.ws, r.avail, r.ending, r.cap) IN
  IF x.end = "eof" THEN "ok"                          \* a clean (possibly shorter) input: nothing to swallow
  ELSE IF r.single.res # "err" THEN "fault-swallowed"
  ELSE IF ~\E j \in 1..Len(r.items) : r.items[j] = "ERR" THEN "fault-swallowed-by-the-iterator"
  ELSE IF ~OkPrefix(r.items, r.ref_items, 1) THEN "value-from-truncated-input"
  ELSE "ok"
CheckDrain(r) == IF r.out.res # "err" THEN "cap-ignored" ELSE IF r.pulled > r.cap + Allowance THEN "drained-past-cap" ELSE "ok"
(* writer: a failing writer makes serialization fail, and what was accepted is a prefix of the fault-free output *)
CheckWriter(r) == IF r.res # "err" THEN "write-fault-swallowed"
                  ELSE IF ~r.is_io THEN "write-fault-not-returned-as-the-io-error"
                  ELSE IF Len(r.received) > Len(r.full) \/ SubSeq(r.full, 1, Len(r.received)) # r.received THEN "not-a-prefix"
                  ELSE "ok"
Check(r) == CASE r.kind = "sched" -> CheckSched(r) [] r.kind = "writer" -> CheckWriter(r) [] r.kind = "borrow" -> CheckBorrow(r) [] r.kind = "drain" -> CheckDrain(r) [] r.kind = "enc" -> CheckEnc(r) [] r.kind = "agree" -> CheckAgree(r)
                 [] r.kind = "typed-fault" -> CheckTypedFault(r) [] OTHER -> "ok"
Init == l = 1 /\ TLCSet(1, 0)
Next == /\ l <= Len(Recs)
        /\ LET r == Recs[l]  c == Check(r) IN
             IF c = "ok" THEN TRUE
             ELSE /\ PrintT(<<"MISMATCH", r.id, ToJson([verdict |-> c, rec |-> r])>>)
                  /\ TLCSet(1, TLCGet(1) + 1)
        /\ l' = l + 1
Spec == Init /\ [][Next]_l
Accepted == /\ PrintT(<<"TVDONE", TLCGet("stats").diameter - 1, Len(Recs), TLCGet(1)>>)
            /\ TLCGet("stats").diameter - 1 = Len(Recs) /\ TLCGet(1) = 0
=============================================================================
