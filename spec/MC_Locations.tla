---------------------------- MODULE MC_Locations ----------------------------
(* every text up to MaxLen code points over {ASCII, 2-byte, 4-byte, TAB, LF, CR}: laws of the coordinate functions *)
EXTENDS Locations, Json
CONSTANTS MaxLen
VARIABLE t
Chars == {[w |-> 1, c |-> "x"], [w |-> 2, c |-> "x"], [w |-> 4, c |-> "x"], [w |-> 1, c |-> "TAB"], [w |-> 1, c |-> "LF"], [w |-> 1, c |-> "CR"]}
Init == t = <<>>
Next == Len(t) < MaxLen /\ \E ch \in Chars : t' = Append(t, ch)
Spec == Init /\ [][Next]_t
(* offset 0 is line 1 column 1 byte 0; coordinates are a bijection with offsets (no two offsets share line and column) *)
InvOrigin == LineAt(t, 0) = 1 /\ ColAt(t, 0) = 1 /\ ByteAt(t, 0) = 0
InvInjective == \A i, j \in 0..Len(t) : (LineAt(t, i) = LineAt(t, j) /\ ColAt(t, i) = ColAt(t, j)) => i = j
InvMonotone == \A i \in 1..Len(t) : /\ LineAt(t, i) \in {LineAt(t, i - 1), LineAt(t, i - 1) + 1}
                                    /\ ByteAt(t, i) > ByteAt(t, i - 1)
                                    /\ (LineAt(t, i) = LineAt(t, i - 1) => ColAt(t, i) = ColAt(t, i - 1) + 1)
(* CR LF is one break, a lone CR is one break *)
InvCRLF == \A i \in 1..(Len(t) - 1) : (t[i].c = "CR" /\ t[i + 1].c = "LF") => (LineAt(t, i) = LineAt(t, i - 1) /\ LineAt(t, i + 1) = LineAt(t, i) + 1)
(* every text is also a test case: the harness writes it (as comment lines) in front of a small document and reads that *)
EmitCase == PrintT(<<"CASE", ToJson([t |-> t])>>)
=============================================================================
