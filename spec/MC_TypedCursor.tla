------------------------- MODULE MC_TypedCursor -------------------------
(***************************************************************************)
(* Exhaustive instance for C05: every alias-free document up to MaxEv      *)
(* events over a small alphabet chosen to almost-match the schema family   *)
(* (field names a b c, variant names U N T St, scalars 1 x ~ true), and,   *)
(* for a set of schemas, algebraic laws of Faithful that any faithful      *)
(* typed reading must satisfy (checked by TLC on every document):          *)
(*   OptLaw    Opt(S) fails only if S fails                                *)
(*   TupSeqLaw a tuple of k equal component schemas accepts exactly the    *)
(*             sequences of length k that Seq accepts                      *)
(*   StructMapLaw a struct whose fields are all read accepts no mapping    *)
(*             that Map(S) rejects for a repeated or unusable key          *)
(* Each completed document is printed as a CASE for the harness, which     *)
(* forms the product with the full schema family itself.                   *)
(***************************************************************************)
EXTENDS TypedCursor, Json
CONSTANTS MaxEv
VARIABLES doc, stk, phase
vars == <<doc, stk, phase>>

KeyTexts == {"a", "b", "c", "U", "Nw", "T", "St"}
ValTexts == {"1", "x", "~", "true", "U", "Nw"}
Room == MaxEv - Len(doc)
Top == stk[Len(stk)]
CanStart == phase = "gen" /\ (doc = <<>> \/ stk # <<>>)
GenScalar(t) ==
  /\ CanStart
  /\ (IF stk = <<>> THEN t \in ValTexts ELSE IF Top = "K" THEN t \in KeyTexts ELSE t \in ValTexts)
  /\ Room - 1 >= Need(AfterNode(stk))
  /\ doc' = Append(doc, Ev("S", 0, t, "p", "")) /\ stk' = AfterNode(stk) /\ UNCHANGED phase
GenOpen(kind) ==
  /\ CanStart /\ (IF stk = <<>> THEN TRUE ELSE Top \in {"V", "S"})
  /\ LET s2 == Append(stk, IF kind = "SS" THEN "S" ELSE "K") IN Room - 1 >= Need(s2) /\ stk' = s2
  /\ doc' = Append(doc, Ev(kind, 0, "", "p", "")) /\ UNCHANGED phase
GenClose ==
  /\ phase = "gen" /\ stk # <<>> /\ Top \in {"S", "K"}
  /\ doc' = Append(doc, Ev(IF Top = "S" THEN "SE" ELSE "ME", 0, "", "p", ""))
  /\ stk' = AfterNode(PopStk(stk)) /\ UNCHANGED phase
GenDone == /\ phase = "gen" /\ doc # <<>> /\ stk = <<>> /\ phase' = "done" /\ UNCHANGED <<doc, stk>>
Init == doc = <<>> /\ stk = <<>> /\ phase = "gen"
Next == (\E t \in KeyTexts \cup ValTexts : GenScalar(t)) \/ GenOpen("SS") \/ GenOpen("MS") \/ GenClose \/ GenDone
Spec == Init /\ [][Next]_vars

L(t) == [t |-> t, ss |-> <<>>]
O(t, ss) == [t |-> t, ss |-> ss]
Leaves == {L("Bool"), L("Int"), L("Str"), L("Unit")}
D1 == Leaves \cup {O("Seq", <<b>>) : b \in Leaves} \cup {O("Opt", <<b>>) : b \in Leaves}
Done == phase = "done"
OptLaw == Done => \A S \in D1 : IsErrN(FaithfulDoc(O("Opt", <<S>>), doc)) => IsErrN(FaithfulDoc(S, doc))
TupSeqLaw == Done => \A b \in Leaves : \A k \in 1..3 :
                LET t == FaithfulDoc(O("Tup", [j \in 1..k |-> b]), doc)  s == FaithfulDoc(O("Seq", <<b>>), doc) IN
                (~IsErrN(t)) <=> (~IsErrN(s) /\ doc[1].k = "SS" /\ Len(s.a) = k)
StructMapLaw == Done => \A b \in Leaves :
                LET st == FaithfulDoc(O("Struct", <<O("Opt", <<b>>), O("Opt", <<b>>), O("Opt", <<b>>)>>), doc) IN
                (doc[1].k = "MS" /\ ~IsErrN(st) /\ \A j \in 1..Len(Entries(doc, 1)) : doc[Entries(doc, 1)[j]].v \in {"a", "b", "c"})
                   => ~IsErrN(FaithfulDoc(O("Map", <<O("Opt", <<b>>)>>), doc))
EmitCase == Done => PrintT(<<"CASE", ToJson([doc |-> doc])>>)
=============================================================================
