---------------------------- MODULE MC_Totality ----------------------------
(***************************************************************************)
(* C01, progress: on every well-formed raw stream of up to MaxEv events    *)
(* (the generator of MC_LiveEvents) the event pump terminates.  Stated     *)
(* twice: as a liveness property under weak fairness, and as an action     *)
(* property - every pump step strictly decreases a measure - so that a     *)
(* non-progress step would be reported with a finite trace.                *)
(***************************************************************************)
EXTENDS MC_LiveEvents
Big == 10000
RECURSIVE RemainingIn(_)
RemainingIn(inj) == IF inj = <<>> THEN 0
                    ELSE (Len(anchors[inj[1].id]) + 1 - inj[1].idx) + RemainingIn(Tail(inj))
Measure == (Len(raw) + 1 - pos) * Big + 2 * RemainingIn(inject) + Len(inject) + (IF st = "run" THEN 1 ELSE 0)
Progress == [][(phase = "run" /\ phase' = "run") => Measure' < Measure]_vars
MeasureFits == phase = "run" => 2 * RemainingIn(inject) + Len(inject) + 1 < Big
FairSpec == Spec /\ WF_vars(Next)
Terminates == <>(phase = "run" /\ st # "run")
=============================================================================
