---------------------------- MODULE MC_Quoting ----------------------------
(* all strings up to MaxLen over Sigma x positions x yaml_12; the plain decision must be safe; one CASE per string *)
EXTENDS Quoting, Json
CONSTANTS MaxLen, Positions
VARIABLES s, pos, y12
vars == <<s, pos, y12>>
Sigma == {"a", "n", "1", "~", "-", ".", ":", "#", "SP", "<", "BOM", ",", "LF", "'", "?", "TAB"}
Init == s = <<>> /\ pos \in Positions /\ y12 \in BOOLEAN
Next == \E c \in Sigma : Len(s) < MaxLen /\ s' = Append(s, c) /\ UNCHANGED <<pos, y12>>
Spec == Init /\ [][Next]_vars
InvRoundTrips == s # <<>> => RoundTrips(s, pos, y12)
EmitCase == (pos = "root" /\ ~y12) => PrintT(<<"CASE", ToJson([s |-> s])>>)
=============================================================================
