-------------------------- MODULE MC_ReaderInput --------------------------
(***************************************************************************)
(* Exhaustive instance: every text up to MaxChars code points over widths  *)
(* 1..4, every schedule (composition of the delivered byte count), every   *)
(* truncation point with clean end or fault, caps around the length; the   *)
(* ChunkedChars machine must deliver exactly ReaderInput!Expected.         *)
(***************************************************************************)
EXTENDS ReaderInput, Json
CONSTANTS MaxChars, MaxBytes
VARIABLES ws, sched, ending, cap, phase,     \* environment
          buf, delivered, pos, need, got, tot, emitted, endst
vars == <<ws, sched, ending, cap, phase, buf, delivered, pos, need, got, tot, emitted, endst>>
evars == <<ws, sched, ending, cap>>

GenChar(w) == /\ phase = "gen" /\ Len(ws) < MaxChars /\ Sum(ws) + w <= MaxBytes /\ ws' = Append(ws, w)
              /\ UNCHANGED <<sched, ending, cap, phase, buf, delivered, pos, need, got, tot, emitted, endst>>
GenSched(n) == /\ phase \in {"gen", "sched"} /\ Sum(sched) + n <= Sum(ws) /\ sched' = Append(sched, n) /\ phase' = "sched"
               /\ UNCHANGED <<ws, ending, cap, buf, delivered, pos, need, got, tot, emitted, endst>>
GenEnv(e, c) == /\ phase \in {"gen", "sched"} /\ ws # <<>> /\ (e = "eof" \/ Sum(sched) < Sum(ws) \/ TRUE)
                /\ ending' = e /\ cap' = c /\ phase' = "run"
                /\ UNCHANGED <<ws, sched, buf, delivered, pos, need, got, tot, emitted, endst>>
Caps == {NoCap} \cup {c \in 0..(MaxBytes + 1) : c >= Sum(ws) - 2 /\ c <= Sum(ws) + 1}

Running == phase = "run" /\ endst = "run"
(* BufReader::fill_buf: one read of the raw reader, which returns the next scheduled chunk *)
Refill == /\ Running /\ buf = 0 /\ delivered < Len(sched)
          /\ buf' = sched[delivered + 1] /\ delivered' = delivered + 1
          /\ UNCHANGED <<pos, need, got, tot, emitted, endst>> /\ UNCHANGED evars /\ UNCHANGED phase
SourceEnded == buf = 0 /\ delivered = Len(sched)
NextWidth == ws[emitted + 1]
(* read_exact(&mut buf[..1]) *)
ReadLead == /\ Running /\ need = 0 /\ buf > 0 /\ emitted < Len(ws)
            /\ buf' = buf - 1 /\ need' = NextWidth /\ got' = 1
            /\ UNCHANGED <<delivered, pos, tot, emitted, endst>> /\ UNCHANGED evars /\ UNCHANGED phase
(* reader.read(&mut buf[1 + read..needed]) : takes what is there, at most what is missing *)
ReadCont == /\ Running /\ need > 0 /\ got < need /\ buf > 0
            /\ LET k == IF buf < need - got THEN buf ELSE need - got IN buf' = buf - k /\ got' = got + k
            /\ UNCHANGED <<delivered, pos, need, tot, emitted, endst>> /\ UNCHANGED evars /\ UNCHANGED phase
(* code point assembled: enforce the cap, then hand it on *)
Emit == /\ Running /\ need > 0 /\ got = need
        /\ IF cap # NoCap /\ tot + need > cap THEN endst' = "toolarge" /\ UNCHANGED <<tot, emitted>>
           ELSE tot' = tot + need /\ emitted' = emitted + 1 /\ UNCHANGED endst
        /\ need' = 0 /\ got' = 0
        /\ UNCHANGED <<buf, delivered, pos>> /\ UNCHANGED evars /\ UNCHANGED phase
(* the source has nothing more *)
EndOfSource == /\ Running /\ SourceEnded /\ (need = 0 \/ got < need)     \* only when the machine asks for more bytes
               /\ endst' = (IF ending = "fault" THEN "io"
                            ELSE IF need > 0 THEN "io"                 \* unexpected EOF in the middle of a code point
                            ELSE "eof")
               /\ UNCHANGED <<buf, delivered, pos, need, got, tot, emitted>> /\ UNCHANGED evars /\ UNCHANGED phase
Init == /\ ws = <<>> /\ sched = <<>> /\ ending = "eof" /\ cap = NoCap /\ phase = "gen"
        /\ buf = 0 /\ delivered = 0 /\ pos = 0 /\ need = 0 /\ got = 0 /\ tot = 0 /\ emitted = 0 /\ endst = "run"
Next == \/ \E w \in 1..4 : GenChar(w)
        \/ \E n \in 1..MaxBytes : GenSched(n)
        \/ \E e \in {"eof", "fault"} : \E c \in Caps : GenEnv(e, c)
        \/ Refill \/ ReadLead \/ ReadCont \/ Emit \/ EndOfSource
Spec == Init /\ [][Next]_vars

(* the machine delivers exactly what is required, for EVERY schedule *)
InvExpected == (phase = "run" /\ endst # "run") =>
                  LET x == Expected(ws, Sum(sched), ending, cap) IN emitted = x.chars /\ endst = x.end
(* never more decoded bytes accounted than the cap *)
InvCap == cap # NoCap => tot <= cap
EmitCase == (phase = "run" /\ endst # "run" /\ Len(sched) <= 2) => PrintT(<<"CASE", ToJson([ws |-> ws, avail |-> Sum(sched), ending |-> ending, cap |-> cap])>>)
=============================================================================
