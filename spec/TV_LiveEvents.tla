-------------------------- MODULE TV_LiveEvents --------------------------
(***************************************************************************)
(* Trace validator for C02 (implementation -> specification).              *)
(* Each record is one call of the real crate:                              *)
(*   [id, raw, obs, exp, obs_exp]  raw = the parser's events for the text (taken from    *)
(*                   saphyr-parser directly, document markers stripped),   *)
(*                   obs = what serde_saphyr::from_str returned for the    *)
(*                   untyped target, as a uniform [c, s, a] tree           *)
(*                   (ERR for an error).                                   *)
(* The record is accepted iff obs = RequiredTree(raw).  A rejected record  *)
(* is printed and counted, and validation continues.                       *)
(***************************************************************************)
EXTENDS YamlModel, TLC, Json, IOUtils
Recs == ndJsonDeserialize(IOEnv.TRACE)
VARIABLE l

ObsNorm(o) == IF o.c = "ERR" THEN ERRN ELSE o

(* C02 proper: the aliased document reads exactly like its alias-free expansion.  The harness   *)
(* supplies the expansion it rendered (r.exp = its raw events, <<>> if it claims there is none)  *)
(* and what the real crate returned for it (r.obs_exp); the specification checks that r.exp IS   *)
(* the expansion, so nothing about the oracle is trusted to the harness.                         *)
Conforms(r) ==
  LET x == ExpandAll(r.raw) IN
  IF HasErr(x) THEN r.exp = <<>> /\ r.obs.c = "ERR"
  ELSE /\ StripAnchors(x) = StripAnchors(r.exp)
       /\ ObsNorm(r.obs) = ObsNorm(r.obs_exp)
(* secondary: the ideal untyped reading of the expansion (reported as IDEAL, decided under C05) *)
Ideal(r) == LET x == ExpandAll(r.raw) IN HasErr(x) \/ ObsNorm(r.obs_exp) = TreeAt(x, 1)

Init == l = 1 /\ TLCSet(1, 0)
Next == /\ l <= Len(Recs)
        /\ LET r == Recs[l] IN
             /\ IF Conforms(r) THEN TRUE
                ELSE /\ PrintT(<<"MISMATCH", r.id, ToJson([observed |-> r.obs, expansion_observed |-> r.obs_exp,
                                                           spec_expansion |-> StripAnchors(ExpandAll(r.raw))])>>)
                     /\ TLCSet(1, TLCGet(1) + 1)
             /\ IF Ideal(r) THEN TRUE ELSE PrintT(<<"IDEAL", r.id>>)
        /\ l' = l + 1
Spec == Init /\ [][Next]_l
Accepted == /\ PrintT(<<"TVDONE", TLCGet("stats").diameter - 1, Len(Recs), TLCGet(1)>>)
            /\ TLCGet("stats").diameter - 1 = Len(Recs)
            /\ TLCGet(1) = 0
=============================================================================
