---------------------------- MODULE MapAccess ----------------------------
(***************************************************************************)
(* Merge keys (C03) and duplicate-key policies (C04).                      *)
(*                                                                         *)
(* Declarative part: what a mapping of an alias-free stream x must         *)
(* deliver, stated by PRECEDENCE, not by mechanism:                        *)
(*   - own entries (key not a merge key) in document order, the policy     *)
(*     applied among them;                                                 *)
(*   - for every other key provided by some merge source, exactly one      *)
(*     entry whose value is found by Lookup: the LAST `<<` entry that      *)
(*     provides it, within a sequence source the LAST element, recursively *)
(*     own-before-merged inside a source.  The order in which merged keys  *)
(*     are delivered is not prescribed.                                    *)
(* Operational part (MapAccessMachine below, used by MC_MapAccess): the    *)
(* structure of de.rs `MA::next_key_seed`: seen / pending / merge_stack /  *)
(* flushing_merges, with PendingOf mirroring pending_entries_from_events / *)
(* collect_entries_from_map.                                               *)
(***************************************************************************)
EXTENDS YamlModel, TLC

IsMergeKeyEv(e) == e.k = "S" /\ e.v = "<<" /\ e.q = "p" /\ e.t = ""
NullLikeEv(e) == e.k = "S" /\ e.q = "p" /\ (e.t = "" \/ e.t = "!!null") /\ NullLikeText(e.v)

(* key identity: structure + scalar text + tag, style ignored *)
RECURSIVE FP(_, _)
FP(x, i) ==
  CASE x[i].k = "S"  -> N("S" \o x[i].t, x[i].v, <<>>)
    [] x[i].k = "SS" -> LET its == ItemStarts(x, i + 1) IN N("Seq", "", [j \in 1..Len(its) |-> FP(x, its[j])])
    [] x[i].k = "MS" -> LET es == EntryStarts(x, i + 1) IN
                        N("Map", "", [j \in 1..Len(es) |-> N("P", "", <<FP(x, es[j]), FP(x, E(x, es[j]) + 1)>>)])
    [] OTHER -> ERRN

ValOf(x, e) == E(x, e) + 1                       \* value node of the entry whose key starts at e
Entries(x, ms) == EntryStarts(x, ms + 1)
OwnE(x, ms) == SelectSeq(Entries(x, ms), LAMBDA e : ~IsMergeKeyEv(x[e]))
MergeVals(x, ms) == LET es == SelectSeq(Entries(x, ms), LAMBDA e : IsMergeKeyEv(x[e])) IN
                    [j \in 1..Len(es) |-> ValOf(x, es[j])]
Items(x, ss) == ItemStarts(x, ss + 1)

(* ---------------- merge sources ---------------- *)
RECURSIVE SrcOk(_, _), SrcKeys(_, _), SrcLookup(_, _, _), LookupIn(_, _, _)
(* a merge value must be a mapping, a (nested) sequence of such, or null *)
SrcOk(x, s) ==
  CASE x[s].k = "S"  -> NullLikeEv(x[s])
    [] x[s].k = "MS" -> \A j \in 1..Len(MergeVals(x, s)) : SrcOk(x, MergeVals(x, s)[j])
    [] x[s].k = "SS" -> \A j \in 1..Len(Items(x, s)) : SrcOk(x, Items(x, s)[j])
    [] OTHER -> FALSE
SrcKeys(x, s) ==
  CASE x[s].k = "MS" -> {FP(x, OwnE(x, s)[j]) : j \in 1..Len(OwnE(x, s))}
                        \cup UNION {SrcKeys(x, MergeVals(x, s)[j]) : j \in 1..Len(MergeVals(x, s))}
    [] x[s].k = "SS" -> UNION {SrcKeys(x, Items(x, s)[j]) : j \in 1..Len(Items(x, s))}
    [] OTHER -> {}
(* entry (key index) that supplies key f from source s; own before merged, later source first *)
SrcLookup(x, s, f) ==
  IF x[s].k = "MS" THEN
     LET own == SelectSeq(OwnE(x, s), LAMBDA e : FP(x, e) = f) IN
     IF own # <<>> THEN own[1] ELSE LookupIn(x, Rev(MergeVals(x, s)), f)
  ELSE LookupIn(x, Rev(Items(x, s)), f)
LookupIn(x, srcs, f) == IF f \in SrcKeys(x, srcs[1]) THEN SrcLookup(x, srcs[1], f) ELSE LookupIn(x, Tail(srcs), f)

(* a source whose own entries repeat a key: which one is taken is not prescribed by the property *)
RECURSIVE SrcAmbiguous(_, _)
SrcAmbiguous(x, s) ==
  CASE x[s].k = "MS" -> (\E i, j \in 1..Len(OwnE(x, s)) : i < j /\ FP(x, OwnE(x, s)[i]) = FP(x, OwnE(x, s)[j]))
                        \/ \E j \in 1..Len(MergeVals(x, s)) : SrcAmbiguous(x, MergeVals(x, s)[j])
    [] x[s].k = "SS" -> \E j \in 1..Len(Items(x, s)) : SrcAmbiguous(x, Items(x, s)[j])
    [] OTHER -> FALSE

(* ---------------- a mapping's own entries under the policy ---------------- *)
(* scan in document order; returns [st |-> "ok"|"dup"|"merge", own |-> <<key indices delivered>>,   *)
(* at |-> index of the offending key (the repeated key / the `<<` key), 0 if none]                *)
RECURSIVE Scan(_, _, _, _, _)
Scan(x, es, p, acc, sn) ==
  IF es = <<>> THEN [st |-> "ok", own |-> acc, at |-> 0] ELSE
  LET e == es[1] IN
  IF IsMergeKeyEv(x[e]) THEN (IF SrcOk(x, ValOf(x, e)) THEN Scan(x, Tail(es), p, acc, sn) ELSE [st |-> "merge", own |-> acc, at |-> e])
  ELSE LET f == FP(x, e) IN
       IF f \in sn THEN
          (CASE p = "Error"     -> [st |-> "dup", own |-> acc, at |-> e]
             [] p = "FirstWins" -> Scan(x, Tail(es), p, acc, sn)
             [] p = "LastWins"  -> Scan(x, Tail(es), p, Append(acc, e), sn))
       ELSE Scan(x, Tail(es), p, Append(acc, e), sn \cup {f})

(* Delivered(x, ms, p) = [st, own (key indices, ordered), merged (set of key indices)] *)
Delivered(x, ms, p) ==
  LET sc == Scan(x, Entries(x, ms), p, <<>>, {})
      ownKeys == {FP(x, sc.own[j]) : j \in 1..Len(sc.own)}
      srcs == Rev(MergeVals(x, ms))
      mkeys == UNION {SrcKeys(x, srcs[j]) : j \in 1..Len(srcs)} \ ownKeys
  IN [st |-> sc.st, own |-> sc.own, at |-> sc.at,
      merged |-> IF sc.st = "ok" THEN {LookupIn(x, srcs, f) : f \in mkeys} ELSE {}]
MapAmbiguous(x, ms) == \E j \in 1..Len(MergeVals(x, ms)) : SrcAmbiguous(x, MergeVals(x, ms)[j])

(* ---------------- whole-node requirements (recursive over the document) ---------------- *)
RECURSIVE Faulty(_, _, _), Ambiguous(_, _, _), Conf(_, _, _, _)
(* deserializing node i must fail: a fault in some delivered part *)
Faulty(x, i, p) ==
  CASE x[i].k = "S"  -> FALSE
    [] x[i].k = "SS" -> \E j \in 1..Len(Items(x, i)) : Faulty(x, Items(x, i)[j], p)
    [] x[i].k = "MS" -> LET d == Delivered(x, i, p) IN
                        \/ d.st # "ok"
                        \/ \E j \in 1..Len(d.own) : Faulty(x, d.own[j], p) \/ Faulty(x, ValOf(x, d.own[j]), p)
                        \/ \E e \in d.merged : Faulty(x, e, p) \/ Faulty(x, ValOf(x, e), p)
    [] OTHER -> TRUE
(* every fault that can be the one reported: [kind, at, live] with at = index of the repeated   *)
(* key / of the `<<` key whose value is not mergeable, in some delivered part; live = reached   *)
(* through own entries only (a fault inside a merged-in entry is reported at the merge's use    *)
(* and definition sites, C16, so its exact position is not prescribed here)                      *)
RECURSIVE Faults(_, _, _, _)
Faults(x, i, p, live) ==
  CASE x[i].k = "SS" -> UNION {Faults(x, Items(x, i)[j], p, live) : j \in 1..Len(Items(x, i))}
    [] x[i].k = "MS" -> LET d == Delivered(x, i, p) IN
                        (IF d.st = "ok" THEN {} ELSE {[kind |-> d.st, at |-> d.at, live |-> live]})
                        \cup UNION {Faults(x, d.own[j], p, live) \cup Faults(x, ValOf(x, d.own[j]), p, live) : j \in 1..Len(d.own)}
                        \cup UNION {Faults(x, e, p, FALSE) \cup Faults(x, ValOf(x, e), p, FALSE) : e \in d.merged}
    [] OTHER -> {}
(* some delivered mapping has an ambiguous source: the property does not fix the outcome *)
Ambiguous(x, i, p) ==
  CASE x[i].k = "SS" -> \E j \in 1..Len(Items(x, i)) : Ambiguous(x, Items(x, i)[j], p)
    [] x[i].k = "MS" -> \/ MapAmbiguous(x, i)
                        \/ \E j \in 1..Len(Entries(x, i)) : Ambiguous(x, Entries(x, i)[j], p) \/ Ambiguous(x, ValOf(x, Entries(x, i)[j]), p)
    [] OTHER -> FALSE
(* observed untyped tree o conforms to node i (pair-list view of mappings) *)
Conf(o, x, i, p) ==
  CASE x[i].k = "S"  -> o = Leaf(x[i])
    [] x[i].k = "SS" -> /\ o.c = "Seq" /\ Len(o.a) = Len(Items(x, i))
                        /\ \A j \in 1..Len(o.a) : Conf(o.a[j], x, Items(x, i)[j], p)
    [] x[i].k = "MS" ->
         LET d == Delivered(x, i, p)  n == Len(d.own) IN
         /\ o.c = "Map" /\ Len(o.a) = n + Cardinality(d.merged)
         /\ \A j \in 1..n : Conf(o.a[j].a[1], x, d.own[j], p) /\ Conf(o.a[j].a[2], x, ValOf(x, d.own[j]), p)
         /\ \A e \in d.merged : \E j \in (n + 1)..Len(o.a) :
                Conf(o.a[j].a[1], x, e, p) /\ Conf(o.a[j].a[2], x, ValOf(x, e), p)
    [] OTHER -> FALSE

=============================================================================
