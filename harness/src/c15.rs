//! C15 — a call's result depends only on its arguments, not on earlier or nested calls.
//! A history is a sequence of calls executed on ONE thread; every call's fingerprint is compared with the
//! fingerprint of the same call on a FRESH thread, and the thread-local state is snapshotted after each call.
use crate::docgen::*;
use crate::model::*;
use crate::Args;
use serde::{Deserialize, Serialize};
use serde_saphyr::{ArcAnchor, ArcRecursive, RcAnchor, RcRecursive, RcWeakAnchor};
use std::sync::Arc;
use std::rc::Rc;

#[derive(Serialize, Deserialize, Debug)]
struct Item {
    v: i64,
}
#[derive(Deserialize, Debug)]
struct Strict {
    #[allow(dead_code)]
    a: i64,
    #[allow(dead_code)]
    b: String,
}
thread_local! {
    /// (thread-local anchor state before, after) every nested call made by `NestedProbe` on this thread
    static NESTED: std::cell::RefCell<Vec<Vec<i64>>> = const { std::cell::RefCell::new(Vec::new()) };
    /// fingerprint of every nested (inner) call made on this thread
    static INNER: std::cell::RefCell<Vec<String>> = const { std::cell::RefCell::new(Vec::new()) };
}
/// the parse `NestedProbe` runs from inside another parse
fn inner_call() -> String {
    let inner: Result<Vec<RcAnchor<Item>>, _> = serde_saphyr::from_str("- &z {v: 7}\n- *z\n");
    match inner {
        Ok(v) => format!("inner-ok-shared={}", v.len() == 2 && Rc::ptr_eq(&v[0].0, &v[1].0)),
        Err(e) => format!("inner-err-{}", classify(&e)),
    }
}
/// a Deserialize impl that runs another parse in the middle of its own (nested call)
struct NestedProbe(String);
impl<'de> Deserialize<'de> for NestedProbe {
    fn deserialize<D: serde::de::Deserializer<'de>>(d: D) -> Result<NestedProbe, D::Error> {
        let s = String::deserialize(d)?;
        // nested, independent parse with its own anchors
        let before = serde_saphyr::verif_hooks::anchor_state();
        let fp = inner_call();
        INNER.with(|n| n.borrow_mut().push(fp.clone()));
        let after = serde_saphyr::verif_hooks::anchor_state();
        NESTED.with(|n| n.borrow_mut().push(vec![before.0 as i64, before.1 as i64, before.2 as i64, after.0 as i64, after.1 as i64, after.2 as i64]));
        Ok(NestedProbe(format!("{s}|{fp}")))
    }
}
#[derive(Deserialize)]
struct Outer {
    first: RcAnchor<Item>,
    probe: NestedProbe,
    second: RcAnchor<Item>,
    weak: RcWeakAnchor<Item>,
}
/// the same nested call with the outer document's anchors held by the other wrapper families
#[derive(Deserialize)]
struct OuterArc {
    first: ArcAnchor<Item>,
    probe: NestedProbe,
    second: ArcAnchor<Item>,
}
#[derive(Deserialize)]
struct OuterRcRec {
    first: RcRecursive<Item>,
    probe: NestedProbe,
    second: RcRecursive<Item>,
}
#[derive(Deserialize)]
struct OuterArcRec {
    first: ArcRecursive<Item>,
    probe: NestedProbe,
    second: ArcRecursive<Item>,
}
/// nested call inside an anchored RcAnchor node of the outer parse
#[derive(Deserialize)]
struct InnerHolder {
    #[allow(dead_code)]
    v: i64,
    probe: NestedProbe,
}
/// a validated type whose failing field is reached through the fuzzy path lookup (serde rename), in a document that also
/// carries two ignored keys colliding with it on a looser pass: the lookup must not depend on hash iteration order
#[derive(Deserialize, garde::Validate)]
struct Decoyed {
    #[garde(range(min = 1))]
    #[serde(rename = "userId")]
    #[allow(dead_code)]
    user_id: i32,
}
struct Panicker;
impl<'de> Deserialize<'de> for Panicker {
    fn deserialize<D: serde::de::Deserializer<'de>>(d: D) -> Result<Panicker, D::Error> {
        let _ = i64::deserialize(d)?;
        panic!("visitor panics on purpose");
    }
}
#[derive(Deserialize)]
struct PanicDoc {
    #[allow(dead_code)]
    keep: RcAnchor<Item>,
    #[allow(dead_code)]
    boom: RcAnchor<Panicker>,
}

pub const CALLS: [&str; 15] = ["ok-shared", "fail-in-anchored", "fail-missing-field", "budget", "panic", "nested", "nested-in-anchor", "iter-abandon", "serialize-shared", "unknown-alias", "weak-ok", "nested-arc", "nested-rcrec", "nested-arcrec", "valid-decoy"];

/// executes one call and returns its fingerprint (value / sharing / error class / location)
pub fn call(name: &str) -> String {
    let n = name.to_string();
    let r = guarded(move || -> String {
        match n.as_str() {
            "ok-shared" => match serde_saphyr::from_str::<Vec<RcAnchor<Item>>>("- &a {v: 1}\n- *a\n- {v: 2}\n") {
                Ok(v) => format!("ok shared={} distinct={}", Rc::ptr_eq(&v[0].0, &v[1].0), !Rc::ptr_eq(&v[0].0, &v[2].0)),
                Err(e) => format!("err {} {:?}", classify(&e), err_loc(&e)),
            },
            "fail-in-anchored" => match serde_saphyr::from_str::<Vec<RcAnchor<Item>>>("- &a {v: 1}\n- &b {v: oops}\n- *a\n") {
                Ok(_) => "ok?".into(),
                Err(e) => format!("err {} {:?}", classify(&e), err_loc(&e)),
            },
            "fail-missing-field" => match serde_saphyr::from_str::<Vec<Strict>>("- {a: 1, b: x}\n- {a: 2}\n") {
                Ok(_) => "ok?".into(),
                Err(e) => format!("err {} {:?}", classify(&e), err_loc(&e)),
            },
            "budget" => {
                let mut o = serde_saphyr::Options::default();
                let mut b = serde_saphyr::Budget::default();
                b.max_nodes = 3;
                o.budget = Some(b);
                match serde_saphyr::from_str_with_options::<Vec<RcAnchor<Item>>>("- &a {v: 1}\n- *a\n- *a\n", o) {
                    Ok(_) => "ok?".into(),
                    Err(e) => format!("err {} {:?}", classify(&e), err_loc(&e)),
                }
            }
            "panic" => {
                let r = std::panic::catch_unwind(|| serde_saphyr::from_str::<PanicDoc>("keep: &k {v: 1}\nboom: &p 5\n").is_ok());
                format!("panic-caught={}", r.is_err())
            }
            "nested" => match serde_saphyr::from_str::<Outer>("first: &a {v: 1}\nprobe: hello\nsecond: *a\nweak: *a\n") {
                Ok(o) => format!("ok probe={} shared={} weak={}", o.probe.0, Rc::ptr_eq(&o.first.0, &o.second.0), o.weak.0.upgrade().map(|w| Rc::ptr_eq(&w, &o.first.0)).unwrap_or(false)),
                Err(e) => format!("err {} {:?}", classify(&e), err_loc(&e)),
            },
            "valid-decoy" => match serde_saphyr::from_str_valid::<Decoyed>("userid: 1\nuserId: 0\nUSERID: 2\n") {
                Ok(_) => "ok?".into(),
                Err(e) => format!("err {} {}", classify(&e), e),
            },
            "nested-arc" => match serde_saphyr::from_str::<OuterArc>("first: &a {v: 1}\nprobe: hello\nsecond: *a\n") {
                Ok(o) => format!("ok probe={} shared={}", o.probe.0, Arc::ptr_eq(&o.first.0, &o.second.0)),
                Err(e) => format!("err {} {:?}", classify(&e), err_loc(&e)),
            },
            "nested-rcrec" => match serde_saphyr::from_str::<OuterRcRec>("first: &a {v: 1}\nprobe: hello\nsecond: *a\n") {
                Ok(o) => format!("ok probe={} shared={}", o.probe.0, Rc::ptr_eq(&o.first.0, &o.second.0)),
                Err(e) => format!("err {} {:?}", classify(&e), err_loc(&e)),
            },
            "nested-arcrec" => match serde_saphyr::from_str::<OuterArcRec>("first: &a {v: 1}\nprobe: hello\nsecond: *a\n") {
                Ok(o) => format!("ok probe={} shared={}", o.probe.0, Arc::ptr_eq(&o.first.0, &o.second.0)),
                Err(e) => format!("err {} {:?}", classify(&e), err_loc(&e)),
            },
            "nested-in-anchor" => match serde_saphyr::from_str::<Vec<RcAnchor<InnerHolder>>>("- &h {v: 1, probe: hi}\n- *h\n") {
                Ok(v) => format!("ok probe={} shared={}", v[0].0.probe.0, Rc::ptr_eq(&v[0].0, &v[1].0)),
                Err(e) => format!("err {} {:?}", classify(&e), err_loc(&e)),
            },
            "iter-abandon" => {
                let mut rd = std::io::Cursor::new(b"- &a {v: 1}\n- *a\n---\n- &b {v: 2}\n---\n- {v: oops}\n".to_vec());
                let mut it = serde_saphyr::read::<_, Vec<RcAnchor<Item>>>(&mut rd);
                let first = it.next();
                drop(it);
                match first {
                    Some(Ok(v)) => format!("first ok shared={}", Rc::ptr_eq(&v[0].0, &v[1].0)),
                    Some(Err(e)) => format!("first err {}", classify(&e)),
                    None => "none".into(),
                }
            }
            "serialize-shared" => {
                let a = Rc::new(Item { v: 5 });
                let v = vec![RcAnchor(a.clone()), RcAnchor(a.clone()), RcAnchor(Rc::new(Item { v: 6 }))];
                match serde_saphyr::to_string(&v) {
                    Ok(t) => format!("text={t:?}"),
                    Err(e) => format!("ser-err {e}"),
                }
            }
            "unknown-alias" => match serde_saphyr::from_str::<Vec<RcAnchor<Item>>>("- *a\n") {
                Ok(_) => "ok?".into(),
                Err(e) => format!("err {} {:?}", classify(&e), err_loc(&e)),
            },
            _ => match serde_saphyr::from_str::<(RcAnchor<Item>, RcWeakAnchor<Item>)>("- &w {v: 3}\n- *w\n") {
                Ok((s, w)) => format!("ok weak-live={}", w.0.upgrade().map(|x| Rc::ptr_eq(&x, &s.0)).unwrap_or(false)),
                Err(e) => format!("err {} {:?}", classify(&e), err_loc(&e)),
            },
        }
    });
    r.unwrap_or_else(|p| format!("PANIC-ESCAPED:{p}"))
}
fn snapshot() -> Vec<i64> {
    let (a, b, c) = serde_saphyr::verif_hooks::anchor_state();
    let f = serde_saphyr::verif_hooks::missing_field_fallback();
    vec![a as i64, b as i64, c as i64, if f.is_some() { 1 } else { 0 }]
}

#[derive(Serialize)]
struct Rec {
    id: String,
    kind: String,
    history: Vec<String>,
    results: Vec<String>,
    fresh: Vec<String>,
    snaps: Vec<Vec<i64>>,
    /// for every nested call: anchor state (stack, stored, in progress) before and after it, as seen by the outer call
    nested: Vec<Vec<i64>>,
    /// fingerprints of the nested (inner) calls, and of the same inner call made alone on a fresh thread
    inner: Vec<String>,
    inner_fresh: String,
}
#[derive(Deserialize)]
struct Case {
    calls: Vec<usize>,
}

pub fn run(args: &Args) -> i32 {
    let out = args.req("out");
    let mut w = NdWriter::create(out);
    // fingerprints on fresh threads (the property's own oracle)
    let fresh: Vec<String> = CALLS.iter().map(|c| { let c = c.to_string(); std::thread::spawn(move || call(&c)).join().unwrap_or_else(|_| "THREAD-PANIC".into()) }).collect();
    let inner_fresh = std::thread::spawn(inner_call).join().unwrap_or_else(|_| "THREAD-PANIC".into());
    let mut histories: Vec<Vec<usize>> = vec![];
    if let Some(cases) = args.get("cases") {
        let cases: Vec<Case> = read_ndjson(cases);
        histories.extend(cases.into_iter().map(|c| c.calls.into_iter().map(|x| x - 1).collect()));
    }
    let mut rng = Rng::new(args.num("seed", 1));
    for _ in 0..args.num("random", 0) {
        let n = 4 + rng.below(12);
        histories.push((0..n).map(|_| rng.below(CALLS.len())).collect());
    }
    let mut nontrivial = 0;
    for (i, h) in histories.iter().enumerate() {
        let h2 = h.clone();
        let (results, snaps, nested, inner) = std::thread::spawn(move || {
            let mut rs = vec![];
            let mut ss = vec![];
            for c in &h2 {
                rs.push(call(CALLS[*c]));
                ss.push(snapshot());
            }
            (rs, ss, NESTED.with(|n| n.borrow().clone()), INNER.with(|n| n.borrow().clone()))
        })
        .join()
        .unwrap_or_else(|_| (vec!["THREAD-PANIC".into()], vec![], vec![], vec![]));
        if h.len() >= 2 {
            nontrivial += 1;
        }
        w.put(&Rec { id: format!("h{i}"), kind: "history".into(), history: h.iter().map(|c| CALLS[*c].to_string()).collect(), results, fresh: h.iter().map(|c| fresh[*c].clone()).collect(), snaps, nested, inner, inner_fresh: inner_fresh.clone() });
    }
    let n = w.n;
    w.finish();
    println!("{}", serde_json::json!({"cases": histories.len(), "records": n, "nontrivial": nontrivial, "calls": CALLS, "samples": [{"call": "nested", "fresh": fresh[5]}, {"call": "nested-in-anchor", "fresh": fresh[6]}, {"call": "ok-shared", "fresh": fresh[0]}]}));
    0
}
