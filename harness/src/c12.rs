//! C12 — every scalar value survives serialization and deserialization unchanged.
//! cases (from MC_Quoting): {s:[symbolic chars]}; records (to TV_Quoting)
use crate::docgen::*;
use crate::model::*;
use crate::Args;
use serde::{Deserialize, Serialize};
use serde_saphyr::{FlowSeq, SerializerOptions};
use std::collections::BTreeMap;

#[derive(Deserialize)]
struct Case {
    s: Vec<String>,
}
pub fn sym_to_char(s: &str) -> char {
    match s {
        "SP" => ' ',
        "TAB" => '\t',
        "LF" => '\n',
        "CR" => '\r',
        "BOM" => '\u{FEFF}',
        "NEL" => '\u{85}',
        "LS" => '\u{2028}',
        "PS" => '\u{2029}',
        "C0" => '\u{7}',
        "C1" => '\u{9b}',
        "DEL" => '\u{7f}',
        "BS" => '\\',
        "NUL" => '\0',
        "ESC" => '\u{1b}',
        "NBSP" => '\u{a0}',
        other => other.chars().next().unwrap_or('?'),
    }
}
pub fn char_to_sym(c: char) -> String {
    match c {
        ' ' => "SP".into(),
        '\t' => "TAB".into(),
        '\n' => "LF".into(),
        '\r' => "CR".into(),
        '\u{FEFF}' => "BOM".into(),
        '\u{85}' => "NEL".into(),
        '\u{2028}' => "LS".into(),
        '\u{2029}' => "PS".into(),
        '\u{7}' => "C0".into(),
        '\u{9b}' => "C1".into(),
        '\u{7f}' => "DEL".into(),
        '\\' => "BS".into(),
        '\0' => "NUL".into(),
        '\u{1b}' => "ESC".into(),
        '\u{a0}' => "NBSP".into(),
        c => c.to_string(),
    }
}
pub fn to_syms(s: &str) -> Vec<String> {
    s.chars().map(char_to_sym).collect()
}

#[derive(Serialize, Deserialize, PartialEq, Debug)]
enum En {
    V(String),
}

#[derive(Serialize)]
struct Rec<'a> {
    id: String,
    kind: &'a str,
    s: Vec<String>,
    pos: &'a str,
    opt: &'a str,
    y12: bool,
    text: String,
    back: Vec<String>,
    plain: bool,
    /// for non-string kinds: textual form of the value and of what came back
    val: String,
    backval: String,
}

pub fn option_sets() -> Vec<(&'static str, SerializerOptions)> {
    let d = SerializerOptions::default();
    vec![
        ("default", d),
        ("quote_all", SerializerOptions { quote_all: true, ..d }),
        ("yaml_12", SerializerOptions { yaml_12: true, ..d }),
        ("no_block", SerializerOptions { prefer_block_scalars: false, ..d }),
        ("wrap2", SerializerOptions { folded_wrap_chars: 2, min_fold_chars: 1, ..d }),
        ("indent1", SerializerOptions { indent_step: 1, ..d }),
        ("indent5", SerializerOptions { indent_step: 5, ..d }),
        ("indent4_compact", SerializerOptions { indent_step: 4, compact_list_indent: true, ..d }),
    ]
}

fn ser<T: Serialize>(v: &T, o: SerializerOptions) -> Result<String, String> {
    // (a panic inside the serializer is data, not a harness failure)
    match std::panic::catch_unwind(std::panic::AssertUnwindSafe(|| serde_saphyr::to_string_with_options(v, o).map_err(|e| format!("{e}")))) {
        Ok(r) => r,
        Err(_) => Err("PANIC in serializer".to_string()),
    }
}

/// from_str with panics and errors turned into text (a panic inside the crate is data, not a harness failure)
fn fs<T: serde::de::DeserializeOwned>(t: &str) -> Result<T, String> {
    match std::panic::catch_unwind(|| serde_saphyr::from_str::<T>(t).map_err(|e| classify(&e))) {
        Ok(r) => r,
        Err(_) => Err("PANIC in deserializer".to_string()),
    }
}

/// serialize `s` at `pos` and read it back into the same type
pub fn roundtrip(s: &str, pos: &str, o: SerializerOptions) -> (String, Result<String, String>, bool) {
    let r: Result<(String, Result<String, String>, String), String> = guarded({
        let s = s.to_string();
        let pos = pos.to_string();
        move || match pos.as_str() {
            "root" => {
                let t = ser(&s, o).unwrap_or_else(|e| format!("SERERR {e}"));
                let b = serde_saphyr::from_str::<String>(&t).map_err(|e| classify(&e));
                (t, b, format!("{s}\n"))
            }
            "item" => {
                let t = ser(&vec![s.clone()], o).unwrap_or_else(|e| format!("SERERR {e}"));
                let b = serde_saphyr::from_str::<Vec<String>>(&t).map_err(|e| classify(&e)).and_then(|v| if v.len() == 1 { Ok(v[0].clone()) } else { Err(format!("len {}", v.len())) });
                (t, b, format!("- {s}\n"))
            }
            "value" => {
                let mut m = BTreeMap::new();
                m.insert("k".to_string(), s.clone());
                let t = ser(&m, o).unwrap_or_else(|e| format!("SERERR {e}"));
                let b = serde_saphyr::from_str::<BTreeMap<String, String>>(&t).map_err(|e| classify(&e)).and_then(|m| if m.len() == 1 { m.get("k").cloned().ok_or("key lost".to_string()) } else { Err(format!("entries {}", m.len())) });
                (t, b, format!("k: {s}\n"))
            }
            "key" => {
                let mut m = BTreeMap::new();
                m.insert(s.clone(), 1);
                let t = ser(&m, o).unwrap_or_else(|e| format!("SERERR {e}"));
                let b = serde_saphyr::from_str::<BTreeMap<String, i32>>(&t).map_err(|e| classify(&e)).and_then(|m| if m.len() == 1 { Ok(m.keys().next().unwrap().clone()) } else { Err(format!("entries {}", m.len())) });
                (t, b, format!("{s}: 1\n"))
            }
            "flow" => {
                let t = ser(&FlowSeq(vec![s.clone()]), o).unwrap_or_else(|e| format!("SERERR {e}"));
                let b = serde_saphyr::from_str::<Vec<String>>(&t).map_err(|e| classify(&e)).and_then(|v| if v.len() == 1 { Ok(v[0].clone()) } else { Err(format!("len {}", v.len())) });
                (t, b, format!("[{s}]\n"))
            }
            _ => {
                let t = ser(&En::V(s.clone()), o).unwrap_or_else(|e| format!("SERERR {e}"));
                let b = serde_saphyr::from_str::<En>(&t).map_err(|e| classify(&e)).map(|En::V(x)| x);
                (t, b, format!("V: {s}\n"))
            }
        }
    });
    match r {
        Ok((t, b, plain_form)) => {
            let body = t.strip_prefix("%YAML 1.2\n---\n").unwrap_or(&t);
            let plain = body == plain_form;
            (t, b, plain)
        }
        Err(p) => (String::new(), Err(format!("PANIC:{p}")), false),
    }
}

#[derive(Default, Serialize)]
struct Stats {
    cases: usize,
    records: usize,
    nontrivial: usize,
    float_shapes: usize,
    f32_patterns: u64,
    samples: Vec<serde_json::Value>,
}

const POSITIONS: [&str; 6] = ["root", "item", "value", "key", "flow", "payload"];

fn float_shape(t: &str) -> String {
    t.trim_end_matches('\n').chars().map(|c| match c {
        '0'..='9' => 'D',
        '+' | '-' => 'S',
        c => c,
    }).fold(String::new(), |mut acc, c| {
        if c == 'D' && acc.ends_with('D') { acc } else { acc.push(c); acc }
    })
}

pub fn run(args: &Args) -> i32 {
    let out = args.req("out");
    let mut w = NdWriter::create(out);
    let mut stats = Stats::default();
    let thorough = args.num("thorough", 0) == 1;
    let mut rng = Rng::new(args.num("seed", 1));
    let osets = option_sets();
    let mut strings: Vec<String> = vec![];
    if let Some(cases) = args.get("cases") {
        let cases: Vec<Case> = read_ndjson(cases);
        stats.cases = cases.len();
        for c in cases {
            strings.push(c.s.iter().map(|x| sym_to_char(x)).collect());
        }
    }
    let ncase = strings.len();
    // look-alikes of null / bool / number / merge key / document markers and other troublemakers
    for s in ["null", "Null", "NULL", "~", "true", "True", "FALSE", "yes", "No", "on", "OFF", "y", "N", "0", "-0", "007", "0x1f", "0o17", "0b1", "1e3", "1.5", ".5", "5.",
              "+1", "1_000", ".inf", "-.INF", ".NaN", "nan", "inf", "+inf", "-inf", "<<", "---", "...", "--- a", "... b", "---a", "- a", "? a", ": a", "a: b", "a:", "a #b",
              "a#b", "#a", "&a", "*a", "!a", "|", ">", "|-", "'a'", "\"a\"", "%a", "@a", "`a", "[a]", "{a}", "a,b", "a]", "a}", " a", "a ", " ", "\ta", "a\t", "a\nb", "a\n", "\na",
              "a\n\nb", "a\r\nb", "a\rb", "\u{FEFF}a", "a\u{FEFF}", "\u{FEFF}", "a\u{85}b", "a\u{2028}b", "a\u{2029}b", "\u{7}", "a\u{9b}b", "\u{7f}", "\\", "a\\nb", "\"", "'", "''",
              "é", "日本", "𝄞", "a\u{a0}", "\u{a0}a", "a  b", "a \n b", "  a\n", "a\n  b\n", "x: y: z", "- - a", "key: |", "2024-01-01", "12:30:45", "1:2", "=", "!!str", "a\0b", "\u{1b}[31m"] {
        strings.push(s.to_string());
    }
    // every letter-case variant of the words a reader may take for null, a boolean or a float (readers compare
    // these case-insensitively, so a writer that only knows the canonical spellings breaks the round trip)
    for wd in ["null", "true", "false", "yes", "no", "on", "off", "y", "n", ".nan", ".inf", "nan", "inf", "-.inf", "+.inf"] {
        let letters: Vec<usize> = wd.char_indices().filter(|(_, c)| c.is_ascii_alphabetic()).map(|(i, _)| i).collect();
        for mask in 0u32..(1 << letters.len()) {
            let mut b: Vec<u8> = wd.bytes().collect();
            for (k, &i) in letters.iter().enumerate() {
                if mask & (1 << k) != 0 { b[i] = b[i].to_ascii_uppercase(); }
            }
            strings.push(String::from_utf8(b).unwrap());
        }
    }
    // long strings (block scalar heuristics)
    strings.push("word ".repeat(30));
    strings.push("word ".repeat(30) + "\nsecond line\n");
    strings.push("x".repeat(200));
    strings.push(" leading space ".to_string() + &"long ".repeat(25));
    strings.push("line one\nline two \n".to_string());
    strings.push("a\nb ".to_string());
    strings.push("trailing\n\n\n".to_string());
    strings.push("  indented first line\nsecond\n".to_string());
    // long strings whose blanks come in runs (a folded scalar may only break at a blank and must keep the others), with runs
    // falling on and around the folding column
    for run in [2usize, 3, 5] {
        let gap = " ".repeat(run);
        strings.push(format!("word{gap}").repeat(30));
        strings.push(format!("w{gap}xy{gap}z ").repeat(25));
        for lead in [70usize, 76, 77, 78, 79, 80, 81, 82] {
            strings.push(format!("{}{gap}tail words go on and on for a while so that the line is folded again{gap}end", "a".repeat(lead)));
        }
    }
    // strings of blanks / line breaks only, short and beyond the folding width
    for n in [1usize, 2, 3, 5, 81, 90] {
        strings.push("\n".repeat(n));
        strings.push(" ".repeat(n));
        strings.push(" \n".repeat(n));
        strings.push("\n ".repeat(n));
        strings.push("\t".repeat(n));
        strings.push(format!("{}x", "\n".repeat(n)));
        strings.push(format!("x{}", "\n".repeat(n)));
    }
    let alphabet: Vec<char> = "an1~-.:#,<'?\"[]{}&*!|>%@`=+exy0_ \t\n\r\u{FEFF}\u{85}\u{2028}\u{7}\u{9b}\u{7f}\\é".chars().collect();
    let nrand = args.num("random", 0);
    for _ in 0..nrand {
        let n = 1 + rng.below(12);
        strings.push((0..n).map(|_| *rng.pick(&alphabet)).collect());
    }
    let mut seen = std::collections::HashSet::new();
    for (i, s) in strings.iter().enumerate() {
        if !seen.insert(s.clone()) {
            continue;
        }
        for pos in POSITIONS {
            for (oi, (oname, o)) in osets.iter().enumerate() {
                // TLC cases: all positions at default + rotating second option set; others: all
                if i < ncase && oi != 0 && oi != 1 + (i % (osets.len() - 1)) {
                    continue;
                }
                let (text, back, plain) = roundtrip(s, pos, *o);
                let backs = match &back {
                    Ok(b) => to_syms(b),
                    Err(e) => vec!["ERR".to_string(), e.clone()],
                };
                stats.nontrivial += 1;
                w.put(&Rec { id: format!("s{i}-{pos}-{oname}"), kind: "str", s: to_syms(s), pos, opt: oname, y12: o.yaml_12, text, back: backs, plain, val: String::new(), backval: String::new() });
            }
        }
        if stats.samples.len() < 4 && i > ncase && i % 29 == 0 {
            stats.samples.push(serde_json::json!({"s": s}));
        }
    }
    // integers: every width boundary
    macro_rules! ints {
        ($t:ty) => {
            for v in [<$t>::MIN, <$t>::MIN + 1, <$t>::MAX, <$t>::MAX - 1, 0 as $t, 1 as $t] {
                for pos in ["root", "value", "key"] {
                    let (text, back) = match pos {
                        "root" => { let t = ser(&v, SerializerOptions::default()).unwrap_or_default(); let b = fs::<$t>(&t).map(|x| x.to_string()).unwrap_or_else(|e| format!("ERR {}", e)); (t, b) }
                        "value" => { let mut m = BTreeMap::new(); m.insert("k".to_string(), v); let t = ser(&m, SerializerOptions::default()).unwrap_or_default();
                                     let b = fs::<BTreeMap<String, $t>>(&t).map(|m| m.get("k").map(|x| x.to_string()).unwrap_or_else(|| "ERR key-missing".to_string())).unwrap_or_else(|e| format!("ERR {}", e)); (t, b) }
                        _ => { let mut m = BTreeMap::new(); m.insert(v, 1u8); let t = ser(&m, SerializerOptions::default()).unwrap_or_default();
                               let b = fs::<BTreeMap<$t, u8>>(&t).map(|m| m.keys().next().map(|k| k.to_string()).unwrap_or_default()).unwrap_or_else(|e| format!("ERR {}", e)); (t, b) }
                    };
                    w.put(&Rec { id: format!("int-{}-{v}-{pos}", stringify!($t)), kind: "int", s: vec![], pos, opt: "default", y12: false, text, back: vec![], plain: false, val: v.to_string(), backval: back });
                }
            }
        };
    }
    ints!(i8); ints!(i16); ints!(i32); ints!(i64); ints!(i128); ints!(u8); ints!(u16); ints!(u32); ints!(u64); ints!(u128);
    // bool, char, unit, option
    for v in [true, false] {
        let t = ser(&v, SerializerOptions::default()).unwrap_or_default();
        let b = fs::<bool>(&t).map(|x| x.to_string()).unwrap_or_else(|e| format!("ERR {}", e));
        w.put(&Rec { id: format!("bool-{v}"), kind: "int", s: vec![], pos: "root", opt: "default", y12: false, text: t, back: vec![], plain: false, val: v.to_string(), backval: b });
    }
    for c in alphabet.iter().chain(['A', '0', '𝄞'].iter()) {
        for pos in ["root", "value"] {
            let (t, b) = if pos == "root" {
                let t = ser(c, SerializerOptions::default()).unwrap_or_default();
                let b = fs::<char>(&t).map(|x| x.to_string()).unwrap_or_else(|e| format!("ERR {}", e));
                (t, b)
            } else {
                let mut m = BTreeMap::new();
                m.insert("k".to_string(), *c);
                let t = ser(&m, SerializerOptions::default()).unwrap_or_default();
                let b = fs::<BTreeMap<String, char>>(&t).map(|m| m.get("k").map(|x| x.to_string()).unwrap_or_else(|| "ERR key-missing".to_string())).unwrap_or_else(|e| format!("ERR {}", e));
                (t, b)
            };
            w.put(&Rec { id: format!("char-{}-{pos}", *c as u32), kind: "int", s: vec![], pos, opt: "default", y12: false, text: t, back: vec![], plain: false, val: to_syms(&c.to_string()).join(""), backval: if b.starts_with("ERR") { b } else { to_syms(&b).join("") } });
        }
    }
    {
        let t = ser(&(), SerializerOptions::default()).unwrap_or_default();
        let b = fs::<()>(&t).map(|_| "()".to_string()).unwrap_or_else(|e| format!("ERR {}", e));
        w.put(&Rec { id: "unit".into(), kind: "int", s: vec![], pos: "root", opt: "default", y12: false, text: t, back: vec![], plain: false, val: "()".into(), backval: b });
        let v: Option<String> = None;
        let t = ser(&v, SerializerOptions::default()).unwrap_or_default();
        let b = fs::<Option<String>>(&t).map(|x| format!("{x:?}")).unwrap_or_else(|e| format!("ERR {}", e));
        w.put(&Rec { id: "none".into(), kind: "int", s: vec![], pos: "root", opt: "default", y12: false, text: t, back: vec![], plain: false, val: "None".into(), backval: b });
    }
    // byte arrays up to length 2 exhaustively (length 3 sampled)
    let mut bytes_cases: Vec<Vec<u8>> = vec![vec![]];
    for a in 0..=255u8 {
        bytes_cases.push(vec![a]);
    }
    for a in (0..=255u8).step_by(if thorough { 1 } else { 17 }) {
        for b in (0..=255u8).step_by(if thorough { 1 } else { 13 }) {
            bytes_cases.push(vec![a, b]);
        }
    }
    for _ in 0..200 {
        bytes_cases.push(vec![rng.next() as u8, rng.next() as u8, rng.next() as u8]);
    }
    for (i, bs) in bytes_cases.iter().enumerate() {
        let v = serde_bytes::ByteBuf::from(bs.clone());
        let t = ser(&v, SerializerOptions::default()).unwrap_or_default();
        let b = fs::<serde_bytes::ByteBuf>(&t).map(|x| hex(&x)).unwrap_or_else(|e| format!("ERR {}", e));
        w.put(&Rec { id: format!("bytes{i}"), kind: "int", s: vec![], pos: "root", opt: "default", y12: false, text: if i < 50 { t } else { String::new() }, back: vec![], plain: false, val: hex(bs), backval: b });
    }
    // floats: bit-for-bit, and the shape of every emitted text
    let mut shapes: BTreeMap<String, String> = BTreeMap::new();
    let mut bad_floats = 0usize;
    let mut check_f32 = |bits: u32, w: &mut NdWriter, shapes: &mut BTreeMap<String, String>, bad: &mut usize| {
        let v = f32::from_bits(bits);
        let t = match serde_saphyr::to_string(&v) { Ok(t) => t, Err(_) => { *bad += 1; return; } };
        let ok = match fs::<f32>(&t) {
            Ok(b) => b.to_bits() == bits || (b.is_nan() && v.is_nan()),
            Err(_) => false,
        };
        shapes.entry(float_shape(&t)).or_insert_with(|| t.clone());
        if !ok {
            *bad += 1;
            if *bad <= 20 {
                w.put(&Rec { id: format!("f32-{bits:08x}"), kind: "int", s: vec![], pos: "root", opt: "default", y12: false, text: t.clone(), back: vec![], plain: false,
                             val: format!("{bits:08x}"), backval: fs::<f32>(&t).map(|b| format!("{:08x}", b.to_bits())).unwrap_or_else(|e| format!("ERR {}", e)) });
            }
        }
    };
    if thorough {
        // all 2^32 bit patterns, on 16 threads; each keeps its own failures (first 20) and text shapes
        let parts: Vec<(usize, Vec<(u32, String)>, BTreeMap<String, String>)> = std::thread::scope(|sc| {
            let hs: Vec<_> = (0..16u64)
                .map(|k| {
                    sc.spawn(move || {
                        let (lo, hi) = (k << 28, ((k + 1) << 28) - 1);
                        let mut bad = 0usize;
                        let mut fails: Vec<(u32, String)> = vec![];
                        let mut shapes: BTreeMap<String, String> = BTreeMap::new();
                        let mut last_shape = String::new();
                        for b in lo..=hi {
                            let bits = b as u32;
                            let v = f32::from_bits(bits);
                            let t = match serde_saphyr::to_string(&v) { Ok(t) => t, Err(_) => { bad += 1; continue; } };
                            let ok = match fs::<f32>(&t) {
                                Ok(x) => x.to_bits() == bits || (x.is_nan() && v.is_nan()),
                                Err(_) => false,
                            };
                            let sh = float_shape(&t);
                            if sh != last_shape {
                                shapes.entry(sh.clone()).or_insert_with(|| t.clone());
                                last_shape = sh;
                            }
                            if !ok {
                                bad += 1;
                                if fails.len() < 20 { fails.push((bits, t)); }
                            }
                        }
                        (bad, fails, shapes)
                    })
                })
                .collect();
            hs.into_iter().map(|h| h.join().expect("f32 worker")).collect()
        });
        for (bad, fails, sh) in parts {
            bad_floats += bad;
            stats.f32_patterns += 1 << 28;
            for (k, v) in sh { shapes.entry(k).or_insert(v); }
            for (bits, t) in fails.into_iter().take(20) {
                w.put(&Rec { id: format!("f32-{bits:08x}"), kind: "int", s: vec![], pos: "root", opt: "default", y12: false, text: t.clone(), back: vec![], plain: false,
                             val: format!("{bits:08x}"), backval: fs::<f32>(&t).map(|b| format!("{:08x}", b.to_bits())).unwrap_or_else(|e| format!("ERR {}", e)) });
            }
        }
    } else {
        let step: u64 = 65_521;
        let mut b: u64 = 0;
        while b <= u32::MAX as u64 {
            check_f32(b as u32, &mut w, &mut shapes, &mut bad_floats);
            stats.f32_patterns += 1;
            b += step;
        }
    }
    for bits in [0u32, 0x8000_0000, 1, 0x007f_ffff, 0x0080_0000, 0x7f7f_ffff, 0x7f80_0000, 0xff80_0000, 0x7fc0_0000, 0x3f80_0000, 0x3f80_0001, 0x4b00_0000, 0x4b80_0000, 0x5f00_0000] {
        check_f32(bits, &mut w, &mut shapes, &mut bad_floats);
    }
    let mut f64s: Vec<u64> = vec![0, 1 << 63, 1, 0x000f_ffff_ffff_ffff, 0x0010_0000_0000_0000, 0x7fef_ffff_ffff_ffff, 0x7ff0_0000_0000_0000, 0xfff0_0000_0000_0000, 0x7ff8_0000_0000_0000,
                              0x3ff0_0000_0000_0000, 0x3ff0_0000_0000_0001, 0x4330_0000_0000_0000, 0x4340_0000_0000_0000, 0x43e0_0000_0000_0000];
    for _ in 0..(if thorough { 2_000_000 } else { 50_000 }) {
        f64s.push(rng.next());
    }
    for bits in f64s {
        let v = f64::from_bits(bits);
        let Ok(t) = serde_saphyr::to_string(&v) else { bad_floats += 1; continue };
        let back = fs::<f64>(&t);
        let ok = matches!(&back, Ok(b) if b.to_bits() == bits || (b.is_nan() && v.is_nan()));
        shapes.entry(float_shape(&t)).or_insert_with(|| t.clone());
        // also as a mapping value and read through the untyped tree: must stay a float, never a string/int
        if !ok {
            bad_floats += 1;
            if bad_floats <= 20 {
                w.put(&Rec { id: format!("f64-{bits:016x}"), kind: "int", s: vec![], pos: "root", opt: "default", y12: false, text: t, back: vec![], plain: false, val: format!("{bits:016x}"),
                             backval: back.map(|b| format!("{:016x}", b.to_bits())).unwrap_or_else(|e| format!("ERR {e}")) });
            }
        }
    }
    stats.float_shapes = shapes.len();
    for (shape, example) in &shapes {
        w.put(&Rec { id: format!("shape-{shape}"), kind: "fshape", s: shape.chars().map(|c| c.to_string()).collect(), pos: "root", opt: "default", y12: false, text: example.clone(), back: vec![], plain: false, val: String::new(), backval: String::new() });
    }
    stats.records = w.n;
    w.finish();
    println!("{}", serde_json::to_string(&stats).unwrap());
    0
}
