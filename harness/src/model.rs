//! Shared abstract model: events, node trees, renderers, render-check, untyped `Tree` target,
//! error classification. Mirrors spec/YamlModel.tla.
use saphyr_parser::{Event, Parser, ScalarStyle};
use serde::de::{self, DeserializeSeed, MapAccess, SeqAccess, Visitor};
use serde::{Deserialize, Serialize};
use std::fmt;

/// Abstract parser event (same record shape as in the TLA+ modules).
#[derive(Serialize, Deserialize, Clone, Debug, PartialEq, Eq, Default)]
pub struct AEv {
    pub k: String,
    #[serde(default)]
    pub a: u32,
    #[serde(default)]
    pub v: String,
    /// style: p plain, s single, d double, l literal, f folded
    #[serde(default = "plain")]
    pub q: String,
    /// tag ("" = none)
    #[serde(default)]
    pub t: String,
}
fn plain() -> String {
    "p".to_string()
}
impl AEv {
    pub fn new(k: &str, a: u32, v: &str, q: &str, t: &str) -> AEv {
        AEv { k: k.into(), a, v: v.into(), q: q.into(), t: t.into() }
    }
    pub fn is_start(&self) -> bool {
        self.k == "SS" || self.k == "MS"
    }
    pub fn is_end(&self) -> bool {
        self.k == "SE" || self.k == "ME"
    }
}

/// Uniform value record {c, s, a}.
#[derive(Serialize, Deserialize, Clone, Debug, PartialEq, Eq)]
pub struct N {
    pub c: String,
    pub s: String,
    pub a: Vec<N>,
}
impl N {
    pub fn new(c: &str, s: &str, a: Vec<N>) -> N {
        N { c: c.into(), s: s.into(), a }
    }
    pub fn leaf(c: &str, s: &str) -> N {
        N::new(c, s, vec![])
    }
    pub fn err() -> N {
        N::leaf("ERR", "")
    }
    pub fn errc(class: &str) -> N {
        N::leaf("ERR", class)
    }
    pub fn is_err(&self) -> bool {
        self.c == "ERR"
    }
}

// ------------------------------------------------------------------------------------------
// Node tree (for rendering)
// ------------------------------------------------------------------------------------------
#[derive(Clone, Debug)]
pub enum Node {
    Scalar { a: u32, v: String, q: String, t: String },
    Alias { a: u32 },
    Seq { a: u32, t: String, items: Vec<Node> },
    Map { a: u32, t: String, entries: Vec<(Node, Node)> },
}

/// Build node trees from a flat event list (one per top-level node).
pub fn nodes_from_events(evs: &[AEv]) -> Result<Vec<Node>, String> {
    let mut i = 0;
    let mut out = vec![];
    while i < evs.len() {
        let (n, j) = node_at(evs, i)?;
        out.push(n);
        i = j;
    }
    Ok(out)
}
fn node_at(evs: &[AEv], i: usize) -> Result<(Node, usize), String> {
    let e = evs.get(i).ok_or("eof in node")?;
    match e.k.as_str() {
        "S" => Ok((Node::Scalar { a: e.a, v: e.v.clone(), q: e.q.clone(), t: e.t.clone() }, i + 1)),
        "AL" => Ok((Node::Alias { a: e.a }, i + 1)),
        "SS" => {
            let mut items = vec![];
            let mut j = i + 1;
            loop {
                let x = evs.get(j).ok_or("eof in seq")?;
                if x.k == "SE" {
                    return Ok((Node::Seq { a: e.a, t: e.t.clone(), items }, j + 1));
                }
                let (n, k) = node_at(evs, j)?;
                items.push(n);
                j = k;
            }
        }
        "MS" => {
            let mut entries = vec![];
            let mut j = i + 1;
            loop {
                let x = evs.get(j).ok_or("eof in map")?;
                if x.k == "ME" {
                    return Ok((Node::Map { a: e.a, t: e.t.clone(), entries }, j + 1));
                }
                let (kn, k) = node_at(evs, j)?;
                let (vn, l) = node_at(evs, k)?;
                entries.push((kn, vn));
                j = l;
            }
        }
        other => Err(format!("unexpected event {other} at {i}")),
    }
}

/// Anchor naming: id -> name. `names[id]` when given, else "a<id>".
pub struct Names<'a>(pub Option<&'a [String]>);
impl Names<'_> {
    fn of(&self, id: u32) -> String {
        match self.0 {
            Some(ns) if (id as usize) < ns.len() && !ns[id as usize].is_empty() => ns[id as usize].clone(),
            _ => format!("a{id}"),
        }
    }
}

pub fn scalar_text(v: &str, q: &str) -> String {
    match q {
        "p" => v.to_string(),
        "s" => format!("'{}'", v.replace('\'', "''")),
        "d" => {
            let mut s = String::from("\"");
            for ch in v.chars() {
                match ch {
                    '"' => s.push_str("\\\""),
                    '\\' => s.push_str("\\\\"),
                    '\n' => s.push_str("\\n"),
                    '\t' => s.push_str("\\t"),
                    '\r' => s.push_str("\\r"),
                    c if (c as u32) < 0x20 || c as u32 == 0x7f => s.push_str(&format!("\\x{:02x}", c as u32)),
                    c if (0x80..0xa0).contains(&(c as u32)) => s.push_str(&format!("\\x{:02x}", c as u32)),
                    c => s.push(c),
                }
            }
            s.push('"');
            s
        }
        _ => v.to_string(),
    }
}

fn props(a: u32, t: &str, names: &Names) -> String {
    let mut s = String::new();
    if a != 0 {
        s.push('&');
        s.push_str(&names.of(a));
        s.push(' ');
    }
    if !t.is_empty() {
        s.push_str(t);
        s.push(' ');
    }
    s
}

/// Flow-style rendering of one node.
pub fn render_flow(n: &Node, names: &Names) -> String {
    match n {
        Node::Scalar { a, v, q, t } => {
            let mut s = props(*a, t, names);
            s.push_str(&scalar_text(v, q));
            if v.is_empty() && q == "p" {
                s.truncate(s.trim_end().len());
            }
            s
        }
        Node::Alias { a } => format!("*{}", names.of(*a)),
        Node::Seq { a, t, items } => {
            let inner: Vec<String> = items.iter().map(|x| render_flow(x, names)).collect();
            format!("{}[{}]", props(*a, t, names), inner.join(", "))
        }
        Node::Map { a, t, entries } => {
            let inner: Vec<String> = entries
                .iter()
                .map(|(k, v)| {
                    let simple = matches!(k, Node::Scalar { .. } | Node::Alias { .. });
                    let ks = render_flow(k, names);
                    let vs = render_flow(v, names);
                    if simple { format!("{ks} : {vs}") } else { format!("? {ks} : {vs}") }
                })
                .collect();
            format!("{}{{{}}}", props(*a, t, names), inner.join(", "))
        }
    }
}

fn is_inline(n: &Node) -> bool {
    match n {
        Node::Scalar { q, .. } => q != "l" && q != "f",
        Node::Alias { .. } => true,
        Node::Seq { items, .. } => items.is_empty(),
        Node::Map { entries, .. } => entries.is_empty(),
    }
}

/// Block-style rendering; returns text ending in newline.
pub fn render_block(n: &Node, names: &Names) -> String {
    let mut out = String::new();
    if is_inline(n) {
        out.push_str(&render_flow(n, names));
        out.push('\n');
    } else {
        let (a, t) = match n {
            Node::Seq { a, t, .. } | Node::Map { a, t, .. } => (*a, t.clone()),
            Node::Scalar { a, t, .. } => (*a, t.clone()),
            _ => (0, String::new()),
        };
        let p = props(a, &t, names);
        if let Node::Scalar { v, q, .. } = n {
            out.push_str(&format!("--- {}{}", p, block_scalar(v, q, 0)));
        } else {
            if !p.is_empty() {
                out.push_str(&format!("--- {}\n", p.trim_end()));
            }
            block_body(n, 0, names, &mut out);
        }
    }
    out
}

fn block_scalar(v: &str, q: &str, indent: usize) -> String {
    // literal/folded with explicit indentation indicator and keep chomping handled by caller's values:
    // only used for texts without trailing-newline subtleties (harness generators keep these simple).
    let ind = " ".repeat(indent + 2);
    let head = if q == "l" { "|" } else { ">" };
    let (body, chomp) = if let Some(b) = v.strip_suffix('\n') { (b, "") } else { (v, "-") };
    let mut s = format!("{head}2{chomp}\n");
    for line in body.split('\n') {
        if line.is_empty() {
            s.push('\n');
        } else {
            s.push_str(&ind);
            s.push_str(line);
            s.push('\n');
        }
    }
    s
}

/// after "- " or "key:" : either " inline\n" or " &props\n" + nested block at indent+2
fn block_value(n: &Node, indent: usize, names: &Names, out: &mut String, lead: &str) {
    if is_inline(n) {
        let s = render_flow(n, names);
        if s.is_empty() {
            out.push('\n');
        } else {
            out.push_str(lead);
            out.push_str(&s);
            out.push('\n');
        }
    } else {
        match n {
            Node::Scalar { a, v, q, t } => {
                out.push_str(lead);
                out.push_str(&props(*a, t, names));
                out.push_str(&block_scalar(v, q, indent));
            }
            Node::Seq { a, t, .. } | Node::Map { a, t, .. } => {
                let p = props(*a, t, names);
                if !p.is_empty() {
                    out.push_str(lead);
                    out.push_str(p.trim_end());
                }
                out.push('\n');
                block_body(n, indent + 2, names, out);
            }
            _ => unreachable!(),
        }
    }
}

fn block_body(n: &Node, indent: usize, names: &Names, out: &mut String) {
    let pad = " ".repeat(indent);
    match n {
        Node::Seq { items, .. } => {
            for it in items {
                out.push_str(&pad);
                out.push('-');
                block_value(it, indent, names, out, " ");
            }
        }
        Node::Map { entries, .. } => {
            for (k, v) in entries {
                let simple = match k {
                    Node::Scalar { q, v, .. } => q != "l" && q != "f" && !v.contains('\n'),
                    Node::Alias { .. } => true,
                    _ => false,
                };
                if simple {
                    out.push_str(&pad);
                    let ks = render_flow(k, names);
                    out.push_str(&ks);
                    out.push_str(if matches!(k, Node::Alias { .. }) || ks.is_empty() { " :" } else { ":" });
                    block_value(v, indent, names, out, " ");
                } else {
                    out.push_str(&pad);
                    out.push('?');
                    block_value(k, indent, names, out, " ");
                    out.push_str(&pad);
                    out.push(':');
                    block_value(v, indent, names, out, " ");
                }
            }
        }
        _ => unreachable!(),
    }
}

// ------------------------------------------------------------------------------------------
// Direct parse with saphyr-parser (independent raw event stream)
// ------------------------------------------------------------------------------------------
pub fn style_code(s: ScalarStyle) -> &'static str {
    match s {
        ScalarStyle::Plain => "p",
        ScalarStyle::SingleQuoted => "s",
        ScalarStyle::DoubleQuoted => "d",
        ScalarStyle::Literal => "l",
        ScalarStyle::Folded => "f",
    }
}

/// Raw events including DS/DE; `Err(n)` = scan error after n events were produced (events returned too).
pub fn raw_events(text: &str) -> (Vec<AEv>, bool) {
    let text = text.strip_prefix('\u{FEFF}').unwrap_or(text);
    let mut out = vec![];
    let parser = Parser::new_from_str(text);
    for item in parser {
        match item {
            Err(_) => return (out, true),
            Ok((ev, _span)) => match ev {
                Event::StreamStart | Event::StreamEnd | Event::Nothing => {}
                Event::DocumentStart(_) => out.push(AEv::new("DS", 0, "", "p", "")),
                Event::DocumentEnd => out.push(AEv::new("DE", 0, "", "p", "")),
                Event::Alias(id) => out.push(AEv::new("AL", id as u32, "", "p", "")),
                Event::Scalar(v, st, id, tag) => {
                    let t = tag.map(|t| format!("{}{}", t.handle, t.suffix)).unwrap_or_default();
                    out.push(AEv::new("S", id as u32, &v, style_code(st), &t))
                }
                Event::SequenceStart(id, tag) => {
                    let t = tag.map(|t| format!("{}{}", t.handle, t.suffix)).unwrap_or_default();
                    out.push(AEv::new("SS", id as u32, "", "p", &t))
                }
                Event::SequenceEnd => out.push(AEv::new("SE", 0, "", "p", "")),
                Event::MappingStart(id, tag) => {
                    let t = tag.map(|t| format!("{}{}", t.handle, t.suffix)).unwrap_or_default();
                    out.push(AEv::new("MS", id as u32, "", "p", &t))
                }
                Event::MappingEnd => out.push(AEv::new("ME", 0, "", "p", "")),
            },
        }
    }
    (out, false)
}

/// Start position (line, column as serde-saphyr reports them) of every content event of a text.
pub fn raw_positions(text: &str) -> Vec<(u64, u64)> {
    let text = text.strip_prefix('\u{FEFF}').unwrap_or(text);
    let mut out = vec![];
    for item in Parser::new_from_str(text) {
        let Ok((ev, span)) = item else { break };
        match ev {
            Event::StreamStart | Event::StreamEnd | Event::Nothing | Event::DocumentStart(_) | Event::DocumentEnd => {}
            _ => out.push((span.start.line() as u64, span.start.col() as u64 + 1)),
        }
    }
    out
}

/// (line, column) of an error, (0,0) when unknown.
pub fn err_loc(e: &serde_saphyr::Error) -> (u64, u64) {
    match e.location() {
        Some(l) => (l.line(), l.column()),
        None => (0, 0),
    }
}

/// All positions an error reports: primary, reference (use site), defined (definition site).
pub fn err_locs(e: &serde_saphyr::Error) -> Vec<(u64, u64)> {
    let mut v = vec![err_loc(e)];
    if let Some(ls) = e.locations() {
        v.push((ls.reference_location.line(), ls.reference_location.column()));
        v.push((ls.defined_location.line(), ls.defined_location.column()));
    }
    v
}

/// Content events of a single-document text (DS/DE stripped).
pub fn strip_doc_markers(evs: &[AEv]) -> Vec<AEv> {
    evs.iter().filter(|e| e.k != "DS" && e.k != "DE").cloned().collect()
}

/// Tag normalisation used by render-check: the parser expands "!!str" to handle "tag:yaml.org,2002:" + "str".
pub fn norm_tag(t: &str) -> String {
    if let Some(rest) = t.strip_prefix("tag:yaml.org,2002:") { format!("!!{rest}") } else { t.to_string() }
}

/// Render-check: the rendered text must parse (directly) to exactly the abstract events.
pub fn render_check(text: &str, want: &[AEv]) -> Result<(), String> {
    let (got, err) = raw_events(text);
    if err {
        return Err(format!("scan error after {} events; text={text:?}", got.len()));
    }
    let got = strip_doc_markers(&got);
    if got.len() != want.len() {
        return Err(format!("event count {} != {} text={text:?} got={got:?}", got.len(), want.len()));
    }
    for (i, (g, w)) in got.iter().zip(want.iter()).enumerate() {
        let same = g.k == w.k
            && g.a == w.a
            && (g.k != "S" || (g.v == w.v && g.q == w.q))
            && norm_tag(&g.t) == norm_tag(&w.t);
        if !same {
            return Err(format!("event {i} differs: got {g:?} want {w:?} text={text:?}"));
        }
    }
    Ok(())
}

// ------------------------------------------------------------------------------------------
// Untyped Tree target
// ------------------------------------------------------------------------------------------
#[derive(Clone, Debug, PartialEq)]
pub struct Tree(pub N);

pub fn hex(bytes: &[u8]) -> String {
    bytes.iter().map(|b| format!("{b:02x}")).collect()
}

struct TreeVisitor;
impl<'de> Visitor<'de> for TreeVisitor {
    type Value = Tree;
    fn expecting(&self, f: &mut fmt::Formatter) -> fmt::Result {
        f.write_str("any YAML value")
    }
    fn visit_bool<E>(self, v: bool) -> Result<Tree, E> {
        Ok(Tree(N::leaf("B", if v { "true" } else { "false" })))
    }
    fn visit_i64<E>(self, v: i64) -> Result<Tree, E> {
        Ok(Tree(N::leaf("I", &v.to_string())))
    }
    fn visit_u64<E>(self, v: u64) -> Result<Tree, E> {
        Ok(Tree(N::leaf("I", &v.to_string())))
    }
    fn visit_i128<E>(self, v: i128) -> Result<Tree, E> {
        Ok(Tree(N::leaf("I", &v.to_string())))
    }
    fn visit_u128<E>(self, v: u128) -> Result<Tree, E> {
        Ok(Tree(N::leaf("I", &v.to_string())))
    }
    fn visit_f64<E>(self, v: f64) -> Result<Tree, E> {
        Ok(Tree(N::leaf("F", &format!("{:016x}", v.to_bits()))))
    }
    fn visit_str<E>(self, v: &str) -> Result<Tree, E> {
        Ok(Tree(N::leaf("S", v)))
    }
    fn visit_bytes<E>(self, v: &[u8]) -> Result<Tree, E> {
        Ok(Tree(N::leaf("Bytes", &hex(v))))
    }
    fn visit_unit<E>(self) -> Result<Tree, E> {
        Ok(Tree(N::leaf("N", "")))
    }
    fn visit_none<E>(self) -> Result<Tree, E> {
        Ok(Tree(N::leaf("N", "")))
    }
    fn visit_some<D: de::Deserializer<'de>>(self, d: D) -> Result<Tree, D::Error> {
        Tree::deserialize(d)
    }
    fn visit_newtype_struct<D: de::Deserializer<'de>>(self, d: D) -> Result<Tree, D::Error> {
        Tree::deserialize(d)
    }
    fn visit_seq<A: SeqAccess<'de>>(self, mut seq: A) -> Result<Tree, A::Error> {
        let mut items = vec![];
        while let Some(Tree(n)) = seq.next_element()? {
            items.push(n);
        }
        Ok(Tree(N::new("Seq", "", items)))
    }
    fn visit_map<A: MapAccess<'de>>(self, mut map: A) -> Result<Tree, A::Error> {
        let mut items = vec![];
        while let Some(Tree(k)) = map.next_key()? {
            let Tree(v) = map.next_value()?;
            items.push(N::new("P", "", vec![k, v]));
        }
        Ok(Tree(N::new("Map", "", items)))
    }
}
impl<'de> Deserialize<'de> for Tree {
    fn deserialize<D: de::Deserializer<'de>>(d: D) -> Result<Tree, D::Error> {
        d.deserialize_any(TreeVisitor)
    }
}
pub struct TreeSeed;
impl<'de> DeserializeSeed<'de> for TreeSeed {
    type Value = Tree;
    fn deserialize<D: de::Deserializer<'de>>(self, d: D) -> Result<Tree, D::Error> {
        Tree::deserialize(d)
    }
}

// ------------------------------------------------------------------------------------------
// Error classification (DESIGN.md appendix D)
// ------------------------------------------------------------------------------------------
pub fn classify(e: &serde_saphyr::Error) -> String {
    use serde_saphyr::Error as E;
    let e = e.without_snippet();
    match e {
        E::ExternalMessage { .. } => "Syntax".into(),
        E::FoldedBlockScalarMustIndentContent { .. } => "Syntax".into(),
        E::Budget { breach, .. } => format!("Budget:{}", breach_name(breach)),
        E::AliasReplayLimitExceeded { .. } => "AliasLimit:total".into(),
        E::AliasExpansionLimitExceeded { .. } => "AliasLimit:per_anchor".into(),
        E::AliasReplayStackDepthExceeded { .. } => "AliasLimit:stack".into(),
        E::AliasReplayCounterOverflow { .. } => "AliasLimit:overflow".into(),
        E::UnknownAnchor { .. } => "AnchorUse:unknown".into(),
        E::RecursiveReferencesRequireWeakTypes { .. } => "AnchorUse:recursive".into(),
        E::DuplicateMappingKey { .. } => "DuplicateKey".into(),
        E::MergeValueNotMapOrSeqOfMaps { .. } => "MergeValue".into(),
        E::MultipleDocuments { .. } => "MultipleDocuments".into(),
        E::IOError { .. } => "Io".into(),
        E::InvalidUtf8Input => "Io:utf8".into(),
        E::ValidationError { .. } | E::ValidationErrors { .. } => "Validation".into(),
        E::ValidatorError { .. } | E::ValidatorErrors { .. } => "Validation".into(),
        E::AliasError { msg, .. } => {
            let m = msg.to_ascii_lowercase();
            if m.starts_with("duplicate mapping key") {
                "DuplicateKey".into()
            } else if m.contains("merge value") {
                "MergeValue".into()
            } else if m.contains("budget") {
                "Budget:wrapped".into()
            } else {
                format!("Alias:{}", first_word(msg))
            }
        }
        E::Eof { .. } => "Type:Eof".into(),
        other => {
            let d = format!("{other:?}");
            let name: String = d.chars().take_while(|c| c.is_alphanumeric()).collect();
            format!("Type:{name}")
        }
    }
}
fn first_word(s: &str) -> String {
    s.split_whitespace().take(3).collect::<Vec<_>>().join("_")
}
pub fn breach_name(b: &serde_saphyr::budget::BudgetBreach) -> String {
    let d = format!("{b:?}");
    d.chars().take_while(|c| c.is_alphanumeric()).collect()
}

/// Broad class (prefix before ':')
pub fn broad(c: &str) -> &str {
    c.split(':').next().unwrap_or(c)
}

// ------------------------------------------------------------------------------------------
// Small deterministic PRNG (splitmix64)
// ------------------------------------------------------------------------------------------
pub struct Rng(pub u64);
impl Rng {
    pub fn new(seed: u64) -> Rng {
        Rng(seed ^ 0x9e3779b97f4a7c15)
    }
    pub fn next(&mut self) -> u64 {
        self.0 = self.0.wrapping_add(0x9e3779b97f4a7c15);
        let mut z = self.0;
        z = (z ^ (z >> 30)).wrapping_mul(0xbf58476d1ce4e5b9);
        z = (z ^ (z >> 27)).wrapping_mul(0x94d049bb133111eb);
        z ^ (z >> 31)
    }
    pub fn below(&mut self, n: usize) -> usize {
        if n == 0 { 0 } else { (self.next() % n as u64) as usize }
    }
    pub fn chance(&mut self, num: usize, den: usize) -> bool {
        self.below(den) < num
    }
    pub fn pick_str(&mut self, xs: &[&'static str]) -> &'static str {
        xs[self.below(xs.len())]
    }
    pub fn pick<'a, T>(&mut self, xs: &'a [T]) -> &'a T {
        &xs[self.below(xs.len())]
    }
}

/// Run `f` catching panics; a panic is data.
pub fn guarded<T>(f: impl FnOnce() -> T + std::panic::UnwindSafe) -> Result<T, String> {
    match std::panic::catch_unwind(f) {
        Ok(v) => Ok(v),
        Err(p) => {
            let msg = if let Some(s) = p.downcast_ref::<&str>() {
                s.to_string()
            } else if let Some(s) = p.downcast_ref::<String>() {
                s.clone()
            } else {
                "panic".to_string()
            };
            Err(msg)
        }
    }
}

/// Flatten a node tree back to events.
pub fn events_from_node(n: &Node, out: &mut Vec<AEv>) {
    match n {
        Node::Scalar { a, v, q, t } => out.push(AEv::new("S", *a, v, q, t)),
        Node::Alias { a } => out.push(AEv::new("AL", *a, "", "p", "")),
        Node::Seq { a, t, items } => {
            out.push(AEv::new("SS", *a, "", "p", t));
            for i in items {
                events_from_node(i, out);
            }
            out.push(AEv::new("SE", 0, "", "p", ""));
        }
        Node::Map { a, t, entries } => {
            out.push(AEv::new("MS", *a, "", "p", t));
            for (k, v) in entries {
                events_from_node(k, out);
                events_from_node(v, out);
            }
            out.push(AEv::new("ME", 0, "", "p", ""));
        }
    }
}

// ---- validation issues as printed by Display (used by c17 and c18) ----
#[derive(Serialize, Clone, PartialEq, Eq, PartialOrd, Ord)]
pub struct IssueLc {
    pub path: String,
    pub uline: i64,
    pub ucol: i64,
    pub dline: i64,
    pub dcol: i64,
}
fn num_after(s: &str, key: &str) -> Option<(i64, usize)> {
    let i = s.find(key)? + key.len();
    let digits: String = s[i..].chars().take_while(|c| c.is_ascii_digit()).collect();
    digits.parse().ok().map(|n| (n, i + digits.len()))
}
/// `... line L, column C` / `line L column C` at or after `from`
fn line_col(s: &str) -> Option<(i64, i64)> {
    let (l, e) = num_after(s, "line ")?;
    let (c, _) = num_after(&s[e..], "column ")?;
    Some((l, c))
}
/// issues as printed without snippets: `validation error at PATH: MSG at line L, column C`
pub fn issues_plain(text: &str) -> Vec<IssueLc> {
    let mut out = vec![];
    for l in text.lines() {
        if let Some(rest) = l.strip_prefix("validation error at ") {
            let Some(ci) = rest.find(": ") else { continue };
            let path = rest[..ci].to_string();
            let Some(ai) = rest.rfind(" at line ") else { continue };
            if let Some((ln, c)) = line_col(&rest[ai..]) { out.push(IssueLc { path, uline: ln, ucol: c, dline: ln, dcol: c }); }
        }
    }
    out
}
/// issues as printed with snippets: a headline (or plain fallback line) per issue naming the path and the use site,
/// optionally followed by "... the anchor at line L column C" for the definition site
pub fn issues_snippet(text: &str) -> Vec<IssueLc> {
    let mut out: Vec<IssueLc> = vec![];
    for l in text.lines() {
        let t = l.trim_start();
        if t.starts_with('|') || t.chars().next().map(|c| c.is_ascii_digit()).unwrap_or(false) || t.starts_with("-->") {
            // window lines; the definition-site sentence is printed inside the gutter
            if let Some(i) = t.find("from the anchor at ") {
                if let (Some((ln, c)), Some(last)) = (line_col(&t[i..]), out.last_mut()) { last.dline = ln; last.dcol = c; }
            }
            continue;
        }
        if t.starts_with("validation error at ") {
            // no snippet available (reader entry points): the plain form
            out.extend(issues_plain(t));
            continue;
        }
        if let (Some(vi), Some(fi)) = (t.find("validation error: "), t.rfind(" for `")) {
            if fi < vi { continue; }
            let after = &t[fi + 6..];
            let Some(bi) = after.find('`') else { continue };
            let path = after[..bi].to_string();
            // use site: in the headline before the message, or as a suffix of the fallback line
            let lc = if t.starts_with("error: ") { line_col(&t[..vi]) } else { line_col(&after[bi..]) };
            if let Some((ln, c)) = lc { out.push(IssueLc { path, uline: ln, ucol: c, dline: ln, dcol: c }); }
        }
    }
    out
}

