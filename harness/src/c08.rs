//! C08 — expansion work and memory are bounded by the budget and alias limits.
//! records (to TV_Bounds): kind "limits" (raw events + tightened alias limits) and kind "family" (attack families, observers)
use crate::c07::{full_raw, BEv};
use crate::docgen::*;
use crate::model::*;
use crate::Args;
use serde::Serialize;
use std::alloc::{GlobalAlloc, Layout, System};
use std::sync::atomic::{AtomicUsize, Ordering};

pub struct Counting;
static CUR: AtomicUsize = AtomicUsize::new(0);
static PEAK: AtomicUsize = AtomicUsize::new(0);
unsafe impl GlobalAlloc for Counting {
    unsafe fn alloc(&self, l: Layout) -> *mut u8 {
        let p = unsafe { System.alloc(l) };
        if !p.is_null() {
            let c = CUR.fetch_add(l.size(), Ordering::Relaxed) + l.size();
            PEAK.fetch_max(c, Ordering::Relaxed);
        }
        p
    }
    unsafe fn dealloc(&self, p: *mut u8, l: Layout) {
        unsafe { System.dealloc(p, l) };
        CUR.fetch_sub(l.size(), Ordering::Relaxed);
    }
    unsafe fn realloc(&self, p: *mut u8, l: Layout, new: usize) -> *mut u8 {
        let q = unsafe { System.realloc(p, l, new) };
        if !q.is_null() {
            if new >= l.size() {
                let c = CUR.fetch_add(new - l.size(), Ordering::Relaxed) + (new - l.size());
                PEAK.fetch_max(c, Ordering::Relaxed);
            } else {
                CUR.fetch_sub(l.size() - new, Ordering::Relaxed);
            }
        }
        q
    }
}
/// peak heap growth (bytes above the level at entry) while `f` runs
pub fn measure<T>(f: impl FnOnce() -> T) -> (T, usize) {
    let base = CUR.load(Ordering::Relaxed);
    PEAK.store(base, Ordering::Relaxed);
    let r = f();
    let peak = PEAK.load(Ordering::Relaxed);
    (r, peak.saturating_sub(base))
}

/// a target that counts the nodes it is handed and keeps nothing
pub struct CountNodes(pub usize);
impl<'de> serde::Deserialize<'de> for CountNodes {
    fn deserialize<D: serde::de::Deserializer<'de>>(d: D) -> Result<CountNodes, D::Error> {
        struct V;
        impl<'de> serde::de::Visitor<'de> for V {
            type Value = CountNodes;
            fn expecting(&self, f: &mut std::fmt::Formatter) -> std::fmt::Result {
                f.write_str("anything")
            }
            fn visit_bool<E>(self, _: bool) -> Result<CountNodes, E> { Ok(CountNodes(1)) }
            fn visit_i64<E>(self, _: i64) -> Result<CountNodes, E> { Ok(CountNodes(1)) }
            fn visit_u64<E>(self, _: u64) -> Result<CountNodes, E> { Ok(CountNodes(1)) }
            fn visit_f64<E>(self, _: f64) -> Result<CountNodes, E> { Ok(CountNodes(1)) }
            fn visit_str<E>(self, _: &str) -> Result<CountNodes, E> { Ok(CountNodes(1)) }
            fn visit_unit<E>(self) -> Result<CountNodes, E> { Ok(CountNodes(1)) }
            fn visit_seq<A: serde::de::SeqAccess<'de>>(self, mut s: A) -> Result<CountNodes, A::Error> {
                let mut n = 1;
                while let Some(c) = s.next_element::<CountNodes>()? { n += c.0; }
                Ok(CountNodes(n))
            }
            fn visit_map<A: serde::de::MapAccess<'de>>(self, mut m: A) -> Result<CountNodes, A::Error> {
                let mut n = 1;
                while let Some(k) = m.next_key::<CountNodes>()? { n += k.0; n += m.next_value::<CountNodes>()?.0; }
                Ok(CountNodes(n))
            }
        }
        d.deserialize_any(V)
    }
}

#[derive(Serialize, Clone, Copy)]
struct AL {
    total: i64,
    per: i64,
    stack: i64,
}
#[derive(Serialize)]
struct Rec {
    id: String,
    kind: String,
    raw: Vec<BEv>,
    lim: AL,
    res: String,
    nodes: usize,
    family: String,
    params: Vec<usize>,
    nodes_expected: usize,
    max_nodes: usize,
    must_fail: bool,
    peak: usize,
    input_bytes: usize,
    counted_events: usize,
}
fn big(x: i64) -> usize {
    if x < 0 { usize::MAX / 4 } else { x as usize }
}
fn res_of(e: &serde_saphyr::Error) -> String {
    let c = classify(e);
    match c.as_str() {
        "AliasLimit:total" => "total".into(),
        "AliasLimit:per_anchor" => "per_anchor".into(),
        "AliasLimit:stack" => "stack".into(),
        _ => {
            if let serde_saphyr::Error::AliasError { msg, .. } = e.without_snippet() {
                let m = msg.to_ascii_lowercase();
                if m.contains("replay") && m.contains("limit") { return "total".into(); }
            }
            format!("o:{c}")
        }
    }
}
fn run_limits(text: &str, l: AL, max_nodes: usize, report: Option<&std::rc::Rc<std::cell::Cell<usize>>>) -> (String, usize) {
    let mut o = serde_saphyr::Options::default();
    o.duplicate_keys = serde_saphyr::options::DuplicateKeyPolicy::LastWins;
    o.alias_limits.max_total_replayed_events = big(l.total);
    o.alias_limits.max_alias_expansions_per_anchor = big(l.per);
    o.alias_limits.max_replay_stack_depth = big(l.stack);
    let mut b = serde_saphyr::Budget::default();
    b.enforce_alias_anchor_ratio = false;
    b.max_nodes = max_nodes;
    b.max_events = usize::MAX / 4;
    b.max_aliases = usize::MAX / 4;
    o.budget = Some(b);
    let o = if let Some(c) = report {
        let c2 = c.clone();
        o.with_budget_report(move |r| c2.set(r.events))
    } else {
        o
    };
    match std::panic::catch_unwind(std::panic::AssertUnwindSafe(|| serde_saphyr::from_str_with_options::<CountNodes>(text, o))) {
        Ok(Ok(c)) => ("ok".into(), c.0),
        Ok(Err(e)) => (res_of(&e), 0),
        Err(_) => ("PANIC".into(), 0),
    }
}

// ---------------- attack families (text + closed forms) ----------------
/// fan-out^levels alias bomb; returns (text, nodes delivered if fully expanded)
fn bomb(fanout: usize, levels: usize) -> (String, usize) {
    let mut t = String::from("a0: &a0 [x]\n");
    // nodes of a_i when expanded: n0 = 2 (seq + scalar); n_i = 1 + fanout * n_{i-1}
    let mut n = 2usize;
    let mut total_nodes = 1 + 1 + n; // root map + key + a0
    for i in 1..=levels {
        let items: Vec<String> = (0..fanout).map(|_| format!("*a{}", i - 1)).collect();
        t.push_str(&format!("a{i}: &a{i} [{}]\n", items.join(", ")));
        n = 1usize.saturating_add(fanout.saturating_mul(n));
        total_nodes = total_nodes.saturating_add(1).saturating_add(n);
    }
    (t, total_nodes)
}
/// chain: a1 = [x], a_{i+1} = [*a_i] : linear
fn chain(n: usize) -> (String, usize) {
    let mut t = String::from("- &c0 [x]\n");
    let mut size = 2usize;
    let mut total = 1 + size;
    for i in 1..=n {
        t.push_str(&format!("- &c{i} [*c{}]\n", i - 1));
        size += 1;
        total += size;
    }
    (t, total)
}
/// anchors nested d deep around n scalars, no alias at all
fn nested(d: usize, n: usize) -> (String, usize) {
    let mut t = String::new();
    for i in 0..d {
        t.push_str(&format!("&n{i} ["));
    }
    let items: Vec<&str> = (0..n).map(|_| "1").collect();
    t.push_str(&items.join(","));
    for _ in 0..d {
        t.push(']');
    }
    t.push('\n');
    (t, d + n)
}
/// flat document (calibration of the heap constant)
fn flat(n: usize) -> (String, usize) {
    let items: Vec<String> = (0..n).map(|i| format!("k{i}: v{i}")).collect();
    (items.join("\n") + "\n", 1 + 2 * n)
}
/// one anchored mapping merged w times
fn wide_merge(w: usize) -> (String, usize) {
    let mut t = String::from("base: &b {p: 1, q: 2}\nitems:\n");
    for i in 0..w {
        t.push_str(&format!("  - {{<<: *b, i: {i}}}\n"));
    }
    // root map(1) + "base"(1) + map(1)+4 + "items"(1) + seq(1) + per item: map(1) + merged p,q (4) + i (2)  [the << key itself is not delivered]
    (t, 1 + 1 + 5 + 1 + 1 + w * 7)
}

#[derive(Default, Serialize)]
struct Stats {
    records: usize,
    nontrivial: usize,
    samples: Vec<serde_json::Value>,
}

pub fn run(args: &Args) -> i32 {
    let out = args.req("out");
    let mut w = NdWriter::create(out);
    let mut stats = Stats::default();
    let thorough = args.num("thorough", 0) == 1;
    let mut rng = Rng::new(args.num("seed", 1));
    let unl = AL { total: -1, per: -1, stack: -1 };
    // (1) random and enumerated small documents under tightened alias limits: decided from raw events by Bounds!FirstTrip
    let g = DocGen {
        max_events: 30,
        max_depth: 4,
        scalars: sv(&[("x", "p"), ("1", "p"), ("w", "p")]),
        key_scalars: sv(&[("a", "p"), ("b", "p"), ("c", "p"), ("d", "p"), ("e", "p")]),
        names: 3,
        p_anchor: (1, 2),
        p_alias: (1, 2),
        container_keys: false,
    };
    let nrand = args.num("random", 300);
    for i in 0..nrand {
        let (doc, idname, text) = if i % 3 == 2 {
            // interleaved uses of 2-3 anchors: the per-anchor counters must be independent of each other
            let na = 2 + rng.below(2);
            let mut items: Vec<String> = (0..na).map(|j| format!("&q{j} [v{j}]")).collect();
            let mut doc = vec![AEv::new("AL", 1, "", "p", "")];
            for _ in 0..(4 + rng.below(7)) {
                items.push(format!("*q{}", rng.below(na)));
            }
            doc.clear();
            doc.push(AEv::new("AL", 1, "", "p", ""));
            (doc, vec![], format!("[{}]\n", items.join(", ")))
        } else {
            let (doc, idname) = g.generate(&mut rng);
            if !doc.iter().any(|e| e.k == "AL") {
                continue;
            }
            let nodes = nodes_from_events(&doc).unwrap();
            let text = format!("{}\n", render_flow(&nodes[0], &Names(Some(&idname))));
            (doc, idname, text)
        };
        let _ = &idname;
        let Some(raw) = full_raw(&text) else { continue };
        stats.nontrivial += 1;
        // limits around the document's own numbers
        let (_, _) = run_limits(&text, unl, usize::MAX / 4, None);
        let naliases = doc.iter().filter(|e| e.k == "AL").count() as i64;
        for lim in [unl, AL { total: 0, ..unl }, AL { total: 1, ..unl }, AL { total: 2, ..unl }, AL { total: 5, ..unl }, AL { total: 12, ..unl }, AL { per: 0, ..unl },
                    AL { per: 1, ..unl }, AL { per: 2, ..unl }, AL { stack: 0, ..unl }, AL { stack: 1, ..unl }, AL { total: 3 * naliases, per: 2, stack: 1 }] {
            let (res, nodes) = run_limits(&text, lim, usize::MAX / 4, None);
            let lim_t = AL { total: if lim.total < 0 { 1 << 30 } else { lim.total }, per: if lim.per < 0 { 1 << 30 } else { lim.per }, stack: if lim.stack < 0 { 1 << 30 } else { lim.stack } };
            w.put(&Rec { id: format!("r{i}-t{}p{}s{}", lim.total, lim.per, lim.stack), kind: "limits".into(), raw: raw.clone(), lim: lim_t, res, nodes, family: String::new(), params: vec![],
                         nodes_expected: 0, max_nodes: 0, must_fail: false, peak: 0, input_bytes: text.len(), counted_events: 0 });
        }
        if stats.samples.len() < 3 {
            stats.samples.push(serde_json::json!({"yaml": text}));
        }
    }
    // (2) attack families over the parameter grid, default limits and tightened node budget
    let mut fam = |name: &str, params: Vec<usize>, text: String, nodes_expected: usize, max_nodes: usize, lim: AL, w: &mut NdWriter, replayed_over_default: bool| {
        let cell = std::rc::Rc::new(std::cell::Cell::new(0usize));
        let ((res, nodes), peak) = measure(|| run_limits(&text, lim, max_nodes, Some(&cell)));
        // what the budget counted (events incl. replay) if the parse finished; otherwise bounded by the limits that stopped it
        let counted = if res == "ok" { cell.get() } else { (big(lim.total)).min(1_000_000) + text.len() };
        let must_fail = nodes_expected > max_nodes || replayed_over_default;
        w.put(&Rec { id: format!("{name}-{params:?}-n{max_nodes}"), kind: "family".into(), raw: vec![], lim: AL { total: 0, per: 0, stack: 0 }, res, nodes, family: name.into(), params,
                     nodes_expected, max_nodes, must_fail, peak, input_bytes: text.len(), counted_events: counted });
    };
    let def = AL { total: 1_000_000, per: -1, stack: 64 };
    let (fmax, lmax) = if thorough { (10, 8) } else { (6, 6) };
    for fanout in [2usize, 3, 5, fmax] {
        for levels in 1..=lmax {
            let (t, n) = bomb(fanout, levels);
            // replayed events ~ 2 * expanded nodes: over the default total-replayed limit?
            let over = n > 400_000;
            fam("bomb", vec![fanout, levels], t.clone(), n, 250_000, def, &mut w, over);
            if n < 100_000 {
                fam("bomb", vec![fanout, levels], t, n, n / 2, def, &mut w, false);
            }
        }
    }
    for n in [1usize, 10, 100, if thorough { 1000 } else { 300 }] {
        let (t, total) = chain(n);
        fam("chain", vec![n], t.clone(), total, 250_000, def, &mut w, false);
        fam("chain", vec![n], t, total, total - 1, def, &mut w, false);
    }
    for n in [10usize, 1000, if thorough { 50_000 } else { 10_000 }] {
        let (t, total) = flat(n);
        fam("flat", vec![n], t, total, 250_000, def, &mut w, false);
    }
    for wd in [1usize, 10, 100, if thorough { 5000 } else { 1000 }] {
        let (t, total) = wide_merge(wd);
        fam("wide_merge", vec![wd], t, total, 250_000, def, &mut w, false);
    }
    let dmax = if thorough { 200 } else { 100 };
    for d in [1usize, 10, 50, dmax] {
        for n in [10usize, 1000, if thorough { 20_000 } else { 5000 }] {
            let (t, total) = nested(d, n);
            fam("nested", vec![d, n], t, total, 250_000, def, &mut w, false);
        }
    }
    stats.records = w.n;
    w.finish();
    stats.samples.push(serde_json::json!({"family": "bomb", "params": [3, 4], "text": bomb(3, 2).0}));
    stats.samples.push(serde_json::json!({"family": "nested", "params": [3, 4], "text": nested(3, 4).0}));
    println!("{}", serde_json::to_string(&stats).unwrap());
    0
}
