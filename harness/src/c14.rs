//! C14 — shared-pointer topology survives the round trip.  C15 — a call's result depends only on its arguments.
use crate::docgen::*;
use crate::model::*;
use crate::Args;
use serde::{Deserialize, Serialize};
use serde_saphyr::{ArcAnchor, ArcWeakAnchor, RcAnchor, RcRecursion, RcRecursive, RcWeakAnchor};
use std::collections::BTreeMap;
use std::rc::Rc;
use std::sync::Arc;

#[derive(Deserialize, Clone)]
struct FieldSpec {
    k: String,
    n: usize,
}
#[derive(Deserialize)]
struct Case {
    fields: Vec<FieldSpec>,
}
#[derive(Serialize, Deserialize, Debug, PartialEq)]
struct Payload {
    id: usize,
    tags: Vec<String>,
}
#[derive(Serialize, Deserialize)]
enum RcField {
    S(RcAnchor<Payload>),
    W(RcWeakAnchor<Payload>),
}
#[derive(Serialize, Deserialize)]
enum ArcField {
    S(ArcAnchor<Payload>),
    W(ArcWeakAnchor<Payload>),
}
#[derive(Serialize, Deserialize)]
struct RcStruct {
    f0: RcField,
    f1: Option<RcField>,
    f2: Option<RcField>,
    f3: Option<RcField>,
    f4: Option<RcField>,
}

/// nested sharing: nodes own strong / weak references to other nodes (a DAG), so a shared node can be defined inside
/// another anchored node and be referenced again after that outer node is complete
#[derive(Serialize, Deserialize)]
struct RcNd {
    id: usize,
    kids: Vec<RcRef>,
}
#[derive(Serialize, Deserialize)]
enum RcRef {
    S(RcAnchor<RcNd>),
    W(RcWeakAnchor<RcNd>),
}
#[derive(Serialize, Deserialize)]
struct ArcNd {
    id: usize,
    kids: Vec<ArcRef>,
}
#[derive(Serialize, Deserialize)]
enum ArcRef {
    S(ArcAnchor<ArcNd>),
    W(ArcWeakAnchor<ArcNd>),
}
/// kid lists per allocation (index 0 = the root list); entries (weak?, target allocation >= 1); targets of allocation a are < a
type DagSpec = Vec<Vec<(bool, usize)>>;
fn gen_dag(rng: &mut Rng) -> DagSpec {
    let n = 2 + rng.below(5);
    let mut spec: DagSpec = vec![vec![]; n + 1];
    for a in 2..=n {
        for _ in 0..rng.below(3) {
            spec[a].push((false, 1 + rng.below(a - 1)));
        }
    }
    for _ in 0..1 + rng.below(4) {
        spec[0].push((false, 1 + rng.below(n)));
    }
    spec
}
/// the edge list in serialization (depth-first) order, children visited at the first sight of an allocation; weak edges
/// are added only to allocations already seen
fn dag_edges(spec: &DagSpec, rng: &mut Rng) -> (Vec<FieldSpec>, DagSpec) {
    let mut spec = spec.clone();
    let mut seen: Vec<usize> = vec![];
    let mut out: Vec<FieldSpec> = vec![];
    fn visit(list: usize, spec: &mut DagSpec, seen: &mut Vec<usize>, out: &mut Vec<FieldSpec>, rng: &mut Rng) {
        let mut k = 0;
        while k < spec[list].len() {
            let (weak, t) = spec[list][k];
            out.push(FieldSpec { k: if weak { "W".into() } else { "S".into() }, n: t });
            if !weak && !seen.contains(&t) {
                seen.push(t);
                visit(t, spec, seen, out, rng);
            }
            // now and then a weak edge to something already complete
            // (only to allocations that are complete: numbered below the one that holds the edge)
            let done: Vec<usize> = seen.iter().cloned().filter(|x| list == 0 || *x < list).collect();
            if !done.is_empty() && rng.chance(1, 5) {
                let w = *rng.pick(&done);
                spec[list].insert(k + 1, (true, w));
                out.push(FieldSpec { k: "W".into(), n: w });
                k += 1;
            }
            k += 1;
        }
    }
    visit(0, &mut spec, &mut seen, &mut out, rng);
    (out, spec)
}
fn build_rc(spec: &DagSpec) -> Vec<RcRef> {
    let mut allocs: Vec<Option<Rc<RcNd>>> = vec![None; spec.len()];
    fn mk(a: usize, spec: &DagSpec, allocs: &mut Vec<Option<Rc<RcNd>>>) -> Rc<RcNd> {
        if let Some(x) = &allocs[a] { return x.clone(); }
        let kids = spec[a].iter().map(|(weak, t)| { let r = mk(*t, spec, allocs); if *weak { RcRef::W(RcWeakAnchor(Rc::downgrade(&r))) } else { RcRef::S(RcAnchor(r)) } }).collect();
        let n = Rc::new(RcNd { id: a, kids });
        allocs[a] = Some(n.clone());
        n
    }
    spec[0].iter().map(|(weak, t)| { let r = mk(*t, spec, &mut allocs); if *weak { RcRef::W(RcWeakAnchor(Rc::downgrade(&r))) } else { RcRef::S(RcAnchor(r)) } }).collect()
}
fn build_arc(spec: &DagSpec) -> Vec<ArcRef> {
    let mut allocs: Vec<Option<Arc<ArcNd>>> = vec![None; spec.len()];
    fn mk(a: usize, spec: &DagSpec, allocs: &mut Vec<Option<Arc<ArcNd>>>) -> Arc<ArcNd> {
        if let Some(x) = &allocs[a] { return x.clone(); }
        let kids = spec[a].iter().map(|(weak, t)| { let r = mk(*t, spec, allocs); if *weak { ArcRef::W(ArcWeakAnchor(Arc::downgrade(&r))) } else { ArcRef::S(ArcAnchor(r)) } }).collect();
        let n = Arc::new(ArcNd { id: a, kids });
        allocs[a] = Some(n.clone());
        n
    }
    spec[0].iter().map(|(weak, t)| { let r = mk(*t, spec, &mut allocs); if *weak { ArcRef::W(ArcWeakAnchor(Arc::downgrade(&r))) } else { ArcRef::S(ArcAnchor(r)) } }).collect()
}
fn ptrs_rc(list: &[RcRef], seen: &mut Vec<usize>, out: &mut Vec<usize>) {
    for r in list {
        match r {
            RcRef::S(a) => { let p = Rc::as_ptr(&a.0) as usize; out.push(p); if !seen.contains(&p) { seen.push(p); ptrs_rc(&a.0.kids, seen, out); } }
            RcRef::W(w) => out.push(w.0.upgrade().map(|x| Rc::as_ptr(&x) as usize).unwrap_or(0)),
        }
    }
}
fn ptrs_arc(list: &[ArcRef], seen: &mut Vec<usize>, out: &mut Vec<usize>) {
    for r in list {
        match r {
            ArcRef::S(a) => { let p = Arc::as_ptr(&a.0) as usize; out.push(p); if !seen.contains(&p) { seen.push(p); ptrs_arc(&a.0.kids, seen, out); } }
            ArcRef::W(w) => out.push(w.0.upgrade().map(|x| Arc::as_ptr(&x) as usize).unwrap_or(0)),
        }
    }
}
fn dag_round_trip(spec: &DagSpec, flavor: &str) -> (String, Vec<i64>, String) {
    if flavor == "rc" {
        let g = build_rc(spec);
        let text = match serde_saphyr::to_string(&g) { Ok(t) => t, Err(e) => return (String::new(), vec![-1], format!("ser: {e}")) };
        match serde_saphyr::from_str::<Vec<RcRef>>(&text) {
            Ok(back) => { let (mut seen, mut out) = (vec![], vec![]); ptrs_rc(&back, &mut seen, &mut out); (text, classes(&out), String::new()) }
            Err(e) => (text, vec![-1], format!("de: {e}")),
        }
    } else {
        let g = build_arc(spec);
        let text = match serde_saphyr::to_string(&g) { Ok(t) => t, Err(e) => return (String::new(), vec![-1], format!("ser: {e}")) };
        match serde_saphyr::from_str::<Vec<ArcRef>>(&text) {
            Ok(back) => { let (mut seen, mut out) = (vec![], vec![]); ptrs_arc(&back, &mut seen, &mut out); (text, classes(&out), String::new()) }
            Err(e) => (text, vec![-1], format!("de: {e}")),
        }
    }
}

#[derive(Serialize)]
struct Rec<'a> {
    id: String,
    kind: &'a str,
    fields: serde_json::Value,
    flavor: &'a str,
    container: &'a str,
    text: String,
    /// class per field after the round trip: 0 = null / dangling, k > 0 = k-th distinct allocation; [-1] = error
    after: Vec<i64>,
    err: String,
    /// payload family only: every rebuilt allocation carries the payload that was written
    #[serde(skip_serializing_if = "Option::is_none")]
    payload_ok: Option<bool>,
    /// payload family only: (anchored nodes, alias nodes) in the emitted text, counted on the parser's own event stream
    #[serde(skip_serializing_if = "Option::is_none")]
    toks: Option<(usize, usize)>,
}

fn classes(ptrs: &[usize]) -> Vec<i64> {
    let mut seen: Vec<usize> = vec![];
    ptrs.iter()
        .map(|p| {
            if *p == 0 {
                0
            } else if let Some(i) = seen.iter().position(|q| q == p) {
                (i + 1) as i64
            } else {
                seen.push(*p);
                seen.len() as i64
            }
        })
        .collect()
}

fn rc_fields(spec: &[FieldSpec]) -> (Vec<RcField>, Vec<Rc<Payload>>) {
    let nall = spec.iter().map(|f| f.n).max().unwrap_or(0);
    let allocs: Vec<Rc<Payload>> = (1..=nall).map(|n| Rc::new(Payload { id: n, tags: vec![format!("t{n}")] })).collect();
    (rc_fields_over(spec, &allocs), allocs)
}
/// the field list over given allocations (so that two lists can share them)
fn rc_fields_over(spec: &[FieldSpec], allocs: &[Rc<Payload>]) -> Vec<RcField> {
    let fields = spec
        .iter()
        .map(|f| match f.k.as_str() {
            "S" => RcField::S(RcAnchor(allocs[f.n - 1].clone())),
            "W" => RcField::W(RcWeakAnchor(Rc::downgrade(&allocs[f.n - 1]))),
            _ => {
                let gone = Rc::new(Payload { id: 99, tags: vec![] });
                let w = Rc::downgrade(&gone);
                drop(gone);
                RcField::W(RcWeakAnchor(w))
            }
        })
        .collect();
    fields
}
fn rc_ptrs(fs: &[RcField]) -> Vec<usize> {
    fs.iter()
        .map(|f| match f {
            RcField::S(a) => Rc::as_ptr(&a.0) as usize,
            RcField::W(w) => w.0.upgrade().map(|r| Rc::as_ptr(&r) as usize).unwrap_or(0),
        })
        .collect()
}
fn arc_fields(spec: &[FieldSpec]) -> (Vec<ArcField>, Vec<Arc<Payload>>) {
    let nall = spec.iter().map(|f| f.n).max().unwrap_or(0);
    let allocs: Vec<Arc<Payload>> = (1..=nall).map(|n| Arc::new(Payload { id: n, tags: vec![format!("t{n}")] })).collect();
    let fields = spec
        .iter()
        .map(|f| match f.k.as_str() {
            "S" => ArcField::S(ArcAnchor(allocs[f.n - 1].clone())),
            "W" => ArcField::W(ArcWeakAnchor(Arc::downgrade(&allocs[f.n - 1]))),
            _ => {
                let gone = Arc::new(Payload { id: 99, tags: vec![] });
                let w = Arc::downgrade(&gone);
                drop(gone);
                ArcField::W(ArcWeakAnchor(w))
            }
        })
        .collect();
    (fields, allocs)
}
fn arc_ptrs(fs: &[ArcField]) -> Vec<usize> {
    fs.iter()
        .map(|f| match f {
            ArcField::S(a) => Arc::as_ptr(&a.0) as usize,
            ArcField::W(w) => w.0.upgrade().map(|r| Arc::as_ptr(&r) as usize).unwrap_or(0),
        })
        .collect()
}

fn one(spec: &[FieldSpec], flavor: &str, container: &str) -> (String, Vec<i64>, String) {
    let spec2: Vec<FieldSpec> = spec.to_vec();
    let flavor = flavor.to_string();
    let container = container.to_string();
    let r = guarded(move || -> (String, Vec<i64>, String) {
        if flavor == "rc" {
            let (fields, _keep) = rc_fields(&spec2);
            match container.as_str() {
                "seq" => {
                    let text = match serde_saphyr::to_string(&fields) { Ok(t) => t, Err(e) => return (String::new(), vec![-1], format!("ser: {e}")) };
                    match serde_saphyr::from_str::<Vec<RcField>>(&text) {
                        Ok(back) => (text, classes(&rc_ptrs(&back)), String::new()),
                        Err(e) => (text, vec![-1], classify(&e)),
                    }
                }
                // two documents written by one to_string_multiple call, both over the SAME allocations: each document stands
                // alone (anchors do not cross documents), so the second must define its shared nodes again; observed: the
                // sharing classes of the second document
                "stream" => {
                    let again = rc_fields_over(&spec2, &_keep);
                    let text = match serde_saphyr::to_string_multiple(&[fields, again]) { Ok(t) => t, Err(e) => return (String::new(), vec![-1], format!("ser: {e}")) };
                    match serde_saphyr::from_multiple::<Vec<RcField>>(&text) {
                        Ok(docs) if docs.len() == 2 => (text, classes(&rc_ptrs(&docs[1])), String::new()),
                        Ok(docs) => (text, vec![-1], format!("{} documents", docs.len())),
                        Err(e) => (text, vec![-1], classify(&e)),
                    }
                }
                "map" => {
                    let m: BTreeMap<String, RcField> = fields.into_iter().enumerate().map(|(i, f)| (format!("k{i}"), f)).collect();
                    let text = match serde_saphyr::to_string(&m) { Ok(t) => t, Err(e) => return (String::new(), vec![-1], format!("ser: {e}")) };
                    match serde_saphyr::from_str::<BTreeMap<String, RcField>>(&text) {
                        Ok(back) => { let v: Vec<RcField> = back.into_values().collect(); (text, classes(&rc_ptrs(&v)), String::new()) }
                        Err(e) => (text, vec![-1], classify(&e)),
                    }
                }
                _ => {
                    let mut it = fields.into_iter();
                    let st = RcStruct { f0: it.next().unwrap(), f1: it.next(), f2: it.next(), f3: it.next(), f4: it.next() };
                    let text = match serde_saphyr::to_string(&st) { Ok(t) => t, Err(e) => return (String::new(), vec![-1], format!("ser: {e}")) };
                    match serde_saphyr::from_str::<RcStruct>(&text) {
                        Ok(b) => { let v: Vec<RcField> = std::iter::once(b.f0).chain([b.f1, b.f2, b.f3, b.f4].into_iter().flatten()).collect(); (text, classes(&rc_ptrs(&v)), String::new()) }
                        Err(e) => (text, vec![-1], classify(&e)),
                    }
                }
            }
        } else {
            let (fields, _keep) = arc_fields(&spec2);
            let text = match serde_saphyr::to_string(&fields) { Ok(t) => t, Err(e) => return (String::new(), vec![-1], format!("ser: {e}")) };
            match serde_saphyr::from_str::<Vec<ArcField>>(&text) {
                Ok(back) => (text, classes(&arc_ptrs(&back)), String::new()),
                Err(e) => (text, vec![-1], classify(&e)),
            }
        }
    });
    r.unwrap_or_else(|p| (String::new(), vec![-1], format!("PANIC:{p}")))
}

// ---------------- recursive wrappers: a chain root -> kid -> grandkid ..., each node's `up` points to one ancestor-or-self ----------------
#[derive(Serialize, Deserialize)]
struct RNode {
    name: String,
    up: Option<RcRecursion<RNode>>,
    kids: Vec<RcRecursive<RNode>>,
}
fn build_chain(ups: &[usize]) -> RcRecursive<RNode> {
    // ups[i] = index of the ancestor (0 = root .. i = self) the i-th node points up to; usize::MAX = none
    let nodes: Vec<RcRecursive<RNode>> = (0..ups.len()).map(|i| RcRecursive::wrapping(RNode { name: format!("n{i}"), up: None, kids: vec![] })).collect();
    for i in (0..ups.len()).rev() {
        let up = if ups[i] == usize::MAX { None } else { Some(RcRecursion::from(&nodes[ups[i]])) };
        let kid = if i + 1 < ups.len() { vec![RcRecursive(nodes[i + 1].0.clone())] } else { vec![] };
        let mut g = nodes[i].0.borrow_mut();
        let n = g.as_mut().unwrap();
        n.up = up;
        n.kids = kid;
    }
    RcRecursive(nodes[0].0.clone())
}
/// after the round trip: for node i, which node index does `up` point to (-1 none, -2 dangling/unknown)
fn chain_ups(root: &RcRecursive<RNode>, len: usize) -> Vec<i64> {
    let mut ptrs = vec![];
    let mut cur = RcRecursive(root.0.clone());
    for _ in 0..len {
        ptrs.push(Rc::as_ptr(&cur.0) as usize);
        let next = {
            let g = cur.0.borrow();
            g.as_ref().and_then(|n| n.kids.first().map(|k| RcRecursive(k.0.clone())))
        };
        match next {
            Some(n) => cur = n,
            None => break,
        }
    }
    let mut out = vec![];
    let mut cur = RcRecursive(root.0.clone());
    for _ in 0..ptrs.len() {
        let (up, next) = {
            let g = cur.0.borrow();
            let n = g.as_ref().unwrap();
            let up = match &n.up {
                None => -1,
                Some(w) => match w.upgrade() {
                    Some(r) => ptrs.iter().position(|p| *p == Rc::as_ptr(&r.0) as usize).map(|x| x as i64).unwrap_or(-2),
                    None => -2,
                },
            };
            (up, n.kids.first().map(|k| RcRecursive(k.0.clone())))
        };
        out.push(up);
        match next {
            Some(n) => cur = n,
            None => break,
        }
    }
    out
}

#[derive(Default, Serialize)]
struct Stats {
    cases: usize,
    records: usize,
    nontrivial: usize,
    payload_records: usize,
    samples: Vec<serde_json::Value>,
}


// ---------------- payload family: the anchored node is a scalar / block scalar / sequence / map / empty collection / variant ... ----------------
// in several parent positions and under several serializer option sets
#[derive(Serialize, Deserialize)]
#[serde(bound(serialize = "T: Serialize", deserialize = "T: Deserialize<'de> + 'static"))]
enum PF<T> {
    S(RcAnchor<T>),
    W(RcWeakAnchor<T>),
}
#[derive(Serialize, Deserialize)]
#[serde(bound(serialize = "T: Serialize", deserialize = "T: Deserialize<'de> + 'static"))]
struct POpt<T> {
    f0: RcAnchor<T>,
    f1: Option<RcAnchor<T>>,
    f2: Option<RcAnchor<T>>,
    f3: Option<RcAnchor<T>>,
    f4: Option<RcAnchor<T>>,
}
#[derive(Serialize, Deserialize, Debug, PartialEq, Clone)]
enum PE {
    A,
    N(i32),
    T(i32, String),
    V { a: i32, b: Vec<i32> },
}
#[derive(Serialize, Deserialize, Debug, PartialEq, Clone)]
struct PUnit;

fn anchor_counts(text: &str) -> (usize, usize) {
    let (evs, _) = raw_events(text);
    (evs.iter().filter(|e| e.k != "AL" && e.a != 0).count(), evs.iter().filter(|e| e.k == "AL").count())
}

fn payload_run<T>(mk: &dyn Fn(usize) -> T, spec: &[FieldSpec], container: &str, o: serde_saphyr::SerializerOptions) -> (String, Vec<i64>, String, bool, (usize, usize))
where
    T: Serialize + serde::de::DeserializeOwned + PartialEq + 'static,
{
    let nall = spec.iter().map(|f| f.n).max().unwrap_or(0);
    let allocs: Vec<Rc<T>> = (1..=nall).map(|n| Rc::new(mk(n))).collect();
    let strong = |f: &FieldSpec| RcAnchor(allocs[f.n - 1].clone());
    let fail = |t: String, e: String| (t, vec![-1], e, false, (0, 0));
    // payload check: the allocation behind field i carries mk(spec[i].n)
    let ser = |v: &dyn erased::Ser| -> Result<String, String> { v.to_yaml(o) };
    match container {
        "seq-enum" => {
            let fields: Vec<PF<T>> = spec.iter().map(|f| match f.k.as_str() {
                "S" => PF::S(strong(f)),
                "W" => PF::W(RcWeakAnchor(Rc::downgrade(&allocs[f.n - 1]))),
                _ => { let gone = Rc::new(mk(99)); let w = Rc::downgrade(&gone); drop(gone); PF::W(RcWeakAnchor(w)) }
            }).collect();
            let text = match ser(&fields) { Ok(t) => t, Err(e) => return fail(String::new(), e) };
            match serde_saphyr::from_str::<Vec<PF<T>>>(&text) {
                Ok(back) => {
                    let ptrs: Vec<usize> = back.iter().map(|f| match f { PF::S(a) => Rc::as_ptr(&a.0) as usize, PF::W(w) => w.0.upgrade().map(|r| Rc::as_ptr(&r) as usize).unwrap_or(0) }).collect();
                    let ok = back.iter().zip(spec).all(|(f, sp)| match f { PF::S(a) => *a.0 == mk(sp.n), PF::W(w) => w.0.upgrade().map(|r| *r == mk(sp.n)).unwrap_or(true) });
                    let c = anchor_counts(&text);
                    (text, classes(&ptrs), String::new(), ok, c)
                }
                Err(e) => fail(text, classify(&e)),
            }
        }
        "seq-direct" | "flow-seq" => {
            let fields: Vec<RcAnchor<T>> = spec.iter().map(strong).collect();
            let text = match if container == "flow-seq" { ser(&serde_saphyr::FlowSeq(&fields)) } else { ser(&fields) } { Ok(t) => t, Err(e) => return fail(String::new(), e) };
            match serde_saphyr::from_str::<Vec<RcAnchor<T>>>(&text) {
                Ok(back) => {
                    let ptrs: Vec<usize> = back.iter().map(|a| Rc::as_ptr(&a.0) as usize).collect();
                    let ok = back.len() == spec.len() && back.iter().zip(spec).all(|(a, sp)| *a.0 == mk(sp.n));
                    let c = anchor_counts(&text);
                    (text, classes(&ptrs), String::new(), ok, c)
                }
                Err(e) => fail(text, classify(&e)),
            }
        }
        "map-direct" => {
            let m: BTreeMap<String, RcAnchor<T>> = spec.iter().enumerate().map(|(i, f)| (format!("k{i}"), strong(f))).collect();
            let text = match ser(&m) { Ok(t) => t, Err(e) => return fail(String::new(), e) };
            match serde_saphyr::from_str::<BTreeMap<String, RcAnchor<T>>>(&text) {
                Ok(back) => {
                    let ptrs: Vec<usize> = back.values().map(|a| Rc::as_ptr(&a.0) as usize).collect();
                    let ok = back.len() == spec.len() && back.values().zip(spec).all(|(a, sp)| *a.0 == mk(sp.n));
                    let c = anchor_counts(&text);
                    (text, classes(&ptrs), String::new(), ok, c)
                }
                Err(e) => fail(text, classify(&e)),
            }
        }
        _ => {
            let mut it = spec.iter().map(strong);
            let st = POpt { f0: it.next().unwrap(), f1: it.next(), f2: it.next(), f3: it.next(), f4: it.next() };
            let text = match ser(&st) { Ok(t) => t, Err(e) => return fail(String::new(), e) };
            match serde_saphyr::from_str::<POpt<T>>(&text) {
                Ok(b) => {
                    let v: Vec<RcAnchor<T>> = std::iter::once(b.f0).chain([b.f1, b.f2, b.f3, b.f4].into_iter().flatten()).collect();
                    let ptrs: Vec<usize> = v.iter().map(|a| Rc::as_ptr(&a.0) as usize).collect();
                    let ok = v.len() == spec.len() && v.iter().zip(spec).all(|(a, sp)| *a.0 == mk(sp.n));
                    let c = anchor_counts(&text);
                    (text, classes(&ptrs), String::new(), ok, c)
                }
                Err(e) => fail(text, classify(&e)),
            }
        }
    }
}
mod erased {
    pub trait Ser {
        fn to_yaml(&self, o: serde_saphyr::SerializerOptions) -> Result<String, String>;
    }
    impl<T: serde::Serialize> Ser for T {
        fn to_yaml(&self, o: serde_saphyr::SerializerOptions) -> Result<String, String> {
            serde_saphyr::to_string_with_options(self, o).map_err(|e| format!("ser: {e}"))
        }
    }
}

/// one payload kind x container x option set for a field list (strong fields only unless the container is seq-enum)
fn payload_case(kind: &str, spec: &[FieldSpec], container: &str, o: serde_saphyr::SerializerOptions) -> (String, Vec<i64>, String, bool, (usize, usize)) {
    let words = |n: usize| format!("payload {n} {}", "lorem ipsum dolor ".repeat(8));
    match kind {
        "str" => payload_run::<String>(&|n| format!("t{n}"), spec, container, o),
        "str-quoted" => payload_run::<String>(&|n| format!("k{n}: v # c"), spec, container, o),
        "str-lines" => payload_run::<String>(&|n| format!("line {n}\n  second\nthird\n"), spec, container, o),
        "str-long" => payload_run::<String>(&words, spec, container, o),
        "str-empty" => payload_run::<String>(&|n| if n == 1 { String::new() } else { format!("e{n}") }, spec, container, o),
        "int" => payload_run::<i64>(&|n| n as i64 * 7, spec, container, o),
        "bool" => payload_run::<bool>(&|n| n % 2 == 0, spec, container, o),
        "opt-some" => payload_run::<Option<i32>>(&|n| Some(n as i32), spec, container, o),
        "seq" => payload_run::<Vec<i32>>(&|n| vec![n as i32, 2, 3], spec, container, o),
        "seq-empty" => payload_run::<Vec<i32>>(&|n| if n == 1 { vec![] } else { vec![n as i32] }, spec, container, o),
        "seq-nested" => payload_run::<Vec<Vec<String>>>(&|n| vec![vec![format!("a{n}"), "b".into()], vec![]], spec, container, o),
        "map" => payload_run::<BTreeMap<String, i32>>(&|n| [("a".to_string(), n as i32), ("b".to_string(), 2)].into_iter().collect(), spec, container, o),
        "map-empty" => payload_run::<BTreeMap<String, i32>>(&|n| if n == 1 { BTreeMap::new() } else { [("a".to_string(), n as i32)].into_iter().collect() }, spec, container, o),
        "enum-unit" => payload_run::<PE>(&|_| PE::A, spec, container, o),
        "enum-newtype" => payload_run::<PE>(&|n| PE::N(n as i32), spec, container, o),
        "enum-tuple" => payload_run::<PE>(&|n| PE::T(n as i32, format!("s{n}")), spec, container, o),
        "enum-struct" => payload_run::<PE>(&|n| PE::V { a: n as i32, b: vec![1, 2] }, spec, container, o),
        "tuple" => payload_run::<(i32, String)>(&|n| (n as i32, format!("s{n}")), spec, container, o),
        "opt-none" => payload_run::<Option<i32>>(&|n| if n == 1 { None } else { Some(n as i32) }, spec, container, o),
        "unit" => payload_run::<()>(&|_| (), spec, container, o),
        "char" => payload_run::<char>(&|n| (b'a' + (n % 26) as u8) as char, spec, container, o),
        "float" => payload_run::<f64>(&|n| n as f64 + 0.5, spec, container, o),
        "bytes" => payload_run::<serde_bytes::ByteBuf>(&|n| serde_bytes::ByteBuf::from(vec![n as u8, 1, 2, 250]), spec, container, o),
        _ => payload_run::<Payload>(&|n| Payload { id: n, tags: vec![format!("t{n}")] }, spec, container, o),
    }
}
pub const PAYLOAD_KINDS: [&str; 24] = ["opt-none", "unit", "char", "float", "bytes", "str", "str-quoted", "str-lines", "str-long", "str-empty", "int", "bool", "opt-some", "seq", "seq-empty", "seq-nested", "map", "map-empty",
                                       "enum-unit", "enum-newtype", "enum-tuple", "enum-struct", "tuple", "struct"];

pub fn run(args: &Args) -> i32 {
    let out = args.req("out");
    let mut w = NdWriter::create(out);
    let mut stats = Stats::default();
    let mut rng = Rng::new(args.num("seed", 1));
    let mut specs: Vec<Vec<FieldSpec>> = vec![];
    if let Some(cases) = args.get("cases") {
        let cases: Vec<Case> = read_ndjson(cases);
        stats.cases = cases.len();
        specs.extend(cases.into_iter().map(|c| c.fields));
    }
    for _ in 0..args.num("random", 0) {
        let n = 2 + rng.below(8);
        let na = 1 + rng.below(4);
        specs.push((0..n).map(|_| FieldSpec { k: ["S", "S", "S", "W", "WD"][rng.below(5)].to_string(), n: 1 + rng.below(na) }).collect());
    }
    for (i, spec) in specs.iter().enumerate() {
        let shared = spec.iter().enumerate().any(|(a, f)| spec.iter().skip(a + 1).any(|g| g.n == f.n && f.k != "WD" && g.k != "WD"));
        if shared {
            stats.nontrivial += 1;
        }
        let fields_json = serde_json::json!(spec.iter().map(|f| serde_json::json!({"k": f.k, "n": f.n})).collect::<Vec<_>>());
        for (flavor, container) in [("rc", "seq"), ("rc", "map"), ("rc", "struct"), ("arc", "seq"), ("rc", "stream")] {
            if container == "struct" && spec.len() > 5 {
                continue;
            }
            let (text, after, err) = one(spec, flavor, container);
            if stats.samples.len() < 3 && shared && spec.len() >= 3 && container == "seq" {
                stats.samples.push(serde_json::json!({"fields": fields_json, "yaml": text}));
            }
            w.put(&Rec { id: format!("g{i}-{flavor}-{container}"), kind: "graph", fields: fields_json.clone(), flavor, container, text, after, err, payload_ok: None, toks: None });
        }
    }
    // payload family: every payload kind x container x option set over a rotating choice of the enumerated field lists
    // (all of them when --payload-all 1), compared by sharing classes, payload equality and the number of anchors / aliases written
    {
        let osets: Vec<(String, serde_saphyr::SerializerOptions)> = crate::c13::option_sets(false).into_iter().filter(|(n, _)| !n.starts_with("i1")).collect();
        let all = args.num("payload-all", 0) == 1;
        let containers = ["seq-enum", "seq-direct", "map-direct", "opt-struct", "flow-seq"];
        let mut k = 0usize;
        for (i, spec) in specs.iter().enumerate() {
            if spec.is_empty() { continue; }
            let strong_only = spec.iter().all(|f| f.k == "S");
            for (ki, kind) in PAYLOAD_KINDS.iter().enumerate() {
                for (ci, container) in containers.iter().enumerate() {
                    if *container != "seq-enum" && !strong_only { continue; }
                    if *container == "opt-struct" && spec.len() > 5 { continue; }
                    // (an optional field holding a payload that is written as null reads back as None: YAML has one null)
                    if *container == "opt-struct" && matches!(*kind, "unit" | "opt-none") { continue; }
                    // weak fields before their strong owner are outside the documented domain
                    k += 1;
                    if !all && (i + ki + ci) % 7 != 0 { continue; }
                    let picks: Vec<usize> = if all { (0..osets.len()).collect() } else { vec![0, 1 + k % (osets.len() - 1)] };
                    for oi in picks {
                        let (oname, o) = &osets[oi];
                        let (sp, kd, ct, oo) = (spec.clone(), kind.to_string(), container.to_string(), *o);
                        let r = guarded(move || payload_case(&kd, &sp, &ct, oo));
                        let (text, after, err, ok, toks) = r.unwrap_or_else(|p| (String::new(), vec![-1], format!("PANIC:{p}"), false, (0, 0)));
                        let fields_json = serde_json::json!(spec.iter().map(|f| serde_json::json!({"k": f.k, "n": f.n})).collect::<Vec<_>>());
                        let cname = format!("{container}/{kind}/{oname}");
                        w.put(&Rec { id: format!("p{i}-{cname}"), kind: "graph", fields: fields_json, flavor: "rc", container: &cname, text, after, err, payload_ok: Some(ok), toks: Some(toks) });
                        stats.payload_records += 1;
                    }
                }
            }
        }
    }
    // recursive wrappers: all chains of length <= 3 (quick) / 4 with every choice of up-pointers
    let maxlen = args.num("chain", 3) as usize;
    fn rec(prefix: &mut Vec<usize>, len: usize, out: &mut Vec<Vec<usize>>) {
        if prefix.len() == len {
            out.push(prefix.clone());
            return;
        }
        let i = prefix.len();
        for up in (0..=i).chain(std::iter::once(usize::MAX)) {
            prefix.push(up);
            rec(prefix, len, out);
            prefix.pop();
        }
    }
    for len in 1..=maxlen {
        let mut all = vec![];
        rec(&mut vec![], len, &mut all);
        for (ci, ups) in all.iter().enumerate() {
            let ups2 = ups.clone();
            let r = guarded(move || {
                let root = build_chain(&ups2);
                let text = match serde_saphyr::to_string(&root) { Ok(t) => t, Err(e) => return (String::new(), vec![-9], format!("ser: {e}")) };
                match serde_saphyr::from_str::<RcRecursive<RNode>>(&text) {
                    Ok(b) => (text, chain_ups(&b, ups2.len()), String::new()),
                    Err(e) => (text, vec![-9], classify(&e)),
                }
            });
            let (text, after, err) = r.unwrap_or_else(|p| (String::new(), vec![-9], format!("PANIC:{p}")));
            let want: Vec<i64> = ups.iter().map(|u| if *u == usize::MAX { -1 } else { *u as i64 }).collect();
            stats.nontrivial += 1;
            w.put(&Rec { id: format!("chain{len}-{ci}"), kind: "chain", fields: serde_json::json!(want), flavor: "rc", container: "chain", text, after, err, payload_ok: None, toks: None });
        }
    }
    // nested sharing (DAGs of nodes holding strong / weak references to other nodes)
    let ndag = args.num("dags", 200);
    for i in 0..ndag {
        let spec0 = gen_dag(&mut rng);
        let (edges, spec) = dag_edges(&spec0, &mut rng);
        let nested_shared = edges.iter().enumerate().any(|(a, f)| f.k == "S" && edges.iter().skip(a + 1).any(|g| g.n == f.n));
        if nested_shared { stats.nontrivial += 1; }
        let fields_json = serde_json::json!(edges.iter().map(|f| serde_json::json!({"k": f.k, "n": f.n})).collect::<Vec<_>>());
        for flavor in ["rc", "arc"] {
            let sp = spec.clone();
            let fl = flavor.to_string();
            let r = guarded(move || dag_round_trip(&sp, &fl));
            let (text, after, err) = r.unwrap_or_else(|p| (String::new(), vec![-9], format!("PANIC:{p}")));
            if stats.samples.len() < 4 && nested_shared && flavor == "rc" && text.len() < 400 { stats.samples.push(serde_json::json!({"dag": fields_json, "yaml": text})); }
            w.put(&Rec { id: format!("dag{i}-{flavor}"), kind: "graph", fields: fields_json.clone(), flavor, container: "dag", text, after, err, payload_ok: None, toks: None });
        }
    }
    stats.records = w.n;
    w.finish();
    println!("{}", serde_json::to_string(&stats).unwrap());
    0
}
