//! C01 — totality: no panic, abort or hang; every error renders.
//! parent (`vh c01`): builds the inputs, runs them in child processes (`vh c01w`) with an 8 MiB main-thread stack, an address-space
//! limit and a wall-clock limit, bisects a failing batch down to the input and call, writes one record per input for TV_Totality.
use crate::docgen::*;
use crate::model::*;
use crate::Args;
use serde::{Deserialize, Serialize};
use serde_saphyr::{Options, UserMessageFormatter};
use std::collections::HashMap;
use std::io::Write;
use std::process::{Command, Stdio};
use std::time::{Duration, Instant};

#[derive(Serialize, Deserialize, Clone)]
struct Input {
    id: String,
    hex: String,
    family: String,
}
fn to_hex(b: &[u8]) -> String { b.iter().map(|x| format!("{x:02x}")).collect() }
fn from_hex(h: &str) -> Vec<u8> { (0..h.len() / 2).map(|i| u8::from_str_radix(&h[2 * i..2 * i + 2], 16).unwrap_or(0)).collect() }

#[derive(Serialize, Deserialize, Clone)]
struct Bad {
    entry: String,
    target: String,
    opts: String,
    outcome: String,
    detail: String,
}
#[derive(Serialize, Deserialize, Clone)]
struct RunRec {
    id: String,
    family: String,
    len: usize,
    utf8: bool,
    calls: usize,
    ok: usize,
    err: usize,
    bad: Vec<Bad>,
    sample: String,
    /// the exact input bytes (hex) when something went wrong and the input is small: the replay file can then be re-run
    #[serde(default, skip_serializing_if = "String::is_empty")]
    hex: String,
}

const ENTRIES: &[&str] = &["str", "slice", "reader", "multi", "slice_multi", "read", "wd_str", "wd_slice", "wd_reader"];
const TARGETS: &[&str] = &["tree", "ignored", "struct", "enum", "map", "optvec", "bytes", "string", "borrowed", "floats", "unit", "units"];
const OPTS: &[&str] = &["default", "lenient", "tight"];

#[derive(Deserialize, Debug)]
#[allow(dead_code)]
struct St {
    a: i32,
    b: Option<String>,
    #[serde(default)]
    c: Vec<u8>,
}
#[derive(Deserialize, Debug)]
#[allow(dead_code)]
enum En {
    U,
    N(i32),
    T(i32, String),
    S { a: bool },
}
/// a unit struct: zero-sized, so a sequence of them can grow without allocating
#[derive(Deserialize, Debug)]
struct Un;
#[derive(Deserialize, Debug)]
#[allow(dead_code)]
struct Fl {
    x: f64,
    y: f32,
}

fn options(name: &str) -> Options {
    let mut o = Options::default();
    match name {
        "lenient" => {
            o.duplicate_keys = serde_saphyr::options::DuplicateKeyPolicy::LastWins;
            o.no_schema = true;
            o.strict_booleans = true;
            o.legacy_octal_numbers = true;
            o.ignore_binary_tag_for_string = true;
            o.crop_radius = 3;
            o.angle_conversions = true;
        }
        "tight" => {
            o.with_snippet = false;
            o.duplicate_keys = serde_saphyr::options::DuplicateKeyPolicy::FirstWins;
            let mut b = serde_saphyr::Budget::default();
            b.max_events = 40;
            b.max_depth = 3;
            b.max_nodes = 30;
            b.max_total_scalar_bytes = 200;
            o.budget = Some(b);
            o.alias_limits.max_total_replayed_events = 50;
            o.alias_limits.max_replay_stack_depth = 2;
        }
        _ => {}
    }
    o
}

/// one call: Ok(true) value, Ok(false) error value that rendered, Err(detail) anything else
fn call<T: serde::de::DeserializeOwned + std::fmt::Debug>(entry: &str, bytes: &[u8], o: Options) -> Result<bool, (String, String)> {
    call_inner::<T>(entry, bytes, o)
}
fn render_all(e: &serde_saphyr::Error) -> Result<(), String> {
    let r = std::panic::catch_unwind(std::panic::AssertUnwindSafe(|| {
        let a = e.to_string();
        let b = e.render_with_formatter(&UserMessageFormatter);
        let c = e.render_with_options(serde_saphyr::render_options! { formatter: &serde_saphyr::DefaultMessageFormatter, snippets: serde_saphyr::SnippetMode::Off });
        let d = format!("{e:?}");
        let _ = (e.location(), e.locations());
        a.len() + b.len() + c.len() + d.len()
    }));
    r.map(|_| ()).map_err(|p| panic_text(p))
}
fn panic_text(p: Box<dyn std::any::Any + Send>) -> String {
    if let Some(s) = p.downcast_ref::<&str>() { s.to_string() } else if let Some(s) = p.downcast_ref::<String>() { s.clone() } else { "panic".into() }
}
fn finish<T>(r: std::thread::Result<Result<T, Vec<serde_saphyr::Error>>>) -> Result<bool, (String, String)> {
    match r {
        Ok(Ok(_)) => Ok(true),
        Ok(Err(es)) => {
            for e in &es {
                render_all(e).map_err(|p| ("render-panic".to_string(), p))?;
            }
            Ok(false)
        }
        Err(p) => Err(("panic".to_string(), panic_text(p))),
    }
}
fn call_inner<T: serde::de::DeserializeOwned + std::fmt::Debug>(entry: &str, bytes: &[u8], o: Options) -> Result<bool, (String, String)> {
    let s = std::str::from_utf8(bytes).ok();
    let r = std::panic::catch_unwind(std::panic::AssertUnwindSafe(|| -> Result<(), Vec<serde_saphyr::Error>> {
        match entry {
            "str" => serde_saphyr::from_str_with_options::<T>(s.unwrap_or(""), o).map(|_| ()).map_err(|e| vec![e]),
            "slice" => serde_saphyr::from_slice_with_options::<T>(bytes, o).map(|_| ()).map_err(|e| vec![e]),
            "reader" => serde_saphyr::from_reader_with_options::<_, T>(std::io::Cursor::new(bytes), o).map(|_| ()).map_err(|e| vec![e]),
            "multi" => serde_saphyr::from_multiple_with_options::<T>(s.unwrap_or(""), o).map(|_| ()).map_err(|e| vec![e]),
            "slice_multi" => serde_saphyr::from_slice_multiple_with_options::<T>(bytes, o).map(|_| ()).map_err(|e| vec![e]),
            "read" => {
                let mut c = std::io::Cursor::new(bytes);
                let mut errs = vec![];
                // the iterator must end by itself; an item budget well above any document count guards the harness only
                let mut items = 0usize;
                for x in serde_saphyr::read_with_options::<_, T>(&mut c, o) {
                    items += 1;
                    if let Err(e) = x { errs.push(e); }
                    if items > 100_000 { panic!("iterator yielded more than 100000 items for {} bytes", bytes.len()); }
                }
                if errs.is_empty() { Ok(()) } else { Err(errs) }
            }
            "wd_str" => serde_saphyr::with_deserializer_from_str_with_options(s.unwrap_or(""), o, |de| T::deserialize(de)).map(|_| ()).map_err(|e| vec![e]),
            "wd_slice" => serde_saphyr::with_deserializer_from_slice_with_options(bytes, o, |de| T::deserialize(de)).map(|_| ()).map_err(|e| vec![e]),
            _ => serde_saphyr::with_deserializer_from_reader_with_options(std::io::Cursor::new(bytes), o, |de| T::deserialize(de)).map(|_| ()).map_err(|e| vec![e]),
        }
    }));
    finish(r)
}
fn call_borrowed(entry: &str, bytes: &[u8], o: Options) -> Result<bool, (String, String)> {
    let s = std::str::from_utf8(bytes).ok();
    let r = std::panic::catch_unwind(std::panic::AssertUnwindSafe(|| -> Result<(), Vec<serde_saphyr::Error>> {
        match entry {
            "str" => serde_saphyr::from_str_with_options::<&str>(s.unwrap_or(""), o).map(|_| ()).map_err(|e| vec![e]),
            _ => serde_saphyr::from_slice_with_options::<&str>(bytes, o).map(|_| ()).map_err(|e| vec![e]),
        }
    }));
    finish(r)
}
fn applicable(entry: &str, target: &str, utf8: bool) -> bool {
    (!matches!(entry, "str" | "multi" | "wd_str") || utf8) && (target != "borrowed" || matches!(entry, "str" | "slice"))
}

fn run_input(inp: &Input, progress: &str, started: &std::sync::Mutex<Instant>) -> RunRec {
    let bytes = from_hex(&inp.hex);
    let utf8 = std::str::from_utf8(&bytes).is_ok();
    let mut rec = RunRec { id: inp.id.clone(), family: inp.family.clone(), len: bytes.len(), utf8, calls: 0, ok: 0, err: 0, bad: vec![], sample: String::from_utf8_lossy(&bytes[..bytes.len().min(60)]).into_owned(), hex: String::new() };
    for entry in ENTRIES {
        for target in TARGETS {
            if !applicable(entry, target, utf8) { continue; }
            for opt in OPTS {
                // leave a note of the call about to be made (for attributing a hang or an abort) and restart the clock
                let _ = std::fs::write(progress, format!("{} {} {} {}", inp.id, entry, target, opt));
                *started.lock().unwrap() = Instant::now();
                let o = options(opt);
                let r = match *target {
                    "tree" => call::<Tree>(entry, &bytes, o),
                    "ignored" => call_inner::<IgnoredWrap>(entry, &bytes, o),
                    "struct" => call::<St>(entry, &bytes, o),
                    "enum" => call::<En>(entry, &bytes, o),
                    "map" => call::<HashMap<String, i32>>(entry, &bytes, o),
                    "optvec" => call::<Option<Vec<String>>>(entry, &bytes, o),
                    "bytes" => call::<serde_bytes::ByteBuf>(entry, &bytes, o),
                    "string" => call::<String>(entry, &bytes, o),
                    "borrowed" => call_borrowed(entry, &bytes, o),
                    "unit" => call::<()>(entry, &bytes, o),
                    "units" => call::<Vec<Un>>(entry, &bytes, o),
                    _ => call::<Fl>(entry, &bytes, o),
                };
                rec.calls += 1;
                match r {
                    Ok(true) => rec.ok += 1,
                    Ok(false) => rec.err += 1,
                    Err((outcome, detail)) => rec.bad.push(Bad { entry: entry.to_string(), target: target.to_string(), opts: opt.to_string(), outcome, detail: detail.chars().take(200).collect() }),
                }
            }
        }
    }
    if !rec.bad.is_empty() && bytes.len() <= 4096 {
        rec.hex = to_hex(&bytes);
    }
    rec
}
/// `vh c01one --hex <hex>`: every call for one input given as hex (used to replay a record of a violation)
pub fn run_one_hex(args: &Args) -> i32 {
    let inp = Input { id: "one".into(), hex: args.req("hex").to_string(), family: "replay".into() };
    let started = std::sync::Mutex::new(Instant::now());
    let rec = run_input(&inp, "/dev/null", &started);
    println!("{}", serde_json::to_string(&rec).unwrap());
    0
}
#[derive(Debug)]
struct IgnoredWrap;
impl<'de> Deserialize<'de> for IgnoredWrap {
    fn deserialize<D: serde::Deserializer<'de>>(d: D) -> Result<Self, D::Error> {
        serde::de::IgnoredAny::deserialize(d).map(|_| IgnoredWrap)
    }
}

/// worker: `vh c01w --batch f --out o --progress p` — every call on the main thread (8 MiB stack). A watchdog thread ends the
/// process with status 3 when one call exceeds the per-call limit; the progress file names the input (and call) in flight so
/// that the parent can attribute a hang or an abort and resume after it.
pub fn worker(args: &Args) -> i32 {
    let batch: Vec<Input> = read_ndjson(args.req("batch"));
    let skip = args.num("skip", 0) as usize;
    let limit = args.num("limit", 20);
    let progress = args.req("progress").to_string();
    let out = args.req("out");
    let mut f = std::fs::OpenOptions::new().create(true).append(true).open(out).expect("open out");
    let started = std::sync::Arc::new(std::sync::Mutex::new(Instant::now()));
    let small = std::sync::Arc::new(std::sync::atomic::AtomicBool::new(false));
    {
        let started = started.clone();
        let small = small.clone();
        std::thread::spawn(move || loop {
            std::thread::sleep(Duration::from_millis(100));
            // inputs of a few KiB are answered in microseconds: 5 s is already a hang there
            let lim = if small.load(std::sync::atomic::Ordering::Relaxed) { 5 } else { limit };
            if started.lock().unwrap().elapsed() > Duration::from_secs(lim) {
                std::process::exit(3);
            }
        });
    }
    for inp in batch.iter().skip(skip) {
        small.store(inp.hex.len() <= 8192, std::sync::atomic::Ordering::Relaxed);
        let rec = run_input(inp, &progress, &started);
        let _ = writeln!(f, "{}", serde_json::to_string(&rec).unwrap());
        let _ = f.flush();
    }
    0
}

fn token_bytes(t: &str) -> &'static [u8] {
    match t {
        "dash" => b"- ", "colon" => b": ", "qmark" => b"? ", "lbr" => b"[", "rbr" => b"]", "lbc" => b"{", "rbc" => b"}", "comma" => b", ",
        "anchor" => b"&a ", "alias" => b"*a ", "tag" => b"!t ", "strtag" => b"!!str ", "pipe" => b"|\n ", "gt" => b">\n ", "dq" => b"\"", "sq" => b"'",
        "hash" => b" #", "pct" => b"%", "docstart" => b"---\n", "docend" => b"...\n", "merge" => b"<<: ", "tilde" => b"~", "tab" => b"\t", "cr" => b"\r",
        "lf" => b"\n", "sp" => b" ", "bom" => b"\xef\xbb\xbf", "two" => b"\xc3\xa9", "ff" => b"\xff", "word" => b"ab", "num" => b"12", "bang" => b"!",
        "star" => b"*", "amp" => b"&", "nulltag" => b"!!null ", "bintag" => b"!!binary ", "inttag" => b"!!int ", _ => b"\\",
    }
}

#[derive(Deserialize)]
struct Case {
    ts: Vec<String>,
}

fn nested(open: &str, close: &str, inner: &str, depth: usize) -> Vec<u8> {
    let mut s = String::new();
    for _ in 0..depth { s.push_str(open); }
    s.push_str(inner);
    for _ in 0..depth { s.push_str(close); }
    s.push('\n');
    s.into_bytes()
}
fn block_nested(item: &str, depth: usize, step: usize) -> Vec<u8> {
    let mut s = String::new();
    for d in 0..depth {
        s.push_str(&" ".repeat(d * step));
        s.push_str(item);
        s.push('\n');
    }
    s.push_str(&" ".repeat(depth * step));
    s.push_str("x\n");
    s.into_bytes()
}

fn build_inputs(args: &Args, rng: &mut Rng) -> Vec<Input> {
    let mut v: Vec<Input> = vec![];
    let mut push = |fam: &str, b: Vec<u8>, v: &mut Vec<Input>| {
        let id = format!("{}{}", &fam[..1], v.len());
        v.push(Input { id, hex: to_hex(&b), family: fam.to_string() });
    };
    // (1) TLC's token strings
    if let Some(cases) = args.get("cases") {
        let cases = cases.to_string();
        for c in read_ndjson::<Case>(&cases) {
            let b: Vec<u8> = c.ts.iter().flat_map(|t| token_bytes(t).iter().cloned()).collect();
            push("tokens", b, &mut v);
        }
    }
    // (2) a corpus and its mutations
    let corpus: Vec<&str> = vec![
        "a: 1\nb: [x, y]\nc: {d: ~}\n", "- &a {k: v}\n- *a\n- <<: *a\n  z: 1\n", "--- !!str x\n...\n--- |\n  lit\n--- >-\n  fold\n", "? [a, b]\n: c\n? {x: 1}\n: d\n",
        "a: !!binary aGVsbG8=\nb: 0x1F\nc: 1_000\nd: .inf\ne: 12:30:00\n", "N: 5\nU\n", "{a: 1, b: \"two\\n\", c: 'it''s'}\n", "%YAML 1.2\n---\na: 1\n", "\u{feff}a: b\n",
        "x: !degrees deg(90) + 1\ny: 1.5\n", "a: &x [1, 2]\nb: *x\nc: [*x, *x]\n", "- - - - a\n- ? b\n  : c\n", "T: [1, two]\n", "S: {a: true}\n", "a:\r\n  - 1\r\n  - 2\r\n", "- !!null x\n- !!null ~\n- !!str\n- !!int 5\n", "!!null 'x'\n", "--- !!null x\n--- ~\n",
    ];
    for c in &corpus { push("corpus", c.as_bytes().to_vec(), &mut v); }
    let nmut = args.num("mutations", 300) as usize;
    for _ in 0..nmut {
        let mut b = rng.pick(&corpus).as_bytes().to_vec();
        for _ in 0..1 + rng.below(4) {
            if b.is_empty() { break; }
            let i = rng.below(b.len());
            match rng.below(6) {
                0 => b[i] ^= 1 << rng.below(8),
                1 => { b.remove(i); }
                2 => { let x = b[i]; b.insert(i, x); }
                3 => b.truncate(i),
                4 => { let ins: &[u8] = *rng.pick(&[&b"\xff"[..], b"\x00", b"\xe2\x80", b"%", b"\t", b"*a", b"&a", b"<<: *a\n", b"---\n", b"[", b"}", b"\"", b"'", b": ", b"- ", b"? ", b"!!binary ", b"\r"]); for (k, x) in ins.iter().enumerate() { b.insert(i + k, *x); } }
                _ => { let j = rng.below(b.len()); b.swap(i, j); }
            }
        }
        push("mutated", b, &mut v);
    }
    // (2b) broken UTF-8 (truncated multi-byte characters, stray continuation bytes, invalid lead bytes) in every lexical context,
    // followed by more text: the reader's character source ends at the broken sequence and must stay ended
    {
        let broken: [&[u8]; 9] = [b"\xc3", b"\xe2", b"\xe2\x82", b"\xf0", b"\xf0\x9d", b"\xf0\x9d\x84", b"\x80", b"\xff", b"\xc3\x28"];
        let ctx: [(&str, &str); 10] = [("--- |\n  lit", "\n-%-- >-\n  f"), ("a: >\n  fold", "\n  more\nb: 1\n"), ("k: \"dq", " rest\"\nz: 2\n"), ("k: 'sq", " rest'\nz: 2\n"),
                                       ("plain", " word\nnext: 1\n"), ("# comment", " tail\na: 1\n"), ("? key", "\n: v\n"), ("- [a, b", ", c]\n- d\n"), ("&anc", " v\n"), ("%TAG !e! tag:e", "\n--- !e!x 1\n")];
        for (pre, post) in ctx {
            for b in broken {
                let mut v2 = pre.as_bytes().to_vec();
                v2.extend_from_slice(b);
                v2.extend_from_slice(post.as_bytes());
                push("broken-utf8", v2, &mut v);
            }
        }
    }
    // (3) deep and wide inputs around the default nesting budget and far beyond it
    let deep: Vec<usize> = if args.num("thorough", 0) == 1 { vec![1, 50, 1999, 2000, 2001, 2500, 10_000, 100_000, 1_000_000] } else { vec![1999, 2000, 2001, 20_000] };
    for &d in &deep {
        push("deep-flow-seq", nested("[", "]", "1", d), &mut v);
        push("deep-flow-map", nested("{a: ", "}", "1", d), &mut v);
        push("deep-flow-unclosed", { let mut b = nested("[", "", "1", d); b.pop(); b }, &mut v);
        if d <= 10_000 {
            push("deep-block-seq", block_nested("-", d, 1), &mut v);
            push("deep-block-map", block_nested("k:", d, 1), &mut v);
            // (nested complex keys cost about d^2.7 time - 8 s at d = 1600 - so the depth is kept moderate: a slow call is not a hang)
            push("deep-complex-key", block_nested("?", d.min(400), 1), &mut v);
            let mut al = String::from("a: &a ");
            al.push_str(std::str::from_utf8(&nested("[", "]", "1", d)).unwrap());
            al.push_str("b: *a\nc: [*a, *a]\n");
            push("deep-anchored", al.into_bytes(), &mut v);
        }
        push("wide-seq", format!("[{}]\n", "1, ".repeat(d)).into_bytes(), &mut v);
        push("long-scalar", format!("a: {}\n", "x".repeat(d * 10)).into_bytes(), &mut v);
        push("many-docs", "--- 1\n".repeat(d.min(100_000)).into_bytes(), &mut v);
        push("signs", format!("x: {}1\ny: {}\n", "-".repeat(d.min(100_000)), "(".repeat(d.min(100_000))).into_bytes(), &mut v);
    }
    // anchors in every arrangement the anchor table has to cope with: nested anchored containers (a container's anchor is stored
    // when it closes, after those inside it), many sibling anchors, anchors inside a part of the stream the iterator skips after a
    // failed document, anchor ids that keep growing over the documents of a stream
    for n in [2usize, 7, 8, 9, 16, 17, 33, 64, 200] {
        let mut f = String::new();
        for i in 0..n { f.push_str(&format!("&n{i} [")); }
        f.push('1');
        for _ in 0..n { f.push(']'); }
        f.push('\n');
        push("nested-anchors", f.clone().into_bytes(), &mut v);
        let mut b = String::new();
        for i in 0..n { b.push_str(&format!("{}k{i}: &m{i}\n", " ".repeat(i))); }
        b.push_str(&format!("{}leaf: 1\n", " ".repeat(n)));
        push("nested-anchors", b.into_bytes(), &mut v);
        let sib: String = (0..n).map(|i| format!("- &s{i} {i}\n")).collect();
        push("sibling-anchors", format!("{sib}- *s0\n").into_bytes(), &mut v);
        // a document that fails for typed targets at its first item, its remainder full of anchors, then documents with anchors
        let rest: String = (0..n).map(|i| format!(", &r{i} {i}")).collect();
        push("skipped-anchors", format!("--- [oops{rest}]\n--- &after [1]\n--- [&z 2, *z]\n").into_bytes(), &mut v);
        let docs: String = (0..n.min(40)).map(|i| format!("--- &d{i} [{i}, *d{i}x]\n")).collect();
        push("stream-anchors", docs.replace("x]", "]").replace(", *d", ", &e").into_bytes(), &mut v);
    }
    // alias bombs (bounded by the replay limits)
    let mut bomb = String::from("a0: &a0 [x, x]\n");
    for i in 1..30 { bomb.push_str(&format!("a{i}: &a{i} [*a{}, *a{}]\n", i - 1, i - 1)); }
    push("alias-bomb", bomb.into_bytes(), &mut v);
    v
}

#[derive(Default, Serialize)]
struct Stats {
    records: usize,
    nontrivial: usize,
    inputs: usize,
    calls: usize,
    values: usize,
    errors: usize,
    bad_inputs: usize,
    families: HashMap<String, usize>,
    samples: Vec<serde_json::Value>,
}

fn spawn_worker(exe: &str, batch: &str, out: &str, progress: &str, skip: usize, secs: u64) -> (String, String) {
    // 8 MiB stack (the documented default), 6 GiB address space; the worker's own watchdog enforces the per-call limit, the
    // limit here is a backstop for the whole batch
    let cmdline = format!("ulimit -s 8192; ulimit -v 6291456; exec {exe} c01w --batch {batch} --out {out} --progress {progress} --skip {skip}");
    let mut child = match Command::new("sh").arg("-c").arg(&cmdline).stdout(Stdio::null()).stderr(Stdio::null()).spawn() {
        Ok(c) => c,
        Err(e) => return ("spawn-failed".into(), e.to_string()),
    };
    let t0 = Instant::now();
    loop {
        match child.try_wait() {
            Ok(Some(st)) => {
                return if st.success() { ("ok".into(), String::new()) } else if st.code() == Some(3) { ("timeout".into(), "one call did not return within the limit (5 s for inputs up to 4 KiB, 20 s otherwise)".into()) } else { ("abort".into(), format!("{st}")) };
            }
            Ok(None) => {
                if t0.elapsed() > Duration::from_secs(secs) {
                    let _ = child.kill();
                    let _ = child.wait();
                    return ("timeout".into(), format!("batch not finished after {secs} s"));
                }
                std::thread::sleep(Duration::from_millis(20));
            }
            Err(e) => return ("abort".into(), e.to_string()),
        }
    }
}

pub fn run(args: &Args) -> i32 {
    let out = args.req("out");
    let work = args.req("work").to_string();
    let exe = std::env::current_exe().map(|p| p.display().to_string()).unwrap_or_else(|_| "vh".into());
    let mut rng = Rng::new(args.num("seed", 1));
    let inputs = build_inputs(args, &mut rng);
    let mut stats = Stats::default();
    stats.inputs = inputs.len();
    // batches: small inputs many per child, large inputs one per child
    let mut batches: Vec<Vec<Input>> = vec![];
    let mut cur: Vec<Input> = vec![];
    for inp in inputs {
        let big = inp.hex.len() > 4000;
        if big { batches.push(vec![inp]); continue; }
        cur.push(inp);
        if cur.len() >= 100 { batches.push(std::mem::take(&mut cur)); }
    }
    if !cur.is_empty() { batches.push(cur); }
    let nb = batches.len();
    let jobs = args.num("jobs", 12) as usize;
    let results: std::sync::Mutex<Vec<RunRec>> = std::sync::Mutex::new(vec![]);
    let next = std::sync::atomic::AtomicUsize::new(0);
    let batches = &batches;
    std::thread::scope(|sc| {
        for _ in 0..jobs {
            sc.spawn(|| loop {
                let bi = next.fetch_add(1, std::sync::atomic::Ordering::SeqCst);
                if bi >= nb { break; }
                let b = &batches[bi];
                let bf = format!("{work}/batch-{bi}.ndjson");
                let of = format!("{work}/out-{bi}.ndjson");
                let pf = format!("{work}/progress-{bi}.txt");
                { let mut w = NdWriter::create(&bf); for i in b { w.put(i); } w.finish(); }
                let _ = std::fs::remove_file(&of);
                let mut recs: Vec<RunRec> = vec![];
                let mut skip = 0usize;
                // run the batch; after a hang or an abort, record it against the input in flight and resume behind it
                while skip < b.len() {
                    let (st, detail) = spawn_worker(&exe, &bf, &of, &pf, skip, 3600);
                    let done: Vec<RunRec> = if std::path::Path::new(&of).exists() { read_ndjson(&of) } else { vec![] };
                    let _ = std::fs::remove_file(&of);
                    let ndone = done.len();
                    recs.extend(done);
                    if st == "ok" { break; }
                    let at = std::fs::read_to_string(&pf).unwrap_or_default();
                    let parts: Vec<&str> = at.split(' ').collect();
                    let k = skip + ndone;
                    if k >= b.len() { break; }
                    let inp = &b[k];
                    let bytes = from_hex(&inp.hex);
                    recs.push(RunRec { id: inp.id.clone(), family: inp.family.clone(), len: bytes.len(), utf8: std::str::from_utf8(&bytes).is_ok(), calls: 0, ok: 0, err: 0,
                        bad: vec![Bad { entry: parts.get(1).unwrap_or(&"").to_string(), target: parts.get(2).unwrap_or(&"").to_string(), opts: parts.get(3).unwrap_or(&"").to_string(), outcome: st, detail }],
                        sample: String::from_utf8_lossy(&bytes[..bytes.len().min(60)]).into_owned(), hex: if bytes.len() <= 4096 { to_hex(&bytes) } else { String::new() } });
                    skip = k + 1;
                }
                for f in [&bf, &of, &pf] { let _ = std::fs::remove_file(f); }
                results.lock().unwrap().extend(recs);
            });
        }
    });
    let mut recs = results.into_inner().unwrap();
    recs.sort_by(|a, b| a.id.cmp(&b.id));
    let mut w = NdWriter::create(out);
    for r in &recs {
        stats.calls += r.calls;
        stats.values += r.ok;
        stats.errors += r.err;
        if !r.bad.is_empty() { stats.bad_inputs += 1; }
        if r.ok > 0 && r.err > 0 { stats.nontrivial += 1; }
        *stats.families.entry(r.family.clone()).or_default() += 1;
        if stats.samples.len() < 4 && r.family == "mutated" { stats.samples.push(serde_json::json!({"input": r.sample})); }
        w.put(r);
    }
    stats.records = w.n;
    w.finish();
    let _ = std::io::stdout().flush();
    println!("{}", serde_json::to_string(&stats).unwrap());
    0
}
