//! C09 / C10 — entry points agree under every chunking; faults and the size cap are never swallowed.
//! records (to TV_ReaderInput): {id, kind:"sched", entry, ws, avail, ending, cap, out, reff, pulled, ...} and {kind:"borrow", ..}
use crate::docgen::*;
use crate::model::*;
use crate::Args;
use serde::Serialize;
use std::cell::Cell;
use std::io::Read;
use std::rc::Rc;

/// A reader that hands out `data[..avail]` in the scheduled chunk sizes, then ends with EOF or an error.
/// a call into the crate with a panic turned into an error value (a panic inside the crate is data, not a harness failure)
macro_rules! g {
    ($e:expr) => {
        match std::panic::catch_unwind(std::panic::AssertUnwindSafe(|| $e)) {
            Ok(r) => r,
            Err(_) => Err(<serde_saphyr::Error as serde::de::Error>::custom("PANIC inside the crate")),
        }
    };
}

pub struct SchedReader {
    data: Vec<u8>,
    avail: usize,
    pos: usize,
    sizes: Vec<usize>,
    idx: usize,
    left_in_chunk: usize,
    fault: bool,
    kind: std::io::ErrorKind,
    pub pulled: Rc<Cell<usize>>,
    pub calls: Rc<Cell<usize>>,
}
impl SchedReader {
    pub fn new(data: &[u8], avail: usize, sizes: Vec<usize>, fault: bool, kind: std::io::ErrorKind) -> SchedReader {
        SchedReader { data: data.to_vec(), avail, pos: 0, sizes, idx: 0, left_in_chunk: 0, fault, kind, pulled: Rc::new(Cell::new(0)), calls: Rc::new(Cell::new(0)) }
    }
}
impl Read for SchedReader {
    fn read(&mut self, buf: &mut [u8]) -> std::io::Result<usize> {
        self.calls.set(self.calls.get() + 1);
        if buf.is_empty() {
            return Ok(0);
        }
        if self.pos >= self.avail {
            if self.fault {
                return Err(std::io::Error::new(self.kind, "injected fault"));
            }
            return Ok(0);
        }
        if self.left_in_chunk == 0 {
            self.left_in_chunk = if self.idx < self.sizes.len() { self.sizes[self.idx] } else { usize::MAX };
            self.idx += 1;
        }
        let n = buf.len().min(self.left_in_chunk).min(self.avail - self.pos);
        buf[..n].copy_from_slice(&self.data[self.pos..self.pos + n]);
        self.pos += n;
        self.left_in_chunk -= n;
        self.pulled.set(self.pulled.get() + n);
        Ok(n)
    }
}

#[derive(Serialize, Clone, PartialEq, Debug)]
pub struct Out {
    res: String,
    cls: String,
    line: u64,
    col: u64,
    val: String,
}
fn out_of<T: serde::Serialize>(r: Result<T, serde_saphyr::Error>) -> Out {
    match r {
        Ok(v) => Out { res: "ok".into(), cls: String::new(), line: 0, col: 0, val: serde_json::to_string(&v).unwrap_or_default() },
        Err(e) => {
            let (l, c) = err_loc(&e);
            Out { res: "err".into(), cls: broad(&classify(&e)).to_string(), line: l, col: c, val: String::new() }
        }
    }
}
fn tree_json(t: &Tree) -> serde_json::Value {
    serde_json::to_value(&t.0).unwrap()
}
#[derive(Serialize)]
struct TJ(serde_json::Value);

fn opts(cap: i64) -> serde_saphyr::Options {
    let mut o = serde_saphyr::Options::default();
    let mut b = serde_saphyr::Budget::default();
    b.max_reader_input_bytes = if cap < 0 { None } else { Some(cap as usize) };
    o.budget = Some(b);
    o
}

#[derive(Serialize)]
struct Rec<'a> {
    id: String,
    kind: &'a str,
    entry: &'a str,
    /// UTF-8 width of every code point of the (BOM-less) text
    ws: Vec<u8>,
    avail: usize,
    ending: &'a str,
    cap: i64,
    sched: String,
    out: Out,
    /// the same call through from_str on the delivered prefix (only when that prefix is valid UTF-8)
    reff: Out,
    has_ref: bool,
    pulled: usize,
    yaml: &'a str,
    bom: bool,
}
#[derive(Serialize)]
struct EncRec<'a> {
    id: String,
    kind: &'a str,
    entry: &'a str,
    enc: &'a str,
    /// bytes the reader holds (BOM + encoded text) and UTF-8 length of the decoded text without the BOM
    raw_len: usize,
    dec_len: usize,
    cap: i64,
    out: Out,
    reff: Out,
    pulled: usize,
    yaml: &'a str,
}
#[derive(Serialize)]
struct BorrowRec<'a> {
    id: String,
    kind: &'a str,
    style: &'a str,
    transformed: bool,
    verbatim: bool,
    borrowed_ok: bool,
    same_as_owned: bool,
    reader_lends: bool,
    yaml: &'a str,
}

/// A target whose `Deserialize` tolerates errors in field values (the common lenient-field idiom).
pub struct Lenient(pub Vec<(String, Option<N>)>);
impl<'de> serde::Deserialize<'de> for Lenient {
    fn deserialize<D: serde::de::Deserializer<'de>>(d: D) -> Result<Lenient, D::Error> {
        struct V;
        impl<'de> serde::de::Visitor<'de> for V {
            type Value = Lenient;
            fn expecting(&self, f: &mut std::fmt::Formatter) -> std::fmt::Result {
                f.write_str("anything")
            }
            fn visit_map<A: serde::de::MapAccess<'de>>(self, mut m: A) -> Result<Lenient, A::Error> {
                let mut out = vec![];
                loop {
                    let k: Option<String> = match m.next_key::<String>() {
                        Ok(k) => k,
                        Err(_) => break, // swallow
                    };
                    let Some(k) = k else { break };
                    let v = m.next_value::<Tree>().ok().map(|t| t.0); // swallow
                    out.push((k, v));
                }
                Ok(Lenient(out))
            }
            fn visit_seq<A: serde::de::SeqAccess<'de>>(self, mut s: A) -> Result<Lenient, A::Error> {
                let mut out = vec![];
                for i in 0..10_000 {
                    match s.next_element::<Tree>() {
                        Ok(Some(t)) => out.push((i.to_string(), Some(t.0))),
                        Ok(None) => break,
                        Err(_) => {
                            out.push((i.to_string(), None));
                            break;
                        }
                    }
                }
                Ok(Lenient(out))
            }
            fn visit_unit<E>(self) -> Result<Lenient, E> {
                Ok(Lenient(vec![]))
            }
            fn visit_str<E>(self, v: &str) -> Result<Lenient, E> {
                Ok(Lenient(vec![(v.to_string(), None)]))
            }
            fn visit_bool<E>(self, v: bool) -> Result<Lenient, E> {
                Ok(Lenient(vec![(v.to_string(), None)]))
            }
            fn visit_u64<E>(self, v: u64) -> Result<Lenient, E> {
                Ok(Lenient(vec![(v.to_string(), None)]))
            }
            fn visit_i64<E>(self, v: i64) -> Result<Lenient, E> {
                Ok(Lenient(vec![(v.to_string(), None)]))
            }
            fn visit_f64<E>(self, v: f64) -> Result<Lenient, E> {
                Ok(Lenient(vec![(v.to_string(), None)]))
            }
        }
        d.deserialize_any(V)
    }
}
impl serde::Serialize for Lenient {
    fn serialize<S: serde::Serializer>(&self, s: S) -> Result<S::Ok, S::Error> {
        s.collect_seq(self.0.iter().map(|(k, v)| (k.clone(), v.clone())))
    }
}

/// A writer that fails at its k-th write call or once `limit` bytes were accepted.
pub struct FaultyWriter {
    pub got: Vec<u8>,
    pub fail_at_call: Option<usize>,
    pub byte_limit: Option<usize>,
    calls: usize,
}
impl std::io::Write for FaultyWriter {
    fn write(&mut self, buf: &[u8]) -> std::io::Result<usize> {
        self.calls += 1;
        if Some(self.calls) == self.fail_at_call {
            return Err(std::io::Error::new(std::io::ErrorKind::Other, "injected write fault"));
        }
        if let Some(l) = self.byte_limit {
            if self.got.len() >= l {
                return Err(std::io::Error::new(std::io::ErrorKind::WriteZero, "disk full"));
            }
            let n = buf.len().min(l - self.got.len());
            self.got.extend_from_slice(&buf[..n]);
            return Ok(n);
        }
        self.got.extend_from_slice(buf);
        Ok(buf.len())
    }
    fn flush(&mut self) -> std::io::Result<()> {
        Ok(())
    }
}
#[derive(Serialize)]
struct WriterRec<'a> {
    id: String,
    kind: &'a str,
    mode: &'a str,
    k: usize,
    full: &'a str,
    received: String,
    res: &'a str,
    is_io: bool,
}

fn run_entry(entry: &str, rd: SchedReader, cap: i64) -> Out {
    match std::panic::catch_unwind(std::panic::AssertUnwindSafe(|| run_entry_inner(entry, rd, cap))) {
        Ok(o) => o,
        Err(_) => Out { res: "err".into(), cls: "PANIC".into(), line: 0, col: 0, val: String::new() },
    }
}
fn run_entry_inner(entry: &str, rd: SchedReader, cap: i64) -> Out {
    match entry {
        "reader-lenient" => out_of(g!(serde_saphyr::from_reader_with_options::<_, Lenient>(rd, opts(cap)))),
        "reader" => out_of(g!(serde_saphyr::from_reader_with_options::<_, Tree>(rd, opts(cap)).map(|t| TJ(tree_json(&t))))),
        "wd" => out_of(g!(serde_saphyr::with_deserializer_from_reader_with_options(rd, opts(cap), |de| <Tree as serde::Deserialize>::deserialize(de)).map(|t| TJ(tree_json(&t))))),
        "read" => {
            let mut rd = rd;
            let mut vals = vec![];
            let mut first_err: Option<serde_saphyr::Error> = None;
            for (n, it) in serde_saphyr::read_with_options::<_, Tree>(&mut rd, opts(cap)).enumerate() {
                if n > 64 {
                    break;
                }
                match it {
                    Ok(t) => vals.push(tree_json(&t)),
                    Err(e) => {
                        if first_err.is_none() {
                            first_err = Some(e);
                        }
                    }
                }
            }
            match first_err {
                Some(e) => out_of::<TJ>(Err(e)),
                None => out_of(Ok::<_, serde_saphyr::Error>(TJ(serde_json::Value::Array(vals)))),
            }
        }
        _ => Out { res: "?".into(), cls: String::new(), line: 0, col: 0, val: String::new() },
    }
}
fn ref_entry(entry: &str, text: &str) -> Out {
    match entry {
        "reader" | "wd" => out_of(g!(serde_saphyr::from_str_with_options::<Tree>(text, opts(-1)).map(|t| TJ(tree_json(&t))))),
        _ => out_of(g!(serde_saphyr::from_multiple_with_options::<Tree>(text, opts(-1)).map(|v| TJ(serde_json::Value::Array(v.iter().map(tree_json).collect()))))),
    }
}

#[derive(Default, Serialize)]
struct Stats {
    docs: usize,
    records: usize,
    nontrivial: usize,
    faults: usize,
    samples: Vec<serde_json::Value>,
}

fn partitions(n: usize) -> Vec<Vec<usize>> {
    // all compositions of n
    let mut out = vec![];
    for mask in 0..(1u32 << (n - 1)) {
        let mut cur = 1;
        let mut v = vec![];
        for i in 0..(n - 1) {
            if mask & (1 << i) != 0 {
                v.push(cur);
                cur = 1;
            } else {
                cur += 1;
            }
        }
        v.push(cur);
        out.push(v);
    }
    out
}


// ------------------------------------------------------------------------------------------
// typed targets: every entry point must agree for typed (not deserialize_any) requests too, and a typed iterator must never
// yield a value built from a truncated prefix
// ------------------------------------------------------------------------------------------
/// a string requested through `deserialize_str` with a plain `visit_str` visitor (what a hand-written Deserialize impl does)
#[derive(Debug, serde::Serialize)]
struct ViaStr(String);
impl<'de> serde::Deserialize<'de> for ViaStr {
    fn deserialize<D: serde::Deserializer<'de>>(d: D) -> Result<ViaStr, D::Error> {
        struct V;
        impl<'de> serde::de::Visitor<'de> for V {
            type Value = ViaStr;
            fn expecting(&self, f: &mut std::fmt::Formatter) -> std::fmt::Result {
                f.write_str("a string")
            }
            fn visit_str<E: serde::de::Error>(self, v: &str) -> Result<ViaStr, E> {
                Ok(ViaStr(v.to_string()))
            }
        }
        d.deserialize_str(V)
    }
}
#[derive(Debug, serde::Deserialize, serde::Serialize)]
struct TK {
    #[serde(default)]
    token: Option<ViaStr>,
    #[serde(default)]
    x: Option<i64>,
    #[serde(default)]
    n: Option<String>,
    #[serde(default)]
    f: Option<f64>,
    #[serde(default)]
    c: Option<char>,
}
#[derive(Serialize)]
struct AgreeRec<'a> {
    id: String,
    kind: &'a str,
    target: &'a str,
    yaml: &'a str,
    /// outcome per entry point; the first one (from_str) is the reference
    outs: Vec<(String, Out)>,
}
fn agree_outs<T: serde::de::DeserializeOwned + serde::Serialize>(text: &str) -> Vec<(String, Out)> {
    let n = text.len().max(1);
    let o = || opts(-1);
    vec![
        ("str".into(), out_of(g!(serde_saphyr::from_str_with_options::<T>(text, o())))),
        ("slice".into(), out_of(g!(serde_saphyr::from_slice_with_options::<T>(text.as_bytes(), o())))),
        ("reader-ones".into(), out_of(g!(serde_saphyr::from_reader_with_options::<_, T>(SchedReader::new(text.as_bytes(), text.len(), vec![1; n], false, std::io::ErrorKind::Other), o())))),
        ("reader-big".into(), out_of(g!(serde_saphyr::from_reader_with_options::<_, T>(SchedReader::new(text.as_bytes(), text.len(), vec![4096], false, std::io::ErrorKind::Other), o())))),
        ("wd-str".into(), out_of(g!(serde_saphyr::with_deserializer_from_str_with_options(text, o(), |de| T::deserialize(de))))),
        ("wd-slice".into(), out_of(g!(serde_saphyr::with_deserializer_from_slice_with_options(text.as_bytes(), o(), |de| T::deserialize(de))))),
        ("wd-reader".into(), out_of(g!(serde_saphyr::with_deserializer_from_reader_with_options(SchedReader::new(text.as_bytes(), text.len(), vec![3; n], false, std::io::ErrorKind::Other), o(), |de| T::deserialize(de))))),
    ]
}
/// the untyped tree behind trivially passing validation: the validating entry points must behave like the plain ones
#[derive(serde::Deserialize)]
#[serde(transparent)]
struct VTree(Tree);
impl garde::Validate for VTree {
    type Context = ();
    fn validate_into(&self, _ctx: &Self::Context, _parent: &mut dyn FnMut() -> garde::Path, _report: &mut garde::Report) {}
}
impl validator::Validate for VTree {
    fn validate(&self) -> Result<(), validator::ValidationErrors> {
        Ok(())
    }
}
fn agree_outs_validating(text: &str) -> Vec<(String, Out)> {
    let tj = |r: Result<VTree, serde_saphyr::Error>| out_of(r.map(|t| TJ(tree_json(&t.0))));
    let rd = || SchedReader::new(text.as_bytes(), text.len(), vec![5; text.len().max(1)], false, std::io::ErrorKind::Other);
    vec![
        ("str".into(), out_of(g!(serde_saphyr::from_str::<Tree>(text).map(|t| TJ(tree_json(&t)))))),
        ("str-valid".into(), tj(g!(serde_saphyr::from_str_valid::<VTree>(text)))),
        ("str-validate".into(), tj(g!(serde_saphyr::from_str_validate::<VTree>(text)))),
        ("slice-valid".into(), tj(g!(serde_saphyr::from_slice_valid::<VTree>(text.as_bytes())))),
        ("slice-validate".into(), tj(g!(serde_saphyr::from_slice_validate::<VTree>(text.as_bytes())))),
        ("reader-valid".into(), tj(g!(serde_saphyr::from_reader_valid::<_, VTree>(rd())))),
        ("reader-validate".into(), tj(g!(serde_saphyr::from_reader_validate::<_, VTree>(rd())))),
    ]
}
#[derive(Serialize)]
struct TFRec<'a> {
    id: String,
    kind: &'a str,
    target: &'a str,
    yaml: &'a str,
    ws: Vec<u8>,
    avail: usize,
    ending: &'a str,
    cap: i64,
    /// what the typed iterator yielded: the value as JSON text, or "ERR"
    items: Vec<String>,
    /// the items of the complete, fault-free text
    ref_items: Vec<String>,
    /// the single-document typed reader call
    single: Out,
}
fn typed_items<T: serde::de::DeserializeOwned + serde::Serialize>(rd: SchedReader, cap: i64) -> Vec<String> {
    std::panic::catch_unwind(std::panic::AssertUnwindSafe(|| typed_items_inner::<T>(rd, cap))).unwrap_or_else(|_| vec!["PANIC".to_string()])
}
fn typed_items_inner<T: serde::de::DeserializeOwned + serde::Serialize>(rd: SchedReader, cap: i64) -> Vec<String> {
    let mut rd = rd;
    let mut out = vec![];
    for (n, it) in serde_saphyr::read_with_options::<_, T>(&mut rd, opts(cap)).enumerate() {
        if n > 16 { out.push("NONTERMINATING".into()); break; }
        out.push(match it { Ok(v) => serde_json::to_string(&v).unwrap_or_default(), Err(_) => "ERR".into() });
    }
    out
}
fn typed_fault_family<T: serde::de::DeserializeOwned + serde::Serialize>(target: &str, docs: &[&str], w: &mut NdWriter, stats: &mut Stats) {
    for (di, text) in docs.iter().enumerate() {
        let bytes = text.as_bytes();
        let n = bytes.len();
        let ws: Vec<u8> = text.chars().map(|c| c.len_utf8() as u8).collect();
        let ref_items = typed_items::<T>(SchedReader::new(bytes, n, vec![4096], false, std::io::ErrorKind::Other), -1);
        let mut put = |id: String, avail: usize, ending: &str, cap: i64, sched: Vec<usize>, w: &mut NdWriter| {
            let items = typed_items::<T>(SchedReader::new(bytes, avail, sched.clone(), ending == "fault", std::io::ErrorKind::Other), cap);
            let single = out_of(g!(serde_saphyr::from_reader_with_options::<_, T>(SchedReader::new(bytes, avail, sched, ending == "fault", std::io::ErrorKind::Other), opts(cap))));
            w.put(&TFRec { id, kind: "typed-fault", target, yaml: text, ws: ws.clone(), avail, ending, cap, items, ref_items: ref_items.clone(), single });
        };
        for k in 0..=n {
            for ending in ["fault", "eof"] {
                if ending == "eof" && k == n { continue; }
                for (ci, sched) in [vec![1usize; n.max(1)], vec![4096]].into_iter().enumerate() {
                    stats.faults += 1;
                    put(format!("tf-{target}-d{di}-k{k}-{ending}-c{ci}"), k, ending, -1, sched, w);
                }
            }
        }
        for cap in 0..=n + 1 {
            put(format!("tf-{target}-d{di}-cap{cap}"), n, "eof", cap as i64, vec![4096], w);
        }
    }
}

pub fn corpus() -> Vec<String> {
    let mut v: Vec<String> = [
        "a: 1\n", "k: é\n", "- ü\n- 2\n", "\"\\u00e9\"\n", "x: [1, 2\n", "€: 1\n", "𝄞\n", "a: b: c\n", "é: [ü, €, 𝄞]\n", "key: |\n  líne\n  two\n",
        "'it''s'\n", "a: 1\n---\nb: 2\n", "- a\n- [b\n", "{é: ü}\n", "# c\n€\n", "a:\n  - 1\n  - é\n", "\"a\\n€\"\n", "- - x\n  - 𝄞y\n", "é", "[]", "~\n", "\n",
        "a: \"unterminated\n", "? é\n: ü\n", "&a é\n", "- &x €\n- *x\n", "a: 1\r\nb: é\r\n", "x: \t1\n", "é: 1\né: 2\n",
    ]
    .iter()
    .map(|s| s.to_string())
    .collect();
    v.push("a: ".to_string() + &"é".repeat(40) + "\n");
    // what may follow an explicit document end marker: nothing, a comment, text the scanner rejects, another document
    for tail in ["", "# c\n", "@bad\n", "}\n", "`\n", "\"open\n", "b: 2\n", "---\nb: 2\n", "...\n", "- [\n"] {
        v.push(format!("a: 1\n...\n{tail}"));
    }
    // text the scanner rejects right after a complete document that has no end marker
    for t in ["[1]\n@bad\n", "{a: 1}\n`\n", "'s'\n}\n", "--- x\n@\n", "\"d\"\n]\n", "[1]\n---\n@\n"] {
        v.push(t.to_string());
    }
    v.push("- é\n...\n]\n".to_string());
    v.push("--- x\n...\n@\n".to_string());
    v
}

pub fn run(args: &Args) -> i32 {
    let out = args.req("out");
    let mut w = NdWriter::create(out);
    let mut stats = Stats::default();
    let mut rng = Rng::new(args.num("seed", 1));
    let thorough = args.num("thorough", 0) == 1;
    let max_all = if thorough { 14 } else { 10 };
    let docs = corpus();
    let kinds = [std::io::ErrorKind::Other, std::io::ErrorKind::ConnectionReset, std::io::ErrorKind::TimedOut, std::io::ErrorKind::BrokenPipe];
    for (di, doc) in docs.iter().enumerate() {
        stats.docs += 1;
        for bom in [false, true] {
            if bom && di % 3 != 0 {
                continue;
            }
            let text = doc.as_str();
            let mut bytes = vec![];
            if bom {
                bytes.extend_from_slice(&[0xEF, 0xBB, 0xBF]);
            }
            bytes.extend_from_slice(text.as_bytes());
            let n = bytes.len();
            if n == 0 {
                continue;
            }
            let ws: Vec<u8> = text.chars().map(|c| c.len_utf8() as u8).collect();
            let bomlen = if bom { 3 } else { 0 };
            // schedules
            let mut scheds: Vec<Vec<usize>> = vec![vec![n], vec![1; n], vec![2; n], vec![3; n], vec![5; n], vec![7; n], vec![4096]];
            if n <= max_all {
                scheds = partitions(n);
            } else {
                for _ in 0..(if thorough { 40 } else { 8 }) {
                    let mut v = vec![];
                    let mut left = n;
                    while left > 0 {
                        let k = 1 + rng.below(4.min(left));
                        v.push(k);
                        left -= k;
                    }
                    scheds.push(v);
                }
                // adversarial: a cut inside every multi-byte character
                let mut off = bomlen;
                for c in text.chars() {
                    let l = c.len_utf8();
                    for cut in 1..l {
                        scheds.push(vec![off + cut, n - off - cut]);
                        if l - cut >= 2 {
                            scheds.push(vec![off + cut, 1, n]);
                        }
                    }
                    off += l;
                }
            }
            let entries = ["reader", "read", "wd"];
            // (a) complete input, every schedule, no fault: agreement with the in-memory entry points
            for (si, s) in scheds.iter().enumerate() {
                for entry in entries {
                    if entry == "wd" && si % 4 != 0 {
                        continue;
                    }
                    let rd = SchedReader::new(&bytes, n, s.clone(), false, kinds[0]);
                    let pulled = rd.pulled.clone();
                    let o = run_entry(entry, rd, -1);
                    let reff = ref_entry(entry, text);
                    if ws.iter().any(|x| *x > 1) {
                        stats.nontrivial += 1;
                    }
                    w.put(&Rec { id: format!("d{di}{}-s{si}-{entry}", if bom { "b" } else { "" }), kind: "sched", entry, ws: ws.clone(), avail: n - bomlen, ending: "eof", cap: -1,
                                 sched: format!("{s:?}"), out: o, reff, has_ref: true, pulled: pulled.get(), yaml: text, bom });
                }
            }
            if bom {
                continue;
            }
            // (b) every truncation point: fault and clean end, with two chunkings
            for k in 0..n {
                // KNOWN FINDING C01-directive-eof-hang: a reader input whose last line is an unterminated `%directive`
                // makes saphyr-parser's BufferedInput spin forever; such prefixes are exercised (under a watchdog) by C01 only
                if text.is_char_boundary(k) && text[..k].rsplit('\n').next().map(|l| l.starts_with('%')).unwrap_or(false) {
                    continue;
                }
                for ending in ["fault", "eof"] {
                    for (ci, sched) in [vec![1usize; n], vec![4096]].iter().enumerate() {
                        for entry in ["reader", "read", "reader-lenient"] {
                            if entry == "reader-lenient" && ending == "eof" && text.is_char_boundary(k) {
                                continue; // a clean shorter input: nothing to swallow
                            }
                            let kind = kinds[(k + ci) % kinds.len()];
                            let rd = SchedReader::new(&bytes, k, sched.clone(), ending == "fault", kind);
                            let pulled = rd.pulled.clone();
                            let o = run_entry(entry, rd, -1);
                            let prefix_ok = text.is_char_boundary(k);
                            let reff = if prefix_ok && entry != "reader-lenient" { ref_entry(entry, &text[..k]) } else { Out { res: "na".into(), cls: String::new(), line: 0, col: 0, val: String::new() } };
                            stats.faults += 1;
                            w.put(&Rec { id: format!("d{di}-k{k}-{ending}-c{ci}-{entry}"), kind: "sched", entry, ws: ws.clone(), avail: k, ending, cap: -1,
                                         sched: if ci == 0 { "ones".into() } else { "big".into() }, out: o, reff, has_ref: prefix_ok && entry != "reader-lenient", pulled: pulled.get(), yaml: text, bom });
                        }
                    }
                }
            }
            // (c) caps around the input length
            for cap in [0i64, 1, n as i64 - 3, n as i64 - 2, n as i64 - 1, n as i64, n as i64 + 1, n as i64 + 100] {
                if cap < 0 {
                    continue;
                }
                for (ci, sched) in [vec![1usize; n], vec![4096]].iter().enumerate() {
                    for entry in ["reader", "read"] {
                        let rd = SchedReader::new(&bytes, n, sched.clone(), false, kinds[0]);
                        let pulled = rd.pulled.clone();
                        let o = run_entry(entry, rd, cap);
                        let reff = ref_entry(entry, text);
                        w.put(&Rec { id: format!("d{di}-cap{cap}-c{ci}-{entry}"), kind: "sched", entry, ws: ws.clone(), avail: n, ending: "eof", cap,
                                     sched: if ci == 0 { "ones".into() } else { "big".into() }, out: o, reff, has_ref: true, pulled: pulled.get(), yaml: text, bom });
                    }
                }
            }
        }
    }
    // (d) the cap against inputs whose raw length differs from their decoded length: UTF-8 with a BOM, UTF-16 LE / BE with a BOM.
    // Below both lengths the call must fail, above both it must be unaffected, and whatever it returns must never be a value
    // built from a truncated prefix.
    for (di, doc) in docs.iter().enumerate() {
        if doc.is_empty() || doc.contains('\r') {
            continue;
        }
        let text = doc.as_str();
        for enc in ["utf8-bom", "utf16le", "utf16be"] {
            let mut bytes: Vec<u8> = vec![];
            match enc {
                "utf8-bom" => { bytes.extend_from_slice(&[0xEF, 0xBB, 0xBF]); bytes.extend_from_slice(text.as_bytes()); }
                "utf16le" => { bytes.extend_from_slice(&[0xFF, 0xFE]); for u in text.encode_utf16() { bytes.extend_from_slice(&u.to_le_bytes()); } }
                _ => { bytes.extend_from_slice(&[0xFE, 0xFF]); for u in text.encode_utf16() { bytes.extend_from_slice(&u.to_be_bytes()); } }
            }
            let raw_len = bytes.len();
            let dec_len = text.len();
            let hi = raw_len.max(dec_len + 3);
            let step = if thorough || hi <= 24 { 1 } else { 3 };
            let mut caps: Vec<usize> = (0..=hi + 1).step_by(step).collect();
            for c in [dec_len.saturating_sub(1), dec_len, dec_len + 1, raw_len.saturating_sub(1), raw_len, raw_len + 1, hi + 50] {
                if !caps.contains(&c) { caps.push(c); }
            }
            for cap in caps {
                for (ci, sched) in [vec![1usize; raw_len], vec![4096]].iter().enumerate() {
                    if ci == 0 && cap % 2 == 1 && !thorough { continue; }
                    for entry in ["reader", "read"] {
                        let rd = SchedReader::new(&bytes, raw_len, sched.clone(), false, kinds[0]);
                        let pulled = rd.pulled.clone();
                        let o = run_entry(entry, rd, cap as i64);
                        let reff = ref_entry(entry, text);
                        w.put(&EncRec { id: format!("d{di}-{enc}-cap{cap}-c{ci}-{entry}"), kind: "enc", entry, enc, raw_len, dec_len, cap: cap as i64, out: o, reff, pulled: pulled.get(), yaml: text });
                    }
                }
            }
        }
    }
    // (e) typed requests through every entry point: tagged and untagged scalars into strings requested with deserialize_str /
    // deserialize_string, field names, numbers, chars
    {
        let tdocs = ["token: plain\n", "token: 'quoted'\n", "token: \"esc\\taped\"\n", "token: !!binary aGVsbG8=\n", "token: !!int 42\n", "token: !!str 5\n", "token: !!bool true\n",
                     "token: !!null ~\n", "token: !!float 1.5\n", "token: !custom v\n", "token: |\n  blk\n", "token: ~\n", "!!binary eA==: 1\n", "!!str x: 2\n", "\"x\": 3\n",
                     "n: !!binary aGk=\n", "n: !!int 7\n", "n: !!str 8\n", "n: plain\n", "n: 'q'\n", "x: !!str 3\n", "x: !!int 4\n", "x: '5'\n", "x: !!float 6\n", "f: !!int 1\n", "f: !!str 1.5\n",
                     "f: .5\n", "c: !!str a\n", "c: 'b'\n", "c: !!int 7\n", "c: é\n", "token: é\nn: ü\n", "{token: !!binary aGVsbG8=, n: !!binary aGk=}\n", "zzz: !!binary eA==\n"];
        for (i, t) in tdocs.iter().enumerate() {
            w.put(&AgreeRec { id: format!("ag-tk-{i}"), kind: "agree", target: "TK", yaml: t, outs: agree_outs::<TK>(t) });
        }
        for (i, t) in ["plain\n", "!!binary aGVsbG8=\n", "!!int 42\n", "'q'\n", "!!str 7\n", "|\n  b\n", "!!null ~\n", "!x y\n", "é\n"].iter().enumerate() {
            w.put(&AgreeRec { id: format!("ag-vs-{i}"), kind: "agree", target: "ViaStr", yaml: t, outs: agree_outs::<ViaStr>(t) });
            w.put(&AgreeRec { id: format!("ag-st-{i}"), kind: "agree", target: "String", yaml: t, outs: agree_outs::<String>(t) });
        }
        for (i, t) in ["42\n", "!!int 42\n", "!!str 42\n", "'42'\n", "0x2A\n", "!!binary NDI=\n", "4_2\n", "!!float 42\n"].iter().enumerate() {
            w.put(&AgreeRec { id: format!("ag-i-{i}"), kind: "agree", target: "i64", yaml: t, outs: agree_outs::<i64>(t) });
        }
    }
    // (e2) the validating entry points (validation trivially passes) on every corpus document
    for (di, doc) in docs.iter().enumerate() {
        if doc.is_empty() { continue; }
        w.put(&AgreeRec { id: format!("ag-val-{di}"), kind: "agree", target: "VTree", yaml: doc, outs: agree_outs_validating(doc) });
    }
    // (f) typed iterators and typed readers under every truncation point, fault and cap: a scalar target takes its event with a
    // single next() and never looks again, so only the deferred error check stands between a truncated prefix and an Ok value
    typed_fault_family::<i64>("i64", &["1234567\n", "12\n---\n3456\n", "-9876\n...\n", "0x1F2E\n"], &mut w, &mut stats);
    typed_fault_family::<bool>("bool", &["true\n", "false\n---\ntrue\n"], &mut w, &mut stats);
    typed_fault_family::<f64>("f64", &["12.5e3\n", "3.25\n---\n.5\n"], &mut w, &mut stats);
    typed_fault_family::<String>("String", &["hello world\n", "'quoted é str'\n---\nplain\n"], &mut w, &mut stats);
    typed_fault_family::<Vec<i64>>("Vec<i64>", &["- 12\n- 345\n", "[1, 22, 333]\n"], &mut w, &mut stats);
    // a long input with a small cap: the reader must not be drained past cap + allowance
    {
        let big = "k: ".to_string() + &"x".repeat(400_000) + "\n";
        for cap in [10i64, 5000, 70_000] {
            let rd = SchedReader::new(big.as_bytes(), big.len(), vec![4096; 200], false, kinds[0]);
            let pulled = rd.pulled.clone();
            let o = run_entry("reader", rd, cap);
            let ws: Vec<u8> = vec![];
            w.put(&Rec { id: format!("big-cap{cap}"), kind: "drain", entry: "reader", ws, avail: big.len(), ending: "eof", cap, sched: "4096".into(), out: o.clone(),
                         reff: o, has_ref: false, pulled: pulled.get(), yaml: "k: xxxx...(400000)", bom: false });
        }
    }
    // writer half of C10: every fault position for a few values
    {
        use std::collections::BTreeMap;
        let mut m: BTreeMap<String, Vec<serde_json::Value>> = BTreeMap::new();
        m.insert("alpha".into(), vec![serde_json::json!(1), serde_json::json!("two words"), serde_json::json!({"k": [1, 2, {"z": null}]})]);
        m.insert("beta é".into(), vec![serde_json::json!("multi\nline text\n"), serde_json::json!(3.5)]);
        m.insert("gamma".into(), vec![]);
        let mut full = Vec::new();
        serde_saphyr::to_io_writer(&mut full, &m).unwrap();
        let full_s = String::from_utf8(full.clone()).unwrap();
        let mut probe = FaultyWriter { got: vec![], fail_at_call: None, byte_limit: None, calls: 0 };
        serde_saphyr::to_io_writer(&mut probe, &m).unwrap();
        let ncalls = probe.calls;
        for k in 1..=ncalls {
            let mut fw = FaultyWriter { got: vec![], fail_at_call: Some(k), byte_limit: None, calls: 0 };
            let r = std::panic::catch_unwind(std::panic::AssertUnwindSafe(|| serde_saphyr::to_io_writer(&mut fw, &m))).unwrap_or_else(|_| Err(<serde_saphyr::ser_error::Error as serde::ser::Error>::custom("PANIC inside the crate")));
            let is_io = matches!(&r, Err(e) if format!("{e:?}").contains("IO") || format!("{e}").contains("injected"));
            w.put(&WriterRec { id: format!("wr-call{k}"), kind: "writer", mode: "call", k, full: &full_s, received: String::from_utf8_lossy(&fw.got).to_string(), res: if r.is_ok() { "ok" } else { "err" }, is_io });
        }
        for k in 0..full.len() {
            let mut fw = FaultyWriter { got: vec![], fail_at_call: None, byte_limit: Some(k), calls: 0 };
            let r = std::panic::catch_unwind(std::panic::AssertUnwindSafe(|| serde_saphyr::to_io_writer(&mut fw, &m))).unwrap_or_else(|_| Err(<serde_saphyr::ser_error::Error as serde::ser::Error>::custom("PANIC inside the crate")));
            let is_io = matches!(&r, Err(e) if format!("{e:?}").contains("IO") || format!("{e}").contains("disk full"));
            // compare on bytes: lossy conversion could hide a cut inside a multi-byte char, so hex both
            w.put(&WriterRec { id: format!("wr-byte{k}"), kind: "writer", mode: "byte", k, full: &hex(&full), received: hex(&fw.got), res: if r.is_ok() { "ok" } else { "err" }, is_io });
        }
    }
    // borrowing clause
    let scalars: Vec<(&str, &str, bool)> = vec![
        ("plain", "p", false), ("two words", "p", false), ("'single'", "s", false), ("'it''s'", "s", true), ("\"double\"", "d", false),
        ("\"esc\\n\"", "d", true), ("\"uni\\u00e9\"", "d", true), ("|\n  lit\n", "l", true), (">\n  fold\n  ed\n", "f", true), ("multi\n  line", "p", true),
        ("'multi\n  line'", "s", true), ("héllo", "p", false), ("\"héllo\"", "d", false),
    ];
    for (i, (src, style, transformed)) in scalars.iter().enumerate() {
        for wrap in ["{}", "k: {}", "- {}"] {
            if (*style == "l" || *style == "f") && wrap == "{}" {
                // block scalars at the root need a document start
            }
            let text = if wrap == "{}" { if *style == "l" || *style == "f" { format!("--- {src}") } else { format!("{src}\n") } } else { format!("{}\n", wrap.replace("{}", src)) };
            #[derive(serde::Deserialize)]
            #[serde(untagged)]
            enum B<'a> {
                S(#[serde(borrow)] &'a str),
                M(#[serde(borrow)] std::collections::BTreeMap<&'a str, &'a str>),
                Q(#[serde(borrow)] Vec<&'a str>),
            }
            #[derive(serde::Deserialize)]
            #[serde(untagged)]
            enum O {
                S(String),
                M(std::collections::BTreeMap<String, String>),
                Q(Vec<String>),
            }
            let owned = serde_saphyr::from_str::<O>(&text).ok().map(|o| match o {
                O::S(s) => s,
                O::M(m) => m.into_values().next().unwrap_or_default(),
                O::Q(q) => q.into_iter().next().unwrap_or_default(),
            });
            let bor = match wrap {
                "{}" => serde_saphyr::from_str::<&str>(&text).ok().map(|s| s.to_string()),
                "k: {}" => serde_saphyr::from_str::<std::collections::BTreeMap<&str, &str>>(&text).ok().and_then(|m| m.into_values().next().map(|s| s.to_string())),
                _ => serde_saphyr::from_str::<Vec<&str>>(&text).ok().and_then(|q| q.into_iter().next().map(|s| s.to_string())),
            };
            let _ = std::marker::PhantomData::<B>;
            let verbatim = owned.as_ref().map(|o| text.contains(o.as_str())).unwrap_or(false);
            // reader input never lends: a borrowed target cannot even be requested (DeserializeOwned bound); the
            // closure helper is the only way to try, and it must fail or give owned data
            let rl = serde_saphyr::with_deserializer_from_reader(std::io::Cursor::new(text.clone().into_bytes()), |de| {
                struct V;
                impl<'de> serde::de::Visitor<'de> for V {
                    type Value = bool;
                    fn expecting(&self, f: &mut std::fmt::Formatter) -> std::fmt::Result { f.write_str("any") }
                    fn visit_borrowed_str<E>(self, _: &'de str) -> Result<bool, E> { Ok(true) }
                    fn visit_str<E>(self, _: &str) -> Result<bool, E> { Ok(false) }
                    fn visit_string<E>(self, _: String) -> Result<bool, E> { Ok(false) }
                    fn visit_map<A: serde::de::MapAccess<'de>>(self, mut m: A) -> Result<bool, A::Error> {
                        let mut lent = false;
                        while let Some(k) = m.next_key_seed(Probe)? { lent |= k; lent |= m.next_value_seed(Probe)?; }
                        Ok(lent)
                    }
                    fn visit_seq<A: serde::de::SeqAccess<'de>>(self, mut s: A) -> Result<bool, A::Error> {
                        let mut lent = false;
                        while let Some(k) = s.next_element_seed(Probe)? { lent |= k; }
                        Ok(lent)
                    }
                    fn visit_unit<E>(self) -> Result<bool, E> { Ok(false) }
                }
                struct Probe;
                impl<'de> serde::de::DeserializeSeed<'de> for Probe {
                    type Value = bool;
                    fn deserialize<D: serde::de::Deserializer<'de>>(self, d: D) -> Result<bool, D::Error> { d.deserialize_str(V) }
                }
                serde::de::Deserializer::deserialize_any(de, V)
            })
            .unwrap_or(false);
            w.put(&BorrowRec { id: format!("bw{i}-{}", wrap.len()), kind: "borrow", style, transformed: *transformed, verbatim, borrowed_ok: bor.is_some(),
                               same_as_owned: bor.is_some() && bor == owned, reader_lends: rl, yaml: &text });
        }
    }
    stats.records = w.n;
    w.finish();
    stats.samples.push(serde_json::json!({"doc": "k: é\n", "schedules": "all 2^(n-1) compositions of 6 bytes", "entries": ["reader", "read", "wd"]}));
    stats.samples.push(serde_json::json!({"doc": "é: [ü, €, 𝄞]\n", "fault": "after byte k for every k, error kinds rotate", "cap": "n-3..n+1"}));
    println!("{}", serde_json::to_string(&stats).unwrap());
    0
}
