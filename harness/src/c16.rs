//! C16 — reported locations are consistent with the input and name the right node.
//! records (to TV_Locations): {kind: "span"|"err", text:[{w,c}], raw:[ev], pos:[loc], spans:[..] | err fields}
use crate::docgen::*;
use crate::model::*;
use crate::Args;
use saphyr_parser::{Event, Parser};
use serde::de::{self, MapAccess, SeqAccess, Visitor};
use serde::{Deserialize, Serialize};
use serde_saphyr::{Location, Spanned};

#[derive(Serialize, Clone, Debug, PartialEq, Default)]
pub struct Loc {
    line: i64,
    col: i64,
    off: i64,
    boff: i64,
    len: i64,
    blen: i64,
}
fn loc_of(l: &Location) -> Loc {
    let s = l.span();
    Loc { line: l.line() as i64, col: l.column() as i64, off: s.offset() as i64, boff: s.byte_offset().map(|x| x as i64).unwrap_or(-1), len: s.len() as i64, blen: s.byte_len().map(|x| x as i64).unwrap_or(-1) }
}

/// untyped tree in which EVERY node is wrapped in `Spanned`
#[derive(Debug)]
pub struct SpTree(pub Spanned<SpInner>);
#[derive(Debug)]
pub enum SpInner {
    Leaf(String),
    Seq(Vec<SpTree>),
    Map(Vec<(SpTree, SpTree)>),
}
impl<'de> Deserialize<'de> for SpTree {
    fn deserialize<D: de::Deserializer<'de>>(d: D) -> Result<SpTree, D::Error> {
        Spanned::<SpInner>::deserialize(d).map(SpTree)
    }
}
impl<'de> Deserialize<'de> for SpInner {
    fn deserialize<D: de::Deserializer<'de>>(d: D) -> Result<SpInner, D::Error> {
        struct V;
        impl<'de> Visitor<'de> for V {
            type Value = SpInner;
            fn expecting(&self, f: &mut std::fmt::Formatter) -> std::fmt::Result {
                f.write_str("any")
            }
            fn visit_str<E>(self, v: &str) -> Result<SpInner, E> { Ok(SpInner::Leaf(v.to_string())) }
            fn visit_bool<E>(self, v: bool) -> Result<SpInner, E> { Ok(SpInner::Leaf(v.to_string())) }
            fn visit_i64<E>(self, v: i64) -> Result<SpInner, E> { Ok(SpInner::Leaf(v.to_string())) }
            fn visit_u64<E>(self, v: u64) -> Result<SpInner, E> { Ok(SpInner::Leaf(v.to_string())) }
            fn visit_f64<E>(self, v: f64) -> Result<SpInner, E> { Ok(SpInner::Leaf(v.to_string())) }
            fn visit_unit<E>(self) -> Result<SpInner, E> { Ok(SpInner::Leaf("~".into())) }
            fn visit_seq<A: SeqAccess<'de>>(self, mut s: A) -> Result<SpInner, A::Error> {
                let mut v = vec![];
                while let Some(x) = s.next_element::<SpTree>()? { v.push(x); }
                Ok(SpInner::Seq(v))
            }
            fn visit_map<A: MapAccess<'de>>(self, mut m: A) -> Result<SpInner, A::Error> {
                let mut v = vec![];
                while let Some(k) = m.next_key::<SpTree>()? { let x = m.next_value::<SpTree>()?; v.push((k, x)); }
                Ok(SpInner::Map(v))
            }
        }
        d.deserialize_any(V)
    }
}
#[derive(Serialize, Clone, Default)]
struct SpanRec {
    k: String,
    r: Loc,
    d: Loc,
    /// source text of the reported byte range of `d` ("" when no byte range)
    src: String,
    a: Vec<SpanRec>,
    /// (not for the validator) the leaf's text
    #[serde(skip)]
    text: String,
}
fn to_rec(t: &SpTree, text: &str) -> SpanRec {
    let d = loc_of(&t.0.defined);
    let src = if d.boff >= 0 && d.blen >= 0 && (d.boff + d.blen) as usize <= text.len() && text.is_char_boundary(d.boff as usize) && text.is_char_boundary((d.boff + d.blen) as usize) {
        text[d.boff as usize..(d.boff + d.blen) as usize].to_string()
    } else {
        "?".to_string()
    };
    let (k, a, leaf) = match &t.0.value {
        SpInner::Leaf(s) => ("S", vec![], s.clone()),
        SpInner::Seq(v) => ("SS", v.iter().map(|x| to_rec(x, text)).collect(), String::new()),
        SpInner::Map(v) => ("MS", v.iter().flat_map(|(k, x)| [to_rec(k, text), to_rec(x, text)]).collect(), String::new()),
    };
    SpanRec { k: k.into(), r: loc_of(&t.0.referenced), d, src, a, text: leaf }
}
/// pre-order list of the nodes that are not mapping keys
fn value_sites<'a>(o: &'a SpanRec, out: &mut Vec<&'a SpanRec>) {
    out.push(o);
    match o.k.as_str() {
        "SS" => o.a.iter().for_each(|x| value_sites(x, out)),
        "MS" => o.a.iter().skip(1).step_by(2).for_each(|x| value_sites(x, out)),
        _ => {}
    }
}

/// shape-directed typed tree: every leaf is read as a string except the one site asked for as an integer
#[derive(Debug)]
pub enum ITree {
    I(i64),
    Seq(Vec<ITree>),
    Map(Vec<(String, ITree)>),
}
impl<'de> Deserialize<'de> for ITree {
    fn deserialize<D: de::Deserializer<'de>>(d: D) -> Result<ITree, D::Error> {
        // decide by peeking through an untagged-like probe: sequences and maps via deserialize_any would lose the typed
        // request, so ask for what the document shape says (the harness knows the shape and builds the type accordingly)
        SHAPE.with(|s| {
            let shape = s.borrow_mut().pop_front();
            match shape.as_deref() {
                Some("S") => String::deserialize(d).map(|_| ITree::I(0)),
                Some("I") => i64::deserialize(d).map(ITree::I),
                Some("SS") => {
                    struct V;
                    impl<'de> Visitor<'de> for V {
                        type Value = ITree;
                        fn expecting(&self, f: &mut std::fmt::Formatter) -> std::fmt::Result { f.write_str("seq") }
                        fn visit_seq<A: SeqAccess<'de>>(self, mut s: A) -> Result<ITree, A::Error> {
                            let mut v = vec![];
                            while let Some(x) = s.next_element::<ITree>()? { v.push(x); }
                            Ok(ITree::Seq(v))
                        }
                    }
                    d.deserialize_seq(V)
                }
                Some("MS") => {
                    struct V;
                    impl<'de> Visitor<'de> for V {
                        type Value = ITree;
                        fn expecting(&self, f: &mut std::fmt::Formatter) -> std::fmt::Result { f.write_str("map") }
                        fn visit_map<A: MapAccess<'de>>(self, mut m: A) -> Result<ITree, A::Error> {
                            let mut v = vec![];
                            while let Some(k) = m.next_key::<String>()? {
                                let x = m.next_value::<ITree>()?;
                                v.push((k, x));
                            }
                            Ok(ITree::Map(v))
                        }
                    }
                    d.deserialize_map(V)
                }
                _ => Err(de::Error::custom("shape exhausted")),
            }
        })
    }
}
thread_local! {
    static SHAPE: std::cell::RefCell<std::collections::VecDeque<String>> = const { std::cell::RefCell::new(std::collections::VecDeque::new()) };
}

#[derive(Serialize)]
struct TextCh {
    w: u8,
    c: &'static str,
}
fn text_classes(text: &str) -> Vec<TextCh> {
    text.chars().map(|ch| TextCh { w: ch.len_utf8() as u8, c: match ch { '\n' => "LF", '\r' => "CR", '\t' => "TAB", _ => "x" } }).collect()
}
/// independent positions of the content events, straight from saphyr-parser
fn raw_with_pos(text: &str) -> Option<(Vec<AEv>, Vec<Loc>)> {
    let mut evs = vec![];
    let mut pos = vec![];
    for item in Parser::new_from_str(text) {
        let (ev, span) = item.ok()?;
        let l = Loc { line: span.start.line() as i64, col: span.start.col() as i64 + 1, off: span.start.index() as i64, boff: span.start.byte_offset().map(|b| b as i64).unwrap_or(-1), len: 0, blen: 0 };
        let a = match ev {
            Event::Scalar(v, st, id, _) => AEv::new("S", id as u32, &v, style_code(st), ""),
            Event::SequenceStart(id, _) => AEv::new("SS", id as u32, "", "p", ""),
            Event::SequenceEnd => AEv::new("SE", 0, "", "p", ""),
            Event::MappingStart(id, _) => AEv::new("MS", id as u32, "", "p", ""),
            Event::MappingEnd => AEv::new("ME", 0, "", "p", ""),
            Event::Alias(id) => AEv::new("AL", id as u32, "", "p", ""),
            _ => continue,
        };
        evs.push(a);
        pos.push(l);
    }
    Some((evs, pos))
}

#[derive(Serialize)]
struct Rec<'a> {
    id: String,
    kind: &'a str,
    yaml: &'a str,
    text: Vec<TextCh>,
    raw: Vec<AEv>,
    pos: Vec<Loc>,
    tree: SpanRec,
    /// err records: 1-based index of the provoked node among the non-key nodes of `tree` (pre-order)
    site: i64,
    hasloc: bool,
    eprimary: Loc,
    eref: Loc,
    edef: Loc,
    eclass: String,
}

fn decorate_text(base: &str, rng: &mut Rng) -> String {
    // comment lines with multi-byte text, CRLF / CR line endings, trailing blanks before comments
    let mut lines: Vec<String> = base.lines().map(|l| l.to_string()).collect();
    if rng.chance(1, 2) {
        let at = rng.below(lines.len() + 1);
        lines.insert(at, "# çömmént 𝄞".to_string());
    }
    if rng.chance(1, 3) && !lines.is_empty() {
        let i = rng.below(lines.len());
        if !lines[i].contains('#') && !lines[i].trim_end().ends_with('|') && !lines[i].trim_end().ends_with('>') && !lines[i].trim().is_empty() {
            lines[i].push_str(" \t# tail é");
        }
    }
    let nl = match rng.below(4) { 0 => "\r\n", 1 => "\r", _ => "\n" };
    let mut t = lines.join(nl);
    t.push_str(nl);
    if rng.chance(1, 3) {
        t = format!("# héad{nl}{t}");
    }
    t
}

/// the document's events with unique keys, no alias inside its own anchor, and merge entries sprinkled in
fn shape_doc(doc: &[AEv], idname: &mut Vec<String>, counter: &mut usize, rng: &mut Rng, merges: bool) -> Vec<AEv> {
    let mut out: Vec<AEv> = vec![];
    let mut stack: Vec<(bool, bool)> = vec![]; // (is_map, expecting_key)
    let mut open: Vec<u32> = vec![];
    let mut done_maps: Vec<u32> = vec![]; // anchors of completed mappings
    let mut key_anchors: Vec<Vec<u32>> = vec![]; // per open mapping: anchors put on its keys
    let mut done_keys: Vec<u32> = vec![]; // key anchors of completed mappings, each used at most once as an alias key
    let mut next_id = idname.len() as u32;
    for e in doc.iter() {
        let mut e = e.clone();
        let at_key = matches!(stack.last(), Some((true, true)));
        if e.k == "AL" && open.contains(&e.a) {
            e = AEv::new("S", 0, "w7", "p", "");
        }
        // before a key (or the end) of a mapping: maybe a merge entry
        if merges && at_key && rng.chance(1, 3) {
            let mut src = |rng: &mut Rng, out: &mut Vec<AEv>, counter: &mut usize| {
                if !done_maps.is_empty() && rng.chance(2, 3) {
                    let id = *rng.pick(&done_maps);
                    out.push(AEv::new("AL", id, "", "p", ""));
                } else {
                    out.push(AEv::new("MS", 0, "", "p", ""));
                    for _ in 0..1 + rng.below(2) {
                        *counter += 1;
                        out.push(AEv::new("S", 0, &format!("m{counter}"), "p", ""));
                        out.push(AEv::new("S", 0, "mv é", "p", ""));
                    }
                    out.push(AEv::new("ME", 0, "", "p", ""));
                }
            };
            out.push(AEv::new("S", 0, "<<", "p", ""));
            if rng.chance(1, 3) {
                out.push(AEv::new("SS", 0, "", "p", ""));
                for _ in 0..1 + rng.below(2) {
                    src(rng, &mut out, counter);
                }
                out.push(AEv::new("SE", 0, "", "p", ""));
            } else {
                src(rng, &mut out, counter);
            }
        }
        match e.k.as_str() {
            "SS" => open.push(e.a),
            "MS" => { open.push(e.a); key_anchors.push(vec![]); }
            "SE" => { open.pop(); }
            "ME" => {
                if let Some(a) = open.pop() {
                    if a != 0 { done_maps.push(a); }
                }
                done_keys.extend(key_anchors.pop().unwrap_or_default());
            }
            _ => {}
        }
        match e.k.as_str() {
            "S" | "AL" => {
                if at_key {
                    // keys: unique scalars; now and then an alias to an anchored scalar defined for the purpose
                    *counter += 1;
                    let name = if *counter % 3 == 0 { format!("ké{counter}") } else { format!("k{counter}") };
                    e = AEv::new("S", 0, &name, "p", "");
                    if *counter % 5 == 0 {
                        e.a = next_id;
                        idname.push(format!("ka{counter}"));
                        if let Some(ks) = key_anchors.last_mut() { ks.push(next_id); }
                        next_id += 1;
                    } else if !done_keys.is_empty() && rng.chance(1, 3) {
                        // the key is an alias to a key of an earlier, finished mapping
                        let id = done_keys.swap_remove(rng.below(done_keys.len()));
                        e = AEv::new("AL", id, "", "p", "");
                    }
                }
                if let Some((true, ek)) = stack.last_mut() { *ek = !*ek; }
            }
            "SS" | "MS" => {
                if let Some((true, ek)) = stack.last_mut() { *ek = !*ek; }
                stack.push((e.k == "MS", true));
                if at_key {
                    // a container used as a key: a unique first member keeps mapping keys distinct
                    *counter += 1;
                    let is_map = e.k == "MS";
                    out.push(e);
                    out.push(AEv::new("S", 0, &format!("u{counter}"), "p", ""));
                    if is_map { out.push(AEv::new("S", 0, "1", "p", "")); }
                    continue;
                }
            }
            _ => { stack.pop(); }
        }
        out.push(e);
    }
    out
}

#[derive(Default, Serialize)]
struct Stats {
    records: usize,
    nontrivial: usize,
    span_records: usize,
    err_records: usize,
    syn_records: usize,
    with_alias: usize,
    with_merge: usize,
    alias_keys: usize,
    err_through_alias_or_merge: usize,
    samples: Vec<serde_json::Value>,
}

fn err_fields(r: Result<Result<ITree, serde_saphyr::Error>, String>) -> (bool, Loc, Loc, Loc, String) {
    match r {
        Ok(Err(e)) => {
            let pl = e.location().map(|l| loc_of(&l));
            let (rl, dl) = e.locations().map(|ls| (loc_of(&ls.reference_location), loc_of(&ls.defined_location))).unwrap_or_default();
            (pl.is_some(), pl.unwrap_or_default(), rl, dl, classify(&e))
        }
        Ok(Ok(_)) => (false, Loc::default(), Loc::default(), Loc::default(), "NOERROR".to_string()),
        Err(p) => (false, Loc::default(), Loc::default(), Loc::default(), format!("PANIC:{p}")),
    }
}

pub fn run(args: &Args) -> i32 {
    let out = args.req("out");
    let mut w = NdWriter::create(out);
    let mut stats = Stats::default();
    let mut rng = Rng::new(args.num("seed", 1));
    let n = args.num("random", 300) as usize;
    let mut counter = 0usize;
    let fixed: Vec<&str> = vec![
        "a: \"x\" \t# trailing comment\nb: 'y'   \n",
        "- &a 'q' # c\n- *a\n",
        "k: &m {p: é, q: [𝄞, w]}\nu: *m\nv: {<<: *m, r: z}\n",
        "base: &b\r\n  ké: v\r\nuse:\r\n  <<: *b\r\n  own: w\r\n",
        "\t\n# only comment\n- x\n",
        "--- # doc start\n- é: [1, two]\n...\n",
        "? complex\n: value\n",
        "- |\n  lit é\n  more\n- >\n  folded\n  text\n- plain\n  continued\n",
    ];
    // prefixes enumerated by MC_Locations: every sequence of <= MaxLen characters over the six classes, written as comment
    // lines in front of (and, on the last line, as a key in front of) a small document
    let mut prefixed: Vec<String> = vec![];
    if let Some(cases) = args.get("cases") {
        let cases = cases.to_string();
        #[derive(Deserialize)]
        struct Ch { w: u8, c: String }
        #[derive(Deserialize)]
        struct Case { t: Vec<Ch> }
        for c in read_ndjson::<Case>(&cases) {
            let mut s = String::from("#");
            for ch in &c.t {
                match (ch.c.as_str(), ch.w) {
                    ("LF", _) => s.push_str("\n#"),
                    ("CR", _) => s.push_str("\r#"),
                    ("TAB", _) => s.push('\t'),
                    (_, 1) => s.push('a'),
                    (_, 2) => s.push('é'),
                    _ => s.push('𝄞'),
                }
            }
            // the document proper: a key made of the same kinds of characters, an anchored value and an alias
            prefixed.push(format!("{s}\naé𝄞:\t&x \"q𝄞\"\né: *x\n"));
        }
    }
    // debugging aid: `--one <file>` runs a single document
    let one_text: Option<String> = args.get("one").map(|p| std::fs::read_to_string(p).expect("read --one"));
    let fixed: Vec<&str> = match &one_text { Some(t) => vec![t.as_str()], None => fixed };
    let n = if one_text.is_some() { 0 } else { n };
    let nf = fixed.len() + prefixed.len();
    for i in 0..n + nf {
        let text: String = if i < fixed.len() { fixed[i].to_string() } else if i < nf { std::mem::take(&mut prefixed[i - fixed.len()]) } else {
        let merges = i % 3 == 2;
        let g = DocGen {
            max_events: 30,
            max_depth: 4,
            scalars: sv(&[("x", "p"), ("é", "p"), ("ünï", "d"), ("𝄞", "p"), ("two words", "p"), ("q", "s"), ("1", "p"), ("w z", "d")]),
            key_scalars: sv(&[("k", "p")]),
            names: 3,
            p_anchor: (1, 3),
            p_alias: (1, 4),
            // every fourth document may use sequences / mappings as keys (nodes inside a complex key carry locations too)
            container_keys: i % 4 == 1,
        };
        let (doc0, mut idname) = g.generate(&mut rng);
        // one name per definition: resolution by name (YAML) and by id (the generator) then agree
        for (id, nm) in idname.iter_mut().enumerate().skip(1) {
            *nm = format!("n{id}");
        }
        let doc = shape_doc(&doc0, &mut idname, &mut counter, &mut rng, merges);
        let Ok(nodes) = nodes_from_events(&doc) else { continue };
        let nm = Names(Some(&idname));
        let base = if rng.chance(1, 2) { format!("{}\n", render_flow(&nodes[0], &nm)) } else { render_block(&nodes[0], &nm) };
        if base.starts_with("---") {
            continue;
        }
        decorate_text(&base, &mut rng)
        };
        let Some((raw, pos)) = raw_with_pos(&text) else { continue };
        let has_alias = raw.iter().any(|e| e.k == "AL");
        let has_merge = raw.iter().any(|e| e.k == "S" && e.v == "<<" && e.q == "p");
        // the input as handed to the library: now and then behind a byte order mark (positions are those of the stripped text)
        let input = if rng.chance(1, 6) || args.get("bom").is_some() { format!("\u{feff}{text}") } else { text.clone() };
        // (a) every node wrapped in the span-carrying type
        let t2 = input.clone();
        let parsed = guarded(move || serde_saphyr::from_str::<SpTree>(&t2));
        let (tree, eclass) = match parsed {
            Ok(Ok(t)) => (to_rec(&t, &text), String::new()),
            Ok(Err(e)) => (SpanRec::default(), classify(&e)),
            Err(p) => (SpanRec::default(), format!("PANIC:{p}")),
        };
        stats.span_records += 1;
        if has_alias { stats.with_alias += 1; }
        if has_merge { stats.with_merge += 1; }
        {
            let mut stack: Vec<(bool, bool)> = vec![];
            for e in raw.iter() {
                let at_key = matches!(stack.last(), Some((true, true)));
                match e.k.as_str() {
                    "S" | "AL" => { if at_key && e.k == "AL" { stats.alias_keys += 1; } if let Some((true, ek)) = stack.last_mut() { *ek = !*ek; } }
                    "SS" | "MS" => { if let Some((true, ek)) = stack.last_mut() { *ek = !*ek; } stack.push((e.k == "MS", true)); }
                    _ => { stack.pop(); }
                }
            }
        }
        if has_alias || has_merge {
            stats.nontrivial += 1;
            if stats.samples.len() < 3 {
                stats.samples.push(serde_json::json!({"yaml": text}));
            }
        }
        let ok = eclass.is_empty();
        w.put(&Rec { id: format!("sp{i}"), kind: "span", yaml: &text, text: text_classes(&text), raw: raw.clone(), pos: pos.clone(), tree: tree.clone(), site: 0, hasloc: false, eprimary: Loc::default(), eref: Loc::default(), edef: Loc::default(), eclass });
        // (b) a type error provoked at every non-key node in turn: the typed target asks for an integer there
        let container_keys = { let mut st: Vec<(bool, bool)> = vec![]; let mut found = false; for e in raw.iter() { let at_key = matches!(st.last(), Some((true, true))); match e.k.as_str() { "S" | "AL" => { if let Some((true, ek)) = st.last_mut() { *ek = !*ek; } } "SS" | "MS" => { if at_key { found = true; } if let Some((true, ek)) = st.last_mut() { *ek = !*ek; } st.push((e.k == "MS", true)); } _ => { st.pop(); } } } found };
        if ok && !container_keys {
            let mut sites = vec![];
            value_sites(&tree, &mut sites);
            let shape: Vec<String> = sites.iter().map(|o| o.k.clone()).collect();
            for (si, o) in sites.iter().enumerate() {
                if o.k == "S" && o.text.trim().parse::<f64>().is_ok() {
                    continue;
                }
                if sites.len() > 12 && !rng.chance(12, sites.len()) {
                    continue;
                }
                let mut sh = shape.clone();
                sh[si] = "I".into();
                SHAPE.with(|s| { let mut q = s.borrow_mut(); q.clear(); q.extend(sh.iter().cloned()); });
                let t3 = input.clone();
                let r = guarded(move || serde_saphyr::from_str::<ITree>(&t3));
                let (hasloc, eprimary, eref, edef, eclass) = err_fields(r);
                stats.err_records += 1;
                if (o.r.line, o.r.col) != (o.d.line, o.d.col) { stats.err_through_alias_or_merge += 1; }
                w.put(&Rec { id: format!("er{i}-{si}"), kind: "err", yaml: &text, text: text_classes(&text), raw: raw.clone(), pos: pos.clone(), tree: tree.clone(), site: si as i64 + 1, hasloc, eprimary, eref, edef, eclass });
            }
        }
        // (c) malformed variants: whatever location a syntax error carries must lie in the text and be self-consistent
        for v in 0..(if i >= fixed.len() && i < nf { 0 } else { 3 }) {
            let chars: Vec<char> = text.chars().collect();
            if chars.is_empty() { break; }
            let at = rng.below(chars.len());
            let mutated: String = match v {
                0 => chars[..at].iter().collect(),
                1 => { let mut c = chars.clone(); c.insert(at, *rng.pick(&[']', '}', ':', '\t', '"', '*', '&', '%', '|', 'é'])); c.into_iter().collect() }
                _ => { let mut c = chars.clone(); c.remove(at); c.into_iter().collect() }
            };
            // the library's reader path is known to hang on a directive at end of input; strings are fine
            SHAPE.with(|s| { let mut q = s.borrow_mut(); q.clear(); });
            let m2 = mutated.clone();
            // (an untyped target: whatever fails is the text itself - a syntax error, an unknown alias, a repeated key)
            let r = guarded(move || serde_saphyr::from_str::<Tree>(&m2).map(|_| ITree::I(0)));
            let (hasloc, eprimary, eref, edef, eclass) = err_fields(r);
            if eclass == "NOERROR" { continue; }
            stats.syn_records += 1;
            w.put(&Rec { id: format!("sy{i}-{v}"), kind: "syn", yaml: &mutated, text: text_classes(&mutated), raw: vec![], pos: vec![], tree: SpanRec::default(), site: 0, hasloc, eprimary, eref, edef, eclass });
        }
    }
    stats.records = w.n;
    w.finish();
    println!("{}", serde_json::to_string(&stats).unwrap());
    0
}
