//! C17 — rendered error reports: terminal-safe, cropped, on the right line.
//! records (to TV_Snippet): {kind:"render", text:[cp], radius, snippet, entry, fmt, locs:[{line,col}], out:[{kind,no,content,caret,raw}], panic}
//!                          {kind:"miette", text:[cp], loc:{line,col,off,len}, labels:[{off,len}], out:[[cp]], panic}
use crate::docgen::*;
use crate::model::*;
use crate::Args;
use serde::{Deserialize, Serialize};
use serde_saphyr::{DefaultMessageFormatter, Error, MessageFormatter, Options, SnippetMode, UserMessageFormatter};
use std::borrow::Cow;
use std::collections::HashMap;

#[derive(Deserialize, Debug)]
#[serde(deny_unknown_fields)]
#[allow(dead_code)]
struct Strict {
    a: i32,
}
#[derive(Deserialize, Debug)]
#[allow(dead_code)]
enum En {
    A,
    B,
}
#[derive(Deserialize, Debug)]
#[allow(dead_code)]
struct Pair {
    a: String,
    b: i32,
}

mod gv {
    use garde::Validate;
    use serde::Deserialize;
    #[derive(Deserialize, Debug, Validate)]
    pub struct VInner {
        #[garde(length(min = 2))]
        pub name: String,
    }
    #[derive(Deserialize, Debug, Validate)]
    pub struct VOuter {
        #[garde(dive)]
        pub a: VInner,
        #[garde(dive)]
        pub b: VInner,
        #[garde(dive)]
        pub c: VInner,
    }
}

struct Custom;
impl MessageFormatter for Custom {
    fn format_message<'a>(&self, err: &'a Error) -> Cow<'a, str> {
        Cow::Owned(format!("E> {}", DefaultMessageFormatter.format_message(err)))
    }
}

#[derive(Serialize, Default)]
struct OutLine {
    kind: &'static str,
    no: i64,
    content: Vec<u32>,
    caret: i64,
    raw: Vec<u32>,
}
/// one-to-one classification of a rendered line from its gutter syntax
fn classify_line(l: &str) -> OutLine {
    let raw: Vec<u32> = l.chars().map(|c| c as u32).collect();
    let cs: Vec<char> = l.chars().collect();
    let mut i = 0;
    while i < cs.len() && cs[i] == ' ' {
        i += 1;
    }
    let d0 = i;
    while i < cs.len() && cs[i].is_ascii_digit() {
        i += 1;
    }
    let digits: String = cs[d0..i].iter().collect();
    if !digits.is_empty() {
        // `NN |` or `NN | content`
        if i + 1 < cs.len() && cs[i] == ' ' && cs[i + 1] == '|' && (i + 2 == cs.len() || cs[i + 2] == ' ') {
            let content: Vec<u32> = if i + 3 <= cs.len() { cs[i + 3..].iter().map(|c| *c as u32).collect() } else { vec![] };
            if let Ok(no) = digits.parse::<i64>() {
                return OutLine { kind: "src", no, content, caret: 0, raw };
            }
        }
        return OutLine { kind: "other", raw, ..Default::default() };
    }
    if d0 > 0 && i < cs.len() && cs[i] == '|' {
        if i + 1 == cs.len() {
            return OutLine { kind: "bar", raw, ..Default::default() };
        }
        if cs[i + 1] == ' ' {
            let mut j = i + 2;
            while j < cs.len() && cs[j] == ' ' {
                j += 1;
            }
            if j < cs.len() && cs[j] == '^' {
                return OutLine { kind: "mark", caret: (j - (i + 2)) as i64 + 1, raw, ..Default::default() };
            }
            if j == cs.len() {
                return OutLine { kind: "bar", raw, ..Default::default() };
            }
        }
    }
    OutLine { kind: "other", raw, ..Default::default() }
}

#[derive(Serialize)]
struct LC {
    line: i64,
    col: i64,
    off: i64,
    len: i64,
}
#[derive(Serialize)]
struct Label {
    off: i64,
    len: i64,
    /// the characters of the report's own source the label covers
    txt: Vec<u32>,
}
#[derive(Serialize)]
struct Rec<'a> {
    id: String,
    kind: &'a str,
    yaml: &'a str,
    text: Vec<u32>,
    /// the text split at LF / CR LF / lone CR
    lines: Vec<Vec<u32>>,
    radius: i64,
    snippet: bool,
    entry: &'a str,
    fmt: &'a str,
    locs: Vec<LC>,
    out: Vec<OutLine>,
    labels: Vec<Label>,
    panic: String,
    /// the error is a validation error (the reader's validating entry points print issues without snippets)
    validation: bool,
}

fn lc(l: &serde_saphyr::Location) -> LC {
    LC { line: l.line() as i64, col: l.column() as i64, off: l.span().offset() as i64, len: l.span().len() as i64 }
}

#[derive(Clone, Copy, PartialEq)]
enum Target {
    Strict,
    Map,
    Enum,
    Pair,
    Int,
    Bytes,
    Valid,
}
fn parse(target: Target, text: &str, entry: &str, opts: Options) -> Option<Error> {
    macro_rules! go {
        ($t:ty) => {
            match entry {
                "reader" => serde_saphyr::from_reader_with_options::<_, $t>(std::io::Cursor::new(text.as_bytes().to_vec()), opts).err(),
                "slice" => serde_saphyr::from_slice_with_options::<$t>(text.as_bytes(), opts).err(),
                _ => serde_saphyr::from_str_with_options::<$t>(text, opts).err(),
            }
        };
    }
    match target {
        Target::Strict => go!(Strict),
        Target::Map => go!(HashMap<String, i32>),
        Target::Enum => go!(En),
        Target::Pair => go!(Pair),
        Target::Int => go!(i32),
        Target::Bytes => go!(Vec<u8>),
        Target::Valid => match entry {
            "reader" => serde_saphyr::from_reader_with_options_valid::<_, gv::VOuter>(std::io::Cursor::new(text.as_bytes().to_vec()), opts).err(),
            "slice" => serde_saphyr::from_slice_with_options_valid::<gv::VOuter>(text.as_bytes(), opts).err(),
            _ => serde_saphyr::from_str_with_options_valid::<gv::VOuter>(text, opts).err(),
        },
    }
}

struct Doc {
    text: String,
    target: Target,
    family: &'static str,
}

/// key / value pieces written with YAML escapes (reflected into messages) or raw (shown in source lines)
const ESCAPED: &[&str] = &["\\e[31m", "\\x07", "\\u009b", "\\x7f", "\\0", "\\r", "\\x1b]0;t\\x07", "\\u0085", "\\u2028", "é", "k", "\\t", "\\x9c", "\\b"];
const RAWS: &[&str] = &["\u{1b}[31m", "\u{7}", "\u{9b}", "\u{7f}", "\u{1b}]0;t\u{7}", "é", "𝄞", "w", "\u{8}", "\u{80}", "\u{9f}", "\u{1}"];

fn filler(rng: &mut Rng, n: usize, raws: bool) -> String {
    let mut s = String::new();
    let mut k = 0;
    while k < n {
        if raws && rng.chance(1, 6) {
            let p = *rng.pick(RAWS);
            let pc = p.chars().count();
            if k + pc <= n {
                s.push_str(p);
                k += pc;
                continue;
            }
        }
        s.push(*rng.pick(&['a', 'b', 'é', 'ü', 'z', '0', '-', '_']));
        k += 1;
    }
    s
}

fn fillr(rng: &mut Rng, base: usize, span: usize, raws: bool) -> String {
    let n = base + rng.below(span);
    filler(rng, n, raws)
}

fn gen_doc(rng: &mut Rng, i: usize) -> Doc {
    let nl = match rng.below(5) { 0 => "\r\n", 1 if i % 10 == 9 => "\r", _ => "\n" };
    let esc_key = |rng: &mut Rng| -> String {
        let mut s = String::new();
        for _ in 0..1 + rng.below(3) {
            s.push_str(*rng.pick(ESCAPED));
        }
        s
    };
    let ctx = |rng: &mut Rng| -> String {
        let n = match rng.below(5) { 0 => 0, 1 => 1 + rng.below(5), 2 => 10 + rng.below(40), 3 => 100 + rng.below(200), _ => 3 + rng.below(12) };
        if n == 0 { String::new() } else { format!("#{}", filler(rng, n - 1, true)) }
    };
    let mut lines: Vec<String> = vec![];
    for _ in 0..rng.below(4) {
        lines.push(ctx(rng));
    }
    let (target, family): (Target, &'static str) = match i % 8 {
        0 => {
            // unknown field reflected
            lines.push(format!("\"b{}\": 1", esc_key(rng)));
            (Target::Strict, "unknown-field")
        }
        1 => {
            let k = esc_key(rng);
            lines.push(format!("\"d{k}\": 1"));
            for _ in 0..rng.below(3) { lines.push(ctx(rng)); }
            lines.push(format!("\"d{k}\": 2"));
            (Target::Map, "duplicate-key")
        }
        2 => {
            lines.push(format!("\"C{}\"", esc_key(rng)));
            (Target::Enum, "unknown-variant")
        }
        3 => {
            // long flow mapping on one line, the bad value somewhere inside
            let n = 2 + rng.below(40);
            let bad = rng.below(n);
            let mut s = String::from("{");
            for j in 0..n {
                if j > 0 { s.push_str(", "); }
                let key = format!("{}{}", fillr(rng, 1, 6, false).replace('-', "q").replace('0', "r"), j);
                if j == bad { s.push_str(&format!("k{key}: \"x{}\"", fillr(rng, 0, 4, true).replace('"', "").replace('\\', ""))); } else { s.push_str(&format!("k{key}: {}", rng.below(100))); }
            }
            s.push('}');
            lines.push(s);
            (Target::Map, "long-line")
        }
        4 => {
            // alias: the error is raised at the use site and also shows the definition
            lines.push(format!("a: &x \"v{}\"", fillr(rng, 0, 30, true).replace('"', "").replace('\\', "")));
            for _ in 0..rng.below(6) { lines.push(ctx(rng)); }
            lines.push("b: *x".to_string());
            (Target::Pair, "alias")
        }
        5 => {
            // syntax errors towards the end of input
            let v = *rng.pick(&["a: [1, 2", "a: {b: 1", "a: \"unterminated", "a: 'unterminated", "a: 1\n  b: 2", "a: @x", "a: b: c", "- 1\n-2: ["]);
            for l in v.split('\n') { lines.push(l.to_string()); }
            if rng.chance(1, 2) { return Doc { text: lines.join(nl), target: Target::Map, family: "syntax" }; }
            (Target::Map, "syntax")
        }
        6 => {
            // raw controls on the error line itself
            let pre = fillr(rng, 0, 20, false).replace('-', "q").replace('0', "r");
            lines.push(format!("k{pre}: \"x{}\" # {}", fillr(rng, 0, 10, true).replace('"', "").replace('\\', ""), fillr(rng, 0, 120, true)));
            (Target::Map, "raw-controls")
        }
        7 if i % 16 == 7 => {
            // many short lines, longer than the reader's recent-bytes window, the error near the end:
            // the window then starts at an arbitrary alignment (sometimes exactly at a line break)
            lines.clear();
            if rng.chance(1, 3) { lines.push(String::new()); }
            let mut total = 0;
            let mut j = 0;
            while total < 3300 + rng.below(600) {
                let l = format!("k{j}: {}", rng.below(1000));
                let l = if rng.chance(1, 4) { format!("{l} #{}", fillr(rng, 0, 25, false)) } else if rng.chance(1, 6) { String::new() } else { l };
                total += l.len() + 1;
                lines.push(l);
                j += 1;
            }
            // the failing line anywhere in the retained tail: at the very end, or with up to ~150 lines after it (a window
            // whose first line number is wrong then still has a line to show under the reported number)
            let bad = format!("bad{}: x", fillr(rng, 0, 8, false).replace('-', "q").replace('0', "r"));
            let after = if rng.chance(1, 3) { rng.below(3) } else { 10 + rng.below(140) };
            let at = lines.len().saturating_sub(after).max(1);
            lines.insert(at, bad);
            let mut text = lines.join("\n");
            text.push('\n');
            return Doc { text, target: Target::Map, family: "ring" };
        }
        7 if i % 16 == 15 => {
            // a validation error with several issues a few lines apart (one window per issue, or two through an alias)
            let bad = |rng: &mut Rng| if rng.chance(2, 3) { "x" } else { "fine" };
            let through = rng.chance(1, 2);
            if through { lines.push(format!("d: &d {{name: {}}}", bad(rng))); }
            for k in ["a", "b", "c"] {
                for _ in 0..rng.below(3) { lines.push(ctx(rng)); }
                if through && k == "b" { lines.push("b: *d".to_string()); continue; }
                lines.push(format!("{k}:"));
                lines.push(format!("  name: {}", bad(rng)));
            }
            (Target::Valid, "validation")
        }
        _ => {
            // a huge line (storage-time cropping: > 4 KiB)
            let n = 4200 + rng.below(3000);
            lines.push(format!("a: \"{}\"", filler(rng, n, false)));
            lines.push(ctx(rng));
            lines.push(format!("b: [{}", fillr(rng, 10, 5000, false).replace('-', "q")));
            (Target::Map, "huge-line")
        }
    };
    for _ in 0..rng.below(4) {
        lines.push(ctx(rng));
    }
    let mut text = lines.join(nl);
    text.push_str(nl);
    if rng.chance(1, 8) {
        text = format!("\u{feff}{text}");
    }
    Doc { text, target, family }
}

#[derive(Deserialize)]
struct Case {
    n: usize,
    np: usize,
    nx: usize,
    c: usize,
    r: usize,
}
/// MC_Snippet grid case: an error at column c of a line of exactly n characters, between comment lines of np / nx characters
fn grid_doc(c: &Case, scale: usize, rng: &mut Rng) -> Option<Doc> {
    let (n, np, nx, col) = (c.n * scale, c.np * scale, c.nx * scale, (c.c - 1) * scale + 1);
    if col > n { return None; }
    let mut line = " ".repeat(col - 1);
    line.push('x');
    let rest = n - col;
    match rest {
        0 => {}
        1 => line.push('y'),
        _ => { line.push_str(" #"); line.push_str(&filler(rng, rest - 2, false)); }
    }
    let cm = |k: usize, rng: &mut Rng| if k == 0 { String::new() } else { format!("#{}", filler(rng, k - 1, false)) };
    let text = format!("{}\n{}\n{}\n", cm(np, rng), line, cm(nx, rng));
    Some(Doc { text, target: Target::Int, family: "grid" })
}

#[derive(Default, Serialize)]
struct Stats {
    records: usize,
    nontrivial: usize,
    renders: usize,
    miette: usize,
    with_window: usize,
    dual: usize,
    cropped: usize,
    reflected_controls: usize,
    families: HashMap<String, usize>,
    samples: Vec<serde_json::Value>,
}

fn split_lines(t: &str) -> Vec<Vec<u32>> {
    let cs: Vec<char> = t.chars().collect();
    let mut out = vec![];
    let mut cur = vec![];
    let mut i = 0;
    while i < cs.len() {
        match cs[i] {
            '\n' => out.push(std::mem::take(&mut cur)),
            '\r' => {
                out.push(std::mem::take(&mut cur));
                if i + 1 < cs.len() && cs[i + 1] == '\n' { i += 1; }
            }
            c => cur.push(c as u32),
        }
        i += 1;
    }
    out.push(cur);
    out
}

fn render_all(doc: &Doc, id: &str, radii: &[usize], rng: &mut Rng, w: &mut NdWriter, stats: &mut Stats, full: bool) {
    let stripped = doc.text.strip_prefix('\u{feff}').unwrap_or(&doc.text);
    let text_cp: Vec<u32> = stripped.chars().map(|c| c as u32).collect();
    let lines = split_lines(stripped);
    let entries: &[&str] = &["str", "reader", "slice"];
    let fmts: &[&str] = &["dev", "user", "custom"];
    for &radius in radii {
        for (ei, entry) in entries.iter().enumerate() {
            for (fi, fmt) in fmts.iter().enumerate() {
                for snippet in [true, false] {
                    // the full cross product only for `full` documents; otherwise a rotating selection
                    if !full && !((ei + fi) % 3 == (radius + rng.below(3)) % 3 && (snippet || rng.chance(1, 4))) {
                        continue;
                    }
                    let text = doc.text.clone();
                    let target = doc.target;
                    let entry_s = entry.to_string();
                    let fmt_s = fmt.to_string();
                    let r = guarded(move || {
                        let mut opts = Options::default();
                        opts.with_snippet = snippet;
                        opts.crop_radius = radius;
                        let err = parse(target, &text, &entry_s, opts)?;
                        let locs: Vec<LC> = match err.locations() {
                            Some(ls) if ls.reference_location != ls.defined_location => vec![lc(&ls.reference_location), lc(&ls.defined_location)],
                            _ => err.location().map(|l| vec![lc(&l)]).unwrap_or_default(),
                        };
                        let is_validation = classify(&err) == "Validation";
                        let rendered = match fmt_s.as_str() {
                            "user" => err.render_with_formatter(&UserMessageFormatter),
                            "custom" => err.render_with_formatter(&Custom),
                            _ => err.to_string(),
                        };
                        // the same error without snippets must be clean too
                        let plain = err.render_with_options(serde_saphyr::render_options! { formatter: &DefaultMessageFormatter, snippets: SnippetMode::Off });
                        // a validation error is about several places: the ones its own headlines name, in order
                        let locs = if is_validation {
                            let mut v = vec![];
                            for i in issues_snippet(&rendered) {
                                v.push(LC { line: i.uline, col: i.ucol, off: 0, len: 0 });
                                if (i.dline, i.dcol) != (i.uline, i.ucol) { v.push(LC { line: i.dline, col: i.dcol, off: 0, len: 0 }); }
                            }
                            v
                        } else { locs };
                        Some((locs, rendered, plain))
                    });
                    let (locs, out, panic) = match r {
                        Ok(Some((locs, rendered, plain))) => {
                            let mut out: Vec<OutLine> = rendered.split('\n').map(classify_line).collect();
                            out.extend(plain.split('\n').map(|l| OutLine { kind: "other", raw: l.chars().map(|c| c as u32).collect(), ..Default::default() }));
                            (locs, out, String::new())
                        }
                        Ok(None) => continue,
                        Err(p) => (vec![], vec![], p),
                    };
                    stats.renders += 1;
                    if out.iter().any(|l| l.kind == "src") { stats.with_window += 1; }
                    if locs.len() == 2 { stats.dual += 1; }
                    if out.iter().any(|l| l.kind == "src" && l.content.contains(&8230)) { stats.cropped += 1; stats.nontrivial += 1; }
                    *stats.families.entry(doc.family.to_string()).or_default() += 1;
                    w.put(&Rec { id: format!("{id}-r{radius}-{entry}-{fmt}-{}", snippet as u8), kind: "render", yaml: if doc.text.len() < 400 { &doc.text } else { "(long)" }, text: text_cp.clone(), lines: lines.clone(), radius: radius as i64, snippet, entry, fmt, locs, out, labels: vec![], panic, validation: doc.target == Target::Valid });
                }
            }
        }
    }
    // the miette adapter: labels as byte spans over the sanitised source, report rendered without colours
    let text = doc.text.clone();
    let target = doc.target;
    let r = guarded(move || {
        let err = parse(target, &text, "str", Options::default())?;
        let loc = err.location().map(|l| lc(&l));
        let report = serde_saphyr::miette::to_miette_report(&err, &text, "in.yaml");
        // labels of the diagnostic itself, or (validation errors) of its related diagnostics, in order
        fn gather(d: &dyn miette::Diagnostic, top: &dyn miette::Diagnostic, out: &mut Vec<Label>) {
            if let Some(ls) = d.labels() {
                for l in ls {
                    let txt = top
                        .source_code()
                        .and_then(|sc| sc.read_span(l.inner(), 0, 0).ok())
                        .map(|c| String::from_utf8_lossy(c.data()).chars().map(|c| c as u32).collect())
                        .unwrap_or_default();
                    out.push(Label { off: l.offset() as i64, len: l.len() as i64, txt });
                }
            }
            if out.is_empty() {
                if let Some(rel) = d.related() {
                    for r in rel { gather(r, r, out); }
                }
            }
        }
        let mut labels: Vec<Label> = vec![];
        gather(report.as_ref(), report.as_ref(), &mut labels);
        let mut s = String::new();
        let handler = miette::GraphicalReportHandler::new_themed(miette::GraphicalTheme::unicode_nocolor()).with_width(200);
        let _ = handler.render_report(&mut s, report.as_ref());
        Some((loc, labels, s))
    });
    match r {
        Ok(Some((loc, labels, s))) => {
            stats.miette += 1;
            let out = s.split('\n').map(|l| OutLine { kind: "other", raw: l.chars().map(|c| c as u32).collect(), ..Default::default() }).collect();
            w.put(&Rec { id: format!("{id}-miette"), kind: "miette", yaml: if doc.text.len() < 400 { &doc.text } else { "(long)" }, text: text_cp, lines: vec![], radius: 0, snippet: true, entry: "str", fmt: "dev", locs: loc.into_iter().collect(), out, labels, panic: String::new(), validation: doc.target == Target::Valid });
        }
        Ok(None) => {}
        Err(p) => {
            w.put(&Rec { id: format!("{id}-miette"), kind: "miette", yaml: "(panic)", text: vec![], lines: vec![], radius: 0, snippet: true, entry: "str", fmt: "dev", locs: vec![], out: vec![], labels: vec![], panic: p, validation: false });
        }
    }
}

pub fn run(args: &Args) -> i32 {
    let out = args.req("out");
    let mut w = NdWriter::create(out);
    let mut stats = Stats::default();
    let mut rng = Rng::new(args.num("seed", 1));
    let n = args.num("random", 200) as usize;
    if let Some(cases) = args.get("cases") {
        let cases = cases.to_string();
        for (ci, c) in read_ndjson::<Case>(&cases).iter().enumerate() {
            for scale in [1usize, 3] {
                let Some(doc) = grid_doc(c, scale, &mut rng) else { continue };
                render_all(&doc, &format!("g{ci}x{scale}"), &[c.r * scale], &mut rng, &mut w, &mut stats, false);
            }
        }
    }
    // tiny and degenerate inputs (the reader's window may be empty, hold a single code point, or hold multi-byte characters only),
    // every entry point x formatter x target
    {
        let long_mb = "é".repeat(5000);
        let tiny: Vec<String> = ["", "\n", " ", "é", "\u{feff}", "a", ":", "- ", "[", "\"", "é\n", "éé", "€", "𝄞", "\u{feff}é", "x: [", "\r", "\t", "'é", "é: é: é"].iter().map(|s| s.to_string())
            .chain([long_mb.clone(), format!("{long_mb}: ["), format!("k: \"{long_mb}")]).collect();
        for (ti, t) in tiny.iter().enumerate() {
            for target in [Target::Int, Target::Strict, Target::Map, Target::Pair] {
                let doc = Doc { text: t.clone(), target, family: "tiny" };
                render_all(&doc, &format!("t{ti}-{}", target as usize), &[0, 1, 64], &mut rng, &mut w, &mut stats, true);
            }
        }
    }
    // very long lines (beyond 4 KiB, windows beyond 16 KiB): the snippet that is stored with the error is cropped already at
    // storage time, differently for the error line and for its context lines
    for hi in 0..(if n > 1000 { 24 } else { 6 }) {
        let k = 1500 + rng.below(3000);
        let items = "1, ".repeat(k);
        let word = "w".repeat(5000 + rng.below(4000));
        let (text, target) = match hi % 6 {
            0 => (format!("a: 1\nb: [{items}}}\nc: 3\n"), Target::Map),
            1 => (format!("a: [{items}1]\nb: 2\nc: 3\n"), Target::Map),
            2 => (format!("a: 1\nb: x\nc: [{items}1]\n"), Target::Map),
            3 => (format!("# {word}\n# {word}\nb: x\n# {word}\n"), Target::Map),
            4 => (format!("a: 1\n{word}: [{items}1, x, {items}]\n"), Target::Strict),
            _ => (format!("k: \"{word}\nb: 1\n"), Target::Map),
        };
        let doc = Doc { text, target, family: "huge" };
        render_all(&doc, &format!("h{hi}"), &[5, 64], &mut rng, &mut w, &mut stats, true);
    }
    // long inputs whose lines are all different (the reader keeps the most recent 3 KiB only: what it shows must be the lines
    // around the error, not some other part of the stream)
    for li in 0..(if n > 1000 { 12 } else { 4 }) {
        let total = 300 + rng.below(300);
        let bad_at = match li % 4 { 0 => 5, 1 => total / 2, 2 => total - 3, _ => rng.below(total) };
        let mut text = String::new();
        for i in 0..total {
            if i == bad_at {
                text.push_str(&format!("bad{i}: not-a-number-{}\n", rng.below(100000)));
            } else {
                text.push_str(&format!("key{i}: {}{}\n", i * 7 + 1, if i % 9 == 0 { format!("   # note {} é", rng.below(1000)) } else { String::new() }));
            }
        }
        let doc = Doc { text, target: Target::Map, family: "long-distinct" };
        render_all(&doc, &format!("ld{li}"), &[5, 64], &mut rng, &mut w, &mut stats, true);
    }
    for i in 0..n {
        let doc = gen_doc(&mut rng, i);
        if stats.samples.len() < 4 && doc.text.len() < 200 {
            stats.samples.push(serde_json::json!({"yaml": doc.text, "family": doc.family}));
        }
        let radii: Vec<usize> = if i % 5 == 0 { vec![0, 1, 5, 64, 100000] } else { vec![*rng.pick(&[0usize, 1, 2, 5, 17, 64, 100000]), 64] };
        render_all(&doc, &format!("d{i}"), &radii, &mut rng, &mut w, &mut stats, i % 25 == 0);
    }
    stats.records = w.n;
    w.finish();
    println!("{}", serde_json::to_string(&stats).unwrap());
    0
}
