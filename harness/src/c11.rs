//! C11 — a multi-document stream is the list of its documents.
//! cases (from MC_Stream): {kinds:[..]}; records (to TV_Stream): {id, kinds, yaml, batch, iter, single}
use crate::docgen::*;
use crate::model::*;
use crate::Args;
use serde::{Deserialize, Serialize};

#[derive(Deserialize)]
struct Case {
    kinds: Vec<String>,
}
#[derive(Serialize)]
struct Rec<'a> {
    id: String,
    kinds: &'a [String],
    yaml: &'a str,
    batch: Vec<Vec<String>>,
    iter: Vec<Vec<String>>,
    biter: Vec<Vec<String>>,
    titer: Vec<Vec<String>>,
    single: Vec<String>,
}

/// the budget of the budgeted iterators: every document kind stays below it except "BF" / "BI"
const BYTES_LIMIT: usize = 8;

/// element type of the stream documents: integers or small maps (so that a mapping can carry an anchor)
#[derive(Deserialize, Debug, PartialEq)]
#[serde(untagged)]
pub enum Item {
    I(i64),
    M(std::collections::BTreeMap<String, i64>),
}
type Doc = Vec<Item>;
/// the same documents through the validating iterators (validation always passes: they must behave like `read`)
#[derive(Deserialize, Debug, PartialEq)]
#[serde(transparent)]
pub struct VDoc(Vec<Item>);
impl garde::Validate for VDoc {
    type Context = ();
    fn validate_into(&self, _ctx: &Self::Context, _parent: &mut dyn FnMut() -> garde::Path, _report: &mut garde::Report) {}
}
impl validator::Validate for VDoc {
    fn validate(&self) -> Result<(), validator::ValidationErrors> {
        Ok(())
    }
}

fn kind_text(k: &str, variant: usize) -> &'static str {
    // a document that defines the anchor `a` comes in three shapes; the third nests a second anchor inside the first
    // (an anchored container is stored when it closes, i.e. after the anchors inside it)
    if k == "D" && variant % 3 == 2 {
        return "&a [&b 4]";
    }
    match (k, variant % 2) {
        ("V", 0) => "[1, 2]",
        ("V", _) => "\n- 1\n- 2",
        ("W", _) => "[3]",
        ("D", 0) => "&a [4]",
        ("D", _) => "[&a {k: 4}]",
        ("E", _) => "",
        ("N", 0) => "~",
        ("N", _) => "null",
        ("TE", 0) => "[x, 1, 2]",
        ("TE", _) => "\n- [9]\n- 2",
        ("TL", 0) => "[1, 2, x]",
        ("TL", _) => "\n- 1\n- 2\n- [5]",
        ("A", _) => "*a",
        ("AN", 0) => "[*a]",
        ("AN", _) => "\n- 7\n- *a",
        ("S", 0) => "[1, }",
        ("S", _) => "\"a\" b",
        ("BF", 0) => "xxxxxxxxxxxx",
        ("BF", _) => "\"yyyyyyyyyyyyy\"",
        ("BI", 0) => "[1, 2, xxxxxxxxxxxx]",
        ("BI", _) => "\n- 1\n- 2\n- yyyyyyyyyyyyy",
        ("U", 0) => "[1, 2",
        ("U", _) => "[1, [2",
        _ => "?",
    }
}

fn val_kind(v: &[Item]) -> String {
    let ints: Option<Vec<i64>> = v.iter().map(|i| if let Item::I(n) = i { Some(*n) } else { None }).collect();
    match ints.as_deref() {
        Some([1, 2]) => "V".into(),
        Some([3]) => "W".into(),
        Some([4]) => "D".into(),
        Some([]) => "null".into(),
        None if v.len() == 1 && matches!(&v[0], Item::M(m) if m.len() == 1 && m.get("k") == Some(&4)) => "D".into(),
        _ => format!("?{v:?}"),
    }
}
fn item_of(r: Result<Doc, serde_saphyr::Error>) -> String {
    match r {
        Ok(v) => val_kind(&v),
        Err(e) => {
            let c = classify(&e);
            if c == "Syntax" || c == "AnchorUse:unknown" || c == "Type:Eof" { "syntax".into() } else if c.starts_with("Budget") { "budget".into() } else if c.starts_with("Type") || c.starts_with("Alias") { "type".into() } else { format!("other:{c}") }
        }
    }
}

pub fn render(kinds: &[String], variant: usize) -> String {
    let mut t = String::new();
    for (i, k) in kinds.iter().enumerate() {
        let body = kind_text(k, variant / 2 + i);
        let explicit = i > 0 || variant % 3 != 0 || body.is_empty();
        if explicit {
            t.push_str("---");
            if !body.is_empty() && !body.starts_with('\n') {
                t.push(' ');
            }
        } else if body.starts_with('\n') {
            t.push_str("---");
        }
        t.push_str(body);
        t.push('\n');
        let closed = !matches!(k.as_str(), "S" | "U" | "A" | "AN");
        if closed && (variant / 3 + i) % 3 == 1 {
            t.push_str("...\n");
        }
        if closed && (variant + i) % 4 == 2 {
            t.push_str("# trailing comment\n");
        }
    }
    t
}

/// the stream read as pairs of integers: only `[1, 2]` fits; the other documents fail, several of them on a look-ahead
/// (a surplus element, the end of a sequence that is too short)
pub fn observe_pairs(text: &str) -> Vec<Vec<String>> {
    let mut out = vec![];
    for which in ["read", "options"] {
        let t = text.to_string();
        out.push(
            guarded(move || {
                let mut rd = std::io::Cursor::new(t.into_bytes());
                let mut items = vec![];
                let f = |r: Result<(i64, i64), serde_saphyr::Error>| -> String {
                    match r {
                        Ok((1, 2)) => "V".into(),
                        Ok(p) => format!("?{p:?}"),
                        Err(e) => item_of(Err(e)),
                    }
                };
                if which == "read" {
                    for (n, r) in serde_saphyr::read::<_, (i64, i64)>(&mut rd).enumerate() {
                        if n > 40 { items.push("NONTERMINATING".to_string()); break; }
                        items.push(f(r));
                    }
                } else {
                    for (n, r) in serde_saphyr::read_with_options::<_, (i64, i64)>(&mut rd, serde_saphyr::Options::default()).enumerate() {
                        if n > 40 { items.push("NONTERMINATING".to_string()); break; }
                        items.push(f(r));
                    }
                }
                items
            })
            .unwrap_or_else(|p| vec![format!("PANIC:{p}")]),
        );
    }
    out
}

pub fn observe(text: &str) -> (Vec<Vec<String>>, Vec<Vec<String>>, Vec<Vec<String>>, Vec<String>) {
    let mut batch = vec![];
    let mut iters = vec![];
    let mut biters = vec![];
    let mut single = vec![];
    // batch: str and slice
    let b = |r: Result<Vec<Doc>, serde_saphyr::Error>| -> Vec<String> {
        match r {
            Ok(vs) => std::iter::once("ok".to_string()).chain(vs.iter().map(|v| val_kind(v))).collect(),
            Err(_) => vec!["err".into()],
        }
    };
    let t1 = text.to_string();
    batch.push(guarded(move || b(serde_saphyr::from_multiple::<Doc>(&t1))).unwrap_or_else(|p| vec![format!("PANIC:{p}")]));
    let t2 = text.to_string();
    batch.push(guarded(move || b(serde_saphyr::from_slice_multiple::<Doc>(t2.as_bytes()))).unwrap_or_else(|p| vec![format!("PANIC:{p}")]));
    // iterator
    let t3 = text.to_string();
    iters.push(
        guarded(move || {
            let mut rd = std::io::Cursor::new(t3.into_bytes());
            let mut out = vec![];
            for (n, r) in serde_saphyr::read::<_, Doc>(&mut rd).enumerate() {
                if n > 40 {
                    out.push("NONTERMINATING".to_string());
                    break;
                }
                out.push(item_of(r));
            }
            out
        })
        .unwrap_or_else(|p| vec![format!("PANIC:{p}")]),
    );
    // the validating iterators and the iterator with explicit options
    for which in ["valid", "validate", "options"] {
        let t = text.to_string();
        iters.push(
            guarded(move || {
                let mut rd = std::io::Cursor::new(t.into_bytes());
                let mut out = vec![];
                macro_rules! drain {
                    ($it:expr, $f:expr) => {
                        for (n, r) in $it.enumerate() {
                            if n > 40 {
                                out.push("NONTERMINATING".to_string());
                                break;
                            }
                            out.push(item_of(r.map($f)));
                        }
                    };
                }
                match which {
                    "valid" => drain!(serde_saphyr::read_valid::<_, VDoc>(&mut rd), |v: VDoc| v.0),
                    "validate" => drain!(serde_saphyr::read_validate::<_, VDoc>(&mut rd), |v: VDoc| v.0),
                    _ => drain!(serde_saphyr::read_with_options::<_, Doc>(&mut rd, serde_saphyr::Options::default()), |v: Doc| v),
                }
                out
            })
            .unwrap_or_else(|p| vec![format!("PANIC:{p}")]),
        );
    }
    // the iterators with a budget that the "BF" / "BI" documents exceed
    for which in ["options", "valid", "validate"] {
        let t = text.to_string();
        biters.push(
            guarded(move || {
                let mut rd = std::io::Cursor::new(t.into_bytes());
                let mut out = vec![];
                let mut o = serde_saphyr::Options::default();
                let mut b = serde_saphyr::Budget::default();
                b.max_total_scalar_bytes = BYTES_LIMIT;
                o.budget = Some(b);
                macro_rules! drain {
                    ($it:expr, $f:expr) => {
                        for (n, r) in $it.enumerate() {
                            if n > 40 {
                                out.push("NONTERMINATING".to_string());
                                break;
                            }
                            out.push(item_of(r.map($f)));
                        }
                    };
                }
                match which {
                    "valid" => drain!(serde_saphyr::read_with_options_valid::<_, VDoc>(&mut rd, o), |v: VDoc| v.0),
                    "validate" => drain!(serde_saphyr::read_with_options_validate::<_, VDoc>(&mut rd, o), |v: VDoc| v.0),
                    _ => drain!(serde_saphyr::read_with_options::<_, Doc>(&mut rd, o), |v: Doc| v),
                }
                out
            })
            .unwrap_or_else(|p| vec![format!("PANIC:{p}")]),
        );
    }
    // single
    let s = |r: Result<Doc, serde_saphyr::Error>| -> String {
        match r {
            Ok(v) => val_kind(&v),
            Err(_) => "err".into(),
        }
    };
    let t4 = text.to_string();
    single.push(guarded(move || s(serde_saphyr::from_str::<Doc>(&t4))).unwrap_or_else(|p| format!("PANIC:{p}")));
    let t5 = text.to_string();
    single.push(guarded(move || s(serde_saphyr::from_reader::<_, Doc>(std::io::Cursor::new(t5.into_bytes())))).unwrap_or_else(|p| format!("PANIC:{p}")));
    let t6 = text.to_string();
    single.push(guarded(move || s(serde_saphyr::from_slice::<Doc>(t6.as_bytes()))).unwrap_or_else(|p| format!("PANIC:{p}")));
    (batch, iters, biters, single)
}

#[derive(Default, Serialize)]
struct Stats {
    cases: usize,
    records: usize,
    nontrivial: usize,
    samples: Vec<serde_json::Value>,
}

pub fn run(args: &Args) -> i32 {
    let out = args.req("out");
    let mut w = NdWriter::create(out);
    let mut stats = Stats::default();
    let nvar = args.num("variants", 4) as usize;
    let mut seen = std::collections::HashSet::new();
    let mut one = |id: String, kinds: &[String], variant: usize, w: &mut NdWriter, stats: &mut Stats| {
        let text = render(kinds, variant);
        if !seen.insert(text.clone()) {
            return;
        }
        let (batch, iter, biter, single) = observe(&text);
        if kinds.len() >= 2 {
            stats.nontrivial += 1;
        }
        if stats.samples.len() < 4 && kinds.len() >= 3 && variant == 1 {
            stats.samples.push(serde_json::json!({"id": id, "kinds": kinds, "yaml": text, "iter": iter}));
        }
        let titer = observe_pairs(&text);
        w.put(&Rec { id, kinds, yaml: &text, batch, iter, biter, titer, single });
    };
    if let Some(cases) = args.get("cases") {
        let cases: Vec<Case> = read_ndjson(cases);
        for (i, c) in cases.iter().enumerate() {
            stats.cases += 1;
            for v in 0..nvar {
                one(format!("c{i}-{v}"), &c.kinds, v, &mut w, &mut stats);
            }
        }
    }
    let nrand = args.num("random", 0);
    let mut rng = Rng::new(args.num("seed", 1));
    let all = ["V", "W", "D", "E", "N", "TE", "TL", "AN", "BF", "BI", "A", "S", "U"];
    for i in 0..nrand {
        let n = 4 + rng.below(8);
        let kinds: Vec<String> = (0..n).map(|_| if rng.chance(1, 8) { all[10 + rng.below(3)] } else { all[rng.below(10)] }.to_string()).collect();
        let v = rng.below(24);
        one(format!("r{i}-{v}"), &kinds, v, &mut w, &mut stats);
    }
    stats.records = w.n;
    w.finish();
    println!("{}", serde_json::to_string(&stats).unwrap());
    0
}
