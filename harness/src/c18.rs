//! C18 — validating entry points agree with plain ones and locate every failed field.
//! records (to TV_PathMap): {kind:"valid", crate, entry, multi, docs:[{raw,pos}], plain_ok, vok, same, issues:[{path,use,def}], ndocs_reported, eclass}
use crate::docgen::*;
use crate::model::*;
use crate::Args;
use miette::Diagnostic;
use saphyr_parser::{Event, Parser};
use serde::{Deserialize, Serialize};

mod p {
    use serde::Deserialize;
    #[derive(Deserialize, Debug, PartialEq)]
    pub struct Inner {
        pub name: String,
        #[serde(rename = "maxCount")]
        pub max_count: i32,
    }
    #[derive(Deserialize, Debug, PartialEq)]
    pub struct Outer {
        pub first: Inner,
        #[serde(rename = "subItem")]
        pub sub_item: Inner,
        pub items: Vec<Inner>,
        pub tag: String,
    }
}
mod g {
    use garde::Validate;
    use serde::Deserialize;
    #[derive(Deserialize, Debug, Validate, PartialEq)]
    pub struct Inner {
        #[garde(length(min = 2))]
        pub name: String,
        #[garde(range(min = 1, max = 9))]
        #[serde(rename = "maxCount")]
        pub max_count: i32,
    }
    #[derive(Deserialize, Debug, Validate, PartialEq)]
    pub struct Outer {
        #[garde(dive)]
        pub first: Inner,
        #[garde(dive)]
        #[serde(rename = "subItem")]
        pub sub_item: Inner,
        #[garde(dive)]
        pub items: Vec<Inner>,
        #[garde(length(min = 1))]
        pub tag: String,
    }
}
mod v {
    use serde::Deserialize;
    use validator::Validate;
    #[derive(Deserialize, Debug, Validate, PartialEq)]
    pub struct Inner {
        #[validate(length(min = 2))]
        pub name: String,
        #[validate(range(min = 1, max = 9))]
        #[serde(rename = "maxCount")]
        pub max_count: i32,
    }
    #[derive(Deserialize, Debug, Validate, PartialEq)]
    pub struct Outer {
        #[validate(nested)]
        pub first: Inner,
        #[validate(nested)]
        #[serde(rename = "subItem")]
        pub sub_item: Inner,
        #[validate(nested)]
        pub items: Vec<Inner>,
        #[validate(length(min = 1))]
        pub tag: String,
    }
}

/// the family extended by a map-typed field, read under DuplicateKeyPolicy::LastWins (a repeated key: the last entry is the
/// value that is used, so that is where its fields are located)
fn ok_default() -> String {
    "ok".to_string()
}
mod x {
    use garde::Validate;
    use serde::Deserialize;
    use std::collections::BTreeMap;
    #[derive(Deserialize, Debug, PartialEq)]
    pub struct POuter {
        pub first: super::p::Inner,
        #[serde(rename = "subItem")]
        pub sub_item: super::p::Inner,
        pub items: Vec<super::p::Inner>,
        pub tag: String,
        #[serde(default)]
        pub extras: BTreeMap<String, super::p::Inner>,
        #[serde(rename = "TAG2", default = "super::ok_default")]
        pub tag2: String,
        #[serde(rename = "a-bc", default = "super::ok_default")]
        pub ab_c: String,
        #[serde(rename = "xyZ", default = "super::ok_default")]
        pub xy_z: String,
        #[serde(rename = "xYz", default = "super::ok_default")]
        pub x_yz: String,
        #[serde(rename = "NEST", default)]
        pub nest: Option<super::p::Inner>,
        #[serde(rename = "n-est2", default)]
        pub ne_st2: Option<super::p::Inner>,
    }
    #[derive(Deserialize, Debug, Validate, PartialEq)]
    pub struct GOuter {
        #[garde(dive)]
        pub first: super::g::Inner,
        #[garde(dive)]
        #[serde(rename = "subItem")]
        pub sub_item: super::g::Inner,
        #[garde(dive)]
        pub items: Vec<super::g::Inner>,
        #[garde(length(min = 1))]
        pub tag: String,
        #[garde(dive)]
        #[serde(default)]
        pub extras: BTreeMap<String, super::g::Inner>,
        // names that only the looser passes of the path lookup can bridge: differing in letter case only (`TAG2` / `tag2`),
        // and with different token boundaries (`a-bc` / `ab_c`: equal only once every separator is dropped)
        #[garde(length(min = 1))]
        #[serde(rename = "TAG2", default = "super::ok_default")]
        pub tag2: String,
        #[garde(length(min = 1))]
        #[serde(rename = "a-bc", default = "super::ok_default")]
        pub ab_c: String,
        // two fields that only the token-sequence pass tells apart (`xy_z` = xy + z = `xyZ`, `x_yz` = x + yz = `xYz`; with the
        // separators dropped both are `xyz`)
        #[garde(length(min = 1))]
        #[serde(rename = "xyZ", default = "super::ok_default")]
        pub xy_z: String,
        #[garde(length(min = 1))]
        #[serde(rename = "xYz", default = "super::ok_default")]
        pub x_yz: String,
        // the same two bridges with a struct below them, so that the failed field's path has an inner renamed segment
        #[garde(dive)]
        #[serde(rename = "NEST", default)]
        pub nest: Option<super::g::Inner>,
        #[garde(dive)]
        #[serde(rename = "n-est2", default)]
        pub ne_st2: Option<super::g::Inner>,
    }
}

#[derive(Serialize, Clone, Default)]
struct Pos {
    line: i64,
    col: i64,
    off: i64,
    boff: i64,
}
#[derive(Serialize, Clone)]
struct DocEv {
    raw: Vec<AEv>,
    pos: Vec<Pos>,
}
/// content events and their positions, per document
fn docs_with_pos(text: &str) -> Option<Vec<DocEv>> {
    let mut docs = vec![];
    let mut cur: Option<DocEv> = None;
    for item in Parser::new_from_str(text) {
        let (ev, span) = item.ok()?;
        let p = Pos { line: span.start.line() as i64, col: span.start.col() as i64 + 1, off: span.start.index() as i64, boff: span.start.byte_offset().map(|b| b as i64).unwrap_or(-1) };
        let a = match ev {
            Event::DocumentStart(_) => { cur = Some(DocEv { raw: vec![], pos: vec![] }); continue; }
            Event::DocumentEnd => { if let Some(d) = cur.take() { docs.push(d); } continue; }
            Event::Scalar(v, st, id, _) => AEv::new("S", id as u32, &v, style_code(st), ""),
            Event::SequenceStart(id, _) => AEv::new("SS", id as u32, "", "p", ""),
            Event::SequenceEnd => AEv::new("SE", 0, "", "p", ""),
            Event::MappingStart(id, _) => AEv::new("MS", id as u32, "", "p", ""),
            Event::MappingEnd => AEv::new("ME", 0, "", "p", ""),
            Event::Alias(id) => AEv::new("AL", id as u32, "", "p", ""),
            _ => continue,
        };
        if let Some(d) = cur.as_mut() { d.raw.push(a); d.pos.push(p); }
    }
    Some(docs)
}

#[derive(Serialize, Clone, PartialEq, Eq, PartialOrd, Ord)]
struct Issue {
    path: String,
    r#use: i64,
    def: i64,
}
/// issues as the miette adapter exposes them: one related diagnostic per issue with a use-site label and, when the value
/// came through an anchor, a definition-site label (byte offsets)
fn collect_issues(d: &dyn Diagnostic, out: &mut Vec<Issue>, docs: &mut usize, depth: usize) {
    let msg = d.to_string();
    if let Some(i) = msg.rfind(" for `") {
        if msg.starts_with("validation error:") && msg.ends_with('`') {
            let path = msg[i + 6..msg.len() - 1].to_string();
            let labels: Vec<(i64, String)> = d.labels().map(|ls| ls.map(|l| (l.offset() as i64, l.label().unwrap_or("").to_string())).collect()).unwrap_or_default();
            let u = labels.first().map(|l| l.0).unwrap_or(-1);
            let df = labels.iter().find(|l| l.1 == "defined here" && l.0 != u).map(|l| l.0).unwrap_or(u);
            out.push(Issue { path, r#use: u, def: df });
            return;
        }
    }
    if let Some(rel) = d.related() {
        for r in rel {
            if depth == 0 && msg.contains("document(s)") { *docs += 1; }
            collect_issues(r, out, docs, depth + 1);
        }
    }
}

#[derive(Serialize)]
struct Rec<'a> {
    id: String,
    kind: &'a str,
    yaml: &'a str,
    krate: &'a str,
    entry: &'a str,
    multi: bool,
    docs: Vec<DocEv>,
    plain_ok: bool,
    vok: bool,
    same: bool,
    issues: Vec<Issue>,
    /// the same issues as printed by Display without and with snippets
    plain: Vec<IssueLc>,
    snip: Vec<IssueLc>,
    ndocs_reported: i64,
    eclass: String,
}

thread_local! {
    static DECOYS: std::cell::Cell<bool> = const { std::cell::Cell::new(false) };
    static EXTRAS: std::cell::Cell<bool> = const { std::cell::Cell::new(false) };
}

#[derive(Deserialize)]
struct Case {
    raw: Vec<AEv>,
}

#[derive(Default, Serialize)]
struct Stats {
    records: usize,
    nontrivial: usize,
    passing: usize,
    failing: usize,
    multi: usize,
    issues: usize,
    through_alias_or_merge: usize,
    lastwins: usize,
    samples: Vec<serde_json::Value>,
}

fn run_one(id: &str, text: &str, multi: bool, krate: &'static str, entry: &'static str, docs: &[DocEv], w: &mut NdWriter, stats: &mut Stats) {
    let t = text.to_string();
    let r = guarded(move || -> (bool, bool, bool, Vec<Issue>, usize, String, Vec<IssueLc>, Vec<IssueLc>) {
        // plain result
        let plain: Result<String, serde_saphyr::Error> = if multi { serde_saphyr::from_multiple::<p::Outer>(&t).map(|v| format!("{v:?}")) } else { serde_saphyr::from_str::<p::Outer>(&t).map(|v| format!("{v:?}")) };
        macro_rules! call {
            ($single_str:path, $single_slice:path, $single_reader:path, $multi_str:path, $multi_reader:path, $t:ty) => {
                if multi {
                    match entry {
                        "reader" => { let mut c = std::io::Cursor::new(t.as_bytes().to_vec()); let mut vals: Vec<$t> = vec![]; let mut errs = vec![]; for x in $multi_reader(&mut c) { match x { Ok(v) => vals.push(v), Err(e) => errs.push(e) } } if errs.is_empty() { Ok(format!("{vals:?}")) } else { Err(errs) } }
                        _ => $multi_str(&t).map(|v: Vec<$t>| format!("{v:?}")).map_err(|e| vec![e]),
                    }
                } else {
                    match entry {
                        "reader" => $single_reader(std::io::Cursor::new(t.as_bytes().to_vec())).map(|v: $t| format!("{v:?}")).map_err(|e| vec![e]),
                        "slice" => $single_slice(t.as_bytes()).map(|v: $t| format!("{v:?}")).map_err(|e| vec![e]),
                        _ => $single_str(&t).map(|v: $t| format!("{v:?}")).map_err(|e| vec![e]),
                    }
                }
            };
        }
        let validated: Result<String, Vec<serde_saphyr::Error>> = if krate == "garde" {
            call!(serde_saphyr::from_str_valid, serde_saphyr::from_slice_valid, serde_saphyr::from_reader_valid, serde_saphyr::from_multiple_valid, serde_saphyr::read_valid, g::Outer)
        } else {
            call!(serde_saphyr::from_str_validate, serde_saphyr::from_slice_validate, serde_saphyr::from_reader_validate, serde_saphyr::from_multiple_validate, serde_saphyr::read_validate, v::Outer)
        };
        match validated {
            Ok(s) => (plain.is_ok(), true, plain.as_ref().map(|p| *p == s).unwrap_or(false), vec![], 0, String::new(), vec![], vec![]),
            Err(errs) => {
                let mut issues = vec![];
                let mut ndocs = 0usize;
                let mut class = String::new();
                let (mut pl, mut sn) = (vec![], vec![]);
                for e in &errs {
                    class = classify(e);
                    pl.extend(issues_plain(&e.render_with_options(serde_saphyr::render_options! { formatter: &serde_saphyr::DefaultMessageFormatter, snippets: serde_saphyr::SnippetMode::Off })));
                    sn.extend(issues_snippet(&e.to_string()));
                    let report = serde_saphyr::miette::to_miette_report(e, &t, "in.yaml");
                    let before = issues.len();
                    let mut nd = 0usize;
                    collect_issues(report.as_ref(), &mut issues, &mut nd, 0);
                    // a single failing document is one report; a stream error lists one related diagnostic per failing document
                    ndocs += if nd > 0 { nd } else if issues.len() > before { 1 } else { 0 };
                }
                (plain.is_ok(), false, false, issues, ndocs, class, pl, sn)
            }
        }
    });
    let (plain_ok, vok, same, mut issues, ndocs, eclass, mut plain, mut snip) = match r {
        Ok(x) => x,
        Err(p) => (false, false, false, vec![], 0, format!("PANIC:{p}"), vec![], vec![]),
    };
    issues.sort();
    plain.sort();
    snip.sort();
    stats.issues += issues.len();
    stats.through_alias_or_merge += issues.iter().filter(|i| i.r#use != i.def).count();
    if vok { stats.passing += 1; } else { stats.failing += 1; }
    if multi { stats.multi += 1; }
    if issues.iter().any(|i| i.r#use != i.def) { stats.nontrivial += 1; }
    w.put(&Rec { id: id.to_string(), kind: "valid", yaml: text, krate, entry, multi, docs: docs.to_vec(), plain_ok, vok, same, issues, plain, snip, ndocs_reported: ndocs as i64, eclass });
}

/// the extended family under LastWins (garde; string and reader entry points; single documents)
fn run_lastwins(id: &str, text: &str, entry: &'static str, docs: &[DocEv], w: &mut NdWriter, stats: &mut Stats) {
    let t = text.to_string();
    let r = guarded(move || -> (bool, bool, bool, Vec<Issue>, usize, String, Vec<IssueLc>, Vec<IssueLc>) {
        let opts = || { let mut o = serde_saphyr::Options::default(); o.duplicate_keys = serde_saphyr::options::DuplicateKeyPolicy::LastWins; o };
        let plain: Result<String, serde_saphyr::Error> = serde_saphyr::from_str_with_options::<x::POuter>(&t, opts()).map(|v| format!("{v:?}"));
        let validated: Result<String, serde_saphyr::Error> = match entry {
            "reader" => serde_saphyr::from_reader_with_options_valid::<_, x::GOuter>(std::io::Cursor::new(t.as_bytes().to_vec()), opts()).map(|v| format!("{v:?}")),
            _ => serde_saphyr::from_str_with_options_valid::<x::GOuter>(&t, opts()).map(|v| format!("{v:?}")),
        };
        match validated {
            Ok(s) => (plain.is_ok(), true, plain.as_ref().map(|p| p.replace("POuter", "GOuter") == s).unwrap_or(false), vec![], 0, String::new(), vec![], vec![]),
            Err(e) => {
                let mut issues = vec![];
                let mut nd = 0usize;
                let class = classify(&e);
                let pl = issues_plain(&e.render_with_options(serde_saphyr::render_options! { formatter: &serde_saphyr::DefaultMessageFormatter, snippets: serde_saphyr::SnippetMode::Off }));
                let sn = issues_snippet(&e.to_string());
                let report = serde_saphyr::miette::to_miette_report(&e, &t, "in.yaml");
                collect_issues(report.as_ref(), &mut issues, &mut nd, 0);
                let ndocs = if nd > 0 { nd } else if !issues.is_empty() { 1 } else { 0 };
                (plain.is_ok(), false, false, issues, ndocs, class, pl, sn)
            }
        }
    });
    let (plain_ok, vok, same, mut issues, ndocs, eclass, mut plain, mut snip) = match r {
        Ok(x) => x,
        Err(p) => (false, false, false, vec![], 0, format!("PANIC:{p}"), vec![], vec![]),
    };
    issues.sort();
    plain.sort();
    snip.sort();
    stats.issues += issues.len();
    if vok { stats.passing += 1; } else { stats.failing += 1; }
    stats.lastwins += 1;
    w.put(&Rec { id: id.to_string(), kind: "valid", yaml: text, krate: "garde", entry, multi: false, docs: docs.to_vec(), plain_ok, vok, same, issues, plain, snip, ndocs_reported: ndocs as i64, eclass });
}

fn render(raw: &[AEv], rng: &mut Rng) -> Option<String> {
    let nodes = nodes_from_events(raw).ok()?;
    let names: Vec<String> = vec!["".into(), "b".into(), "s".into(), "c".into(), "d".into(), "e".into(), "f".into(), "g".into(), "h".into()];
    let nm = Names(Some(&names));
    Some(if rng.chance(1, 2) { format!("{}\n", render_flow(&nodes[0], &nm)) } else { render_block(&nodes[0], &nm) })
}

/// a random document of the family: like MC_PathMap's but with more items, more anchors, decoy keys and styles
fn random_doc(rng: &mut Rng) -> Vec<AEv> {
    let sc = |v: &str| AEv::new("S", 0, v, "p", "");
    let name = |rng: &mut Rng| sc(*rng.pick(&["ok", "ok", "okay", "long name", "fine", "x", "y"]));
    let count = |rng: &mut Rng| sc(*rng.pick(&["5", "5", "9", "1", "3", "20", "0"]));
    let mut out = vec![AEv::new("MS", 0, "", "p", "")];
    let mut next_anchor = 1u32;
    let mut map_anchors: Vec<u32> = vec![];
    let mut name_anchors: Vec<u32> = vec![];
    // definitions under keys the types ignore
    for k in 0..rng.below(3) {
        out.push(sc(&format!("base{k}")));
        out.push(AEv::new("MS", next_anchor, "", "p", ""));
        map_anchors.push(next_anchor);
        next_anchor += 1;
        out.push(sc("name")); out.push(name(rng));
        out.push(sc("maxCount")); out.push(count(rng));
        out.push(AEv::new("ME", 0, "", "p", ""));
    }
    if rng.chance(1, 2) {
        out.push(sc("nm"));
        let mut e = name(rng);
        e.a = next_anchor;
        name_anchors.push(next_anchor);
        next_anchor += 1;
        out.push(e);
    }
    let inner = |rng: &mut Rng, out: &mut Vec<AEv>, map_anchors: &mut Vec<u32>, next_anchor: &mut u32| {
        let form = rng.below(7);
        if form == 0 && !map_anchors.is_empty() {
            out.push(AEv::new("AL", *rng.pick(map_anchors), "", "p", ""));
            return;
        }
        // an Inner given here may itself be anchored for later use
        let a = if rng.chance(1, 4) { let a = *next_anchor; *next_anchor += 1; a } else { 0 };
        out.push(AEv::new("MS", a, "", "p", ""));
        let merged = (1..=3).contains(&form) && !map_anchors.is_empty();
        // fields written here: 0 = name, 1 = maxCount, 9 = the merge entry
        let mut fields: Vec<u8> = if merged {
            let mut f: Vec<u8> = match form { 1 => vec![], 2 => vec![0], _ => vec![1] };
            let at = rng.below(f.len() + 1);
            f.insert(at, 9);
            f
        } else if rng.chance(1, 2) { vec![0, 1] } else { vec![1, 0] };
        for f in fields.drain(..) {
            match f {
                0 => { out.push(sc("name")); if !name_anchors.is_empty() && rng.chance(1, 4) { out.push(AEv::new("AL", *rng.pick(&name_anchors), "", "p", "")); } else { out.push(name(rng)); } }
                1 => { out.push(sc("maxCount")); out.push(count(rng)); }
                _ => { out.push(sc("<<")); out.push(AEv::new("AL", *rng.pick(map_anchors), "", "p", "")); }
            }
        }
        if rng.chance(1, 5) { out.push(sc("extra")); out.push(sc("1")); }
        // decoys: unknown keys that collide with a field under the fuzzy path lookup
        if DECOYS.with(|d| d.get()) && rng.chance(1, 5) { out.push(sc(*rng.pick(&["max_count", "Name", "MAXCOUNT", "max-count"]))); out.push(sc("77")); }
        out.push(AEv::new("ME", 0, "", "p", ""));
        if a != 0 { map_anchors.push(a); }
    };
    // now and then a base for the OUTER mapping under a key the types ignore: it supplies whole nested values (an Inner, the
    // list of Inners) through `<<`, so that failing fields sit below a merge-supplied value
    let mut supplied: Vec<usize> = vec![];
    let mut outer_base = 0u32;
    if rng.chance(1, 3) {
        outer_base = next_anchor;
        next_anchor += 1;
        out.push(sc("obase"));
        out.push(AEv::new("MS", outer_base, "", "p", ""));
        for f in 0..3usize {
            if rng.chance(2, 3) {
                supplied.push(f);
                match f {
                    0 => { out.push(sc("first")); inner(rng, &mut out, &mut map_anchors, &mut next_anchor); }
                    1 => { out.push(sc("subItem")); inner(rng, &mut out, &mut map_anchors, &mut next_anchor); }
                    _ => {
                        out.push(sc("items"));
                        out.push(AEv::new("SS", 0, "", "p", ""));
                        for _ in 0..1 + rng.below(3) { inner(rng, &mut out, &mut map_anchors, &mut next_anchor); }
                        out.push(AEv::new("SE", 0, "", "p", ""));
                    }
                }
            }
        }
        out.push(AEv::new("ME", 0, "", "p", ""));
        if supplied.is_empty() { outer_base = 0; }
    }
    let mut order = vec![0, 1, 2, 3];
    if outer_base != 0 { order.push(8); }
    for i in (1..order.len()).rev() { let j = rng.below(i + 1); order.swap(i, j); }
    for f in order {
        // a field the base supplies is mostly left to the merge (written here, it would shadow the merged one)
        if outer_base != 0 && supplied.contains(&f) && rng.chance(3, 4) { continue; }
        match f {
            8 => { out.push(sc("<<")); out.push(AEv::new("AL", outer_base, "", "p", "")); }
            0 => { out.push(sc("first")); inner(rng, &mut out, &mut map_anchors, &mut next_anchor); }
            1 => { out.push(sc("subItem")); inner(rng, &mut out, &mut map_anchors, &mut next_anchor); }
            2 => {
                out.push(sc("items"));
                out.push(AEv::new("SS", 0, "", "p", ""));
                for _ in 0..rng.below(5) { inner(rng, &mut out, &mut map_anchors, &mut next_anchor); }
                out.push(AEv::new("SE", 0, "", "p", ""));
            }
            _ => { out.push(sc("tag")); out.push(if rng.chance(1, 5) { AEv::new("S", 0, "", "d", "") } else { sc("t1") }); }
        }
    }
    if EXTRAS.with(|e| e.get()) {
        for key in ["TAG2", "a-bc", "xyZ", "xYz"] {
            if rng.chance(2, 3) {
                out.push(sc(key));
                out.push(if rng.chance(1, 2) { AEv::new("S", 0, "", "d", "") } else { sc("ok") });
            }
        }
        for key in ["NEST", "n-est2"] {
            if rng.chance(1, 2) {
                out.push(sc(key));
                inner(rng, &mut out, &mut map_anchors, &mut next_anchor);
            }
        }
        // a map-typed field whose keys may repeat (read under LastWins)
        out.push(sc("extras"));
        out.push(AEv::new("MS", 0, "", "p", ""));
        for _ in 0..1 + rng.below(4) {
            out.push(sc(*rng.pick(&["k1", "k2", "k1", "k3"])));
            inner(rng, &mut out, &mut map_anchors, &mut next_anchor);
        }
        out.push(AEv::new("ME", 0, "", "p", ""));
    }
    out.push(AEv::new("ME", 0, "", "p", ""));
    out
}

pub fn run(args: &Args) -> i32 {
    let out = args.req("out");
    let mut w = NdWriter::create(out);
    let mut stats = Stats::default();
    let mut rng = Rng::new(args.num("seed", 1));
    let n = args.num("random", 200) as usize;
    let mut texts: Vec<String> = vec![];
    if let Some(cases) = args.get("cases") {
        let cases = cases.to_string();
        for c in read_ndjson::<Case>(&cases) {
            // the empty tag must be written quoted
            let raw: Vec<AEv> = c.raw.into_iter().map(|mut e| { if e.k == "S" && e.v.is_empty() { e.q = "d".into(); } e }).collect();
            if let Some(t) = render(&raw, &mut rng) { texts.push(t); }
        }
    }
    let fixed = texts.len();
    for i in 0..n {
        DECOYS.with(|d| d.set(i % 4 == 3));
        let raw = random_doc(&mut rng);
        if let Some(t) = render(&raw, &mut rng) { texts.push(t); }
    }
    let combos: &[(&str, &str)] = &[("garde", "str"), ("validator", "str"), ("garde", "reader"), ("validator", "reader"), ("garde", "slice"), ("validator", "slice")];
    for (i, t) in texts.iter().enumerate() {
        let Some(docs) = docs_with_pos(t) else { continue };
        if docs.len() != 1 { continue; }
        if stats.samples.len() < 3 && i >= fixed { stats.samples.push(serde_json::json!({"yaml": t})); }
        // every document through both crates via the string entry point; the other entry points in rotation
        for (ci, (k, e)) in combos.iter().enumerate() {
            if ci < 2 || (i + ci) % 4 == 0 {
                run_one(&format!("d{i}-{k}-{e}"), t, false, k, e, &docs, &mut w, &mut stats);
            }
        }
    }
    // streams: two to four documents of the above per stream
    let ns = if texts.is_empty() { 0 } else { (texts.len() / 3).max(1) };
    for s in 0..ns {
        let k = 2 + rng.below(3);
        let mut text = String::new();
        for j in 0..k {
            let t = &texts[rng.below(texts.len())];
            if j > 0 || rng.chance(1, 2) { text.push_str("---\n"); }
            text.push_str(t);
        }
        let Some(docs) = docs_with_pos(&text) else { continue };
        for (ci, (kr, e)) in [("garde", "str"), ("validator", "str"), ("garde", "reader"), ("validator", "reader")].iter().enumerate() {
            if ci < 2 || (s + ci) % 2 == 0 {
                run_one(&format!("m{s}-{kr}-{e}"), &text, true, kr, e, &docs, &mut w, &mut stats);
            }
        }
    }
    // the extended family under LastWins
    EXTRAS.with(|e| e.set(true));
    DECOYS.with(|d| d.set(false));
    for i in 0..n / 3 {
        let raw = random_doc(&mut rng);
        let Some(t) = render(&raw, &mut rng) else { continue };
        let Some(docs) = docs_with_pos(&t) else { continue };
        if docs.len() != 1 { continue; }
        run_lastwins(&format!("lw{i}-str"), &t, "str", &docs, &mut w, &mut stats);
        if i % 3 == 0 { run_lastwins(&format!("lw{i}-reader"), &t, "reader", &docs, &mut w, &mut stats); }
    }
    EXTRAS.with(|e| e.set(false));
    stats.records = w.n;
    w.finish();
    println!("{}", serde_json::to_string(&stats).unwrap());
    0
}
