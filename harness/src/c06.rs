//! C06 — scalars are interpreted exactly per requested type and options.
//! cases (from MC_Scalars): {tok}; records (to TV_Scalars): one per (tok, style, tag, options)
use crate::docgen::*;
use crate::model::*;
use crate::Args;
use serde::{Deserialize, Serialize};

#[derive(Deserialize)]
struct Case {
    tok: String,
}
#[derive(Serialize, Default, Clone)]
struct IntObs {
    ok: bool,
    neg: bool,
    /// magnitude in radix 10, 16, 8, 2 (lowercase, no prefix)
    dec: String,
    hex: String,
    oct: String,
    bin: String,
}
#[derive(Serialize)]
struct Rec<'a> {
    id: String,
    tok: &'a str,
    style: &'a str,
    tag: &'a str,
    legacy: bool,
    strict: bool,
    noschema: bool,
    /// Rust's own float reading of the trimmed token (delegated part of the table)
    floatkind: &'a str,
    fbits: String,
    ints: std::collections::BTreeMap<&'static str, IntObs>,
    boolv: String,
    strv: N,
    /// the scalar requested as a char: "ok:<c>" | "err"; nchars = code points of the token
    charv: String,
    nchars: usize,
    anyv: N,
    f64v: String,
    yaml: &'a str,
}

/// the crate's entry points with a panic turned into an error value (a panic inside the crate is data: the record then
/// disagrees with the table and is reported, instead of the harness dying)
fn fswo<T: serde::de::DeserializeOwned>(text: &str, o: serde_saphyr::Options) -> Result<T, serde_saphyr::Error> {
    match std::panic::catch_unwind(std::panic::AssertUnwindSafe(|| serde_saphyr::from_str_with_options::<T>(text, o))) {
        Ok(r) => r,
        Err(_) => Err(<serde_saphyr::Error as serde::de::Error>::custom("PANIC inside the crate")),
    }
}
fn fs0<T: serde::de::DeserializeOwned>(text: &str) -> Result<T, serde_saphyr::Error> {
    fswo::<T>(text, serde_saphyr::Options::default())
}
fn opts(legacy: bool, strict: bool, noschema: bool) -> serde_saphyr::Options {
    let mut o = serde_saphyr::Options::default();
    o.legacy_octal_numbers = legacy;
    o.strict_booleans = strict;
    o.no_schema = noschema;
    o
}
fn iobs_i(v: Result<i128, serde_saphyr::Error>) -> IntObs {
    match v {
        Ok(n) => {
            let m = n.unsigned_abs();
            IntObs { ok: true, neg: n < 0, dec: format!("{m}"), hex: format!("{m:x}"), oct: format!("{m:o}"), bin: format!("{m:b}") }
        }
        Err(_) => IntObs::default(),
    }
}
fn iobs_u(v: Result<u128, serde_saphyr::Error>) -> IntObs {
    match v {
        Ok(m) => IntObs { ok: true, neg: false, dec: format!("{m}"), hex: format!("{m:x}"), oct: format!("{m:o}"), bin: format!("{m:b}") },
        Err(_) => IntObs::default(),
    }
}
macro_rules! si {
    ($t:ty, $text:expr, $o:expr) => {
        iobs_i(fswo::<$t>($text, $o).map(|v| v as i128))
    };
}
macro_rules! ui {
    ($t:ty, $text:expr, $o:expr) => {
        iobs_u(fswo::<$t>($text, $o).map(|v| v as u128))
    };
}

fn float_kind(tok: &str) -> (&'static str, String) {
    let t = tok.trim();
    let lower = t.to_ascii_lowercase();
    let v: Option<f64> = match lower.as_str() {
        ".nan" | "+.nan" | "-.nan" => Some(f64::NAN),
        ".inf" | "+.inf" => Some(f64::INFINITY),
        "-.inf" => Some(f64::NEG_INFINITY),
        _ => t.parse::<f64>().ok(),
    };
    match v {
        None => ("none", String::new()),
        Some(x) if x.is_finite() => ("finite", format!("{:016x}", x.to_bits())),
        Some(x) if x.is_nan() => ("nan", String::new()),
        Some(x) if x > 0.0 => ("inf", String::new()),
        Some(_) => ("-inf", String::new()),
    }
}

#[derive(Default, Serialize)]
struct Stats {
    cases: usize,
    records: usize,
    nontrivial: usize,
    unrenderable: usize,
    samples: Vec<serde_json::Value>,
}

fn render(tok: &str, style: &str, tag: &str) -> Option<String> {
    let body = scalar_text(tok, style);
    let text = if tag.is_empty() { format!("{body}\n") } else { format!("{tag} {body}\n") };
    // render-check: exactly one scalar with this text/style/tag
    let (evs, err) = raw_events(&text);
    if err {
        return None;
    }
    let evs = strip_doc_markers(&evs);
    if evs.len() == 1 && evs[0].k == "S" && evs[0].v == tok && evs[0].q == style && norm_tag(&evs[0].t) == tag {
        Some(text)
    } else {
        None
    }
}

#[derive(Deserialize)]
struct B64Case {
    s: String,
}
#[derive(Serialize)]
struct B64Rec<'a> {
    id: String,
    s: &'a str,
    yaml: String,
    obs: Vec<i64>,
    /// the same scalar read into a String (bytes of the text, <<-1>> on error): decoded payload, which must be UTF-8
    strobs: Vec<i64>,
    /// ... with ignore_binary_tag_for_string: the text as written; sbytes = the bytes of `s`
    strign: Vec<i64>,
    sbytes: Vec<i64>,
}
/// `!!binary` payloads: every case string as a double-quoted scalar into a byte buffer
pub fn run_b64(args: &Args) -> i32 {
    let out = args.req("out");
    let mut w = NdWriter::create(out);
    let cases: Vec<B64Case> = read_ndjson(args.req("cases"));
    let mut nontrivial = 0;
    for (i, c) in cases.iter().enumerate() {
        let yaml = format!("!!binary {}\n", scalar_text(&c.s, "d"));
        let obs = match fs0::<serde_bytes::ByteBuf>(&yaml) {
            Ok(b) => {
                nontrivial += 1;
                b.iter().map(|x| *x as i64).collect()
            }
            Err(_) => vec![-1],
        };
        let bytes_of = |r: Result<String, serde_saphyr::Error>| -> Vec<i64> { match r { Ok(t) => t.bytes().map(|x| x as i64).collect(), Err(_) => vec![-1] } };
        let strobs = bytes_of(fs0::<String>(&yaml));
        let mut o = serde_saphyr::Options::default();
        o.ignore_binary_tag_for_string = true;
        let strign = bytes_of(fswo::<String>(&yaml, o));
        let sbytes = c.s.bytes().map(|x| x as i64).collect();
        w.put(&B64Rec { id: format!("b{i}"), s: &c.s, yaml, obs, strobs, strign, sbytes });
    }
    // encode . decode round trip for all byte arrays of length <= 2 and random longer ones (std alphabet, canonical)
    let n = w.n;
    w.finish();
    println!("{}", serde_json::json!({"cases": cases.len(), "records": n, "nontrivial": nontrivial, "samples": [{"s": "QQ=="}, {"s": "QUI="}]}));
    0
}

pub fn run(args: &Args) -> i32 {
    let out = args.req("out");
    let mut w = NdWriter::create(out);
    let mut stats = Stats::default();
    let full = args.num("full", 0) == 1;
    let mut toks: Vec<String> = vec![];
    if let Some(cases) = args.get("cases") {
        let cases: Vec<Case> = read_ndjson(cases);
        stats.cases = cases.len();
        toks.extend(cases.into_iter().map(|c| c.tok));
    }
    // generated tokens beyond the corpus: random digit strings around random boundaries, random case/underscores
    let nrand = args.num("random", 0);
    let mut rng = Rng::new(args.num("seed", 1));
    for _ in 0..nrand {
        let bits = [8u32, 16, 32, 64, 128][rng.below(5)];
        let base: u128 = match rng.below(3) {
            0 => if bits == 128 { u128::MAX } else { (1u128 << bits) - 1 },
            1 => (1u128 << (bits - 1)) - 1,
            _ => 1u128 << (bits - 1),
        };
        let n = match rng.below(4) {
            0 => base.wrapping_add(rng.below(3) as u128).wrapping_sub(1),
            1 => base / (1 + rng.below(1000) as u128),
            2 => rng.next() as u128,
            _ => base.wrapping_add(1),
        };
        let radix = [10, 16, 8, 2][rng.below(4)];
        let mut d = match radix {
            10 => format!("{n}"),
            16 => if rng.chance(1, 2) { format!("{n:x}") } else { format!("{n:X}") },
            8 => format!("{n:o}"),
            _ => format!("{n:b}"),
        };
        if rng.chance(1, 3) && d.len() > 1 {
            let p = 1 + rng.below(d.len() - 1);
            d.insert(p, '_');
        }
        if rng.chance(1, 6) {
            d.insert(0, '0');
        }
        let pre = match radix {
            16 => if rng.chance(1, 2) { "0x" } else { "0X" },
            8 => if rng.chance(1, 4) { "0O" } else { "0o" },
            2 => "0b",
            _ => "",
        };
        let sign = ["", "-", "+"][rng.below(3)];
        toks.push(format!("{sign}{pre}{d}"));
    }
    let styles = ["p", "d", "s"];
    let tags = ["", "!!str", "!", "!!int", "!!null"];
    for (ti, tok) in toks.iter().enumerate() {
        let (fk, fb) = float_kind(tok);
        for style in styles {
            for tag in tags {
                if !full && !tag.is_empty() && ti % 4 != 0 {
                    continue;
                }
                let Some(text) = render(tok, style, tag) else {
                    stats.unrenderable += 1;
                    continue;
                };
                let optsets: Vec<(bool, bool, bool)> = if full || ti % 5 == 0 {
                    (0..8).map(|m| (m & 1 != 0, m & 2 != 0, m & 4 != 0)).collect()
                } else {
                    vec![(false, false, false), (true, true, true)]
                };
                for (legacy, strict, noschema) in optsets {
                    let mut ints = std::collections::BTreeMap::new();
                    if tag.is_empty() {
                        let o = || opts(legacy, strict, noschema);
                        ints.insert("i8", si!(i8, &text, o()));
                        ints.insert("i16", si!(i16, &text, o()));
                        ints.insert("i32", si!(i32, &text, o()));
                        ints.insert("i64", si!(i64, &text, o()));
                        ints.insert("i128", iobs_i(fswo::<i128>(&text, o())));
                        ints.insert("u8", ui!(u8, &text, o()));
                        ints.insert("u16", ui!(u16, &text, o()));
                        ints.insert("u32", ui!(u32, &text, o()));
                        ints.insert("u64", ui!(u64, &text, o()));
                        ints.insert("u128", iobs_u(fswo::<u128>(&text, o())));
                    }
                    let boolv = match fswo::<bool>(&text, opts(legacy, strict, noschema)) {
                        Ok(true) => "true".to_string(),
                        Ok(false) => "false".to_string(),
                        Err(_) => "none".to_string(),
                    };
                    let strv = match fswo::<String>(&text, opts(legacy, strict, noschema)) {
                        Ok(s) => N::leaf("S", &s),
                        Err(e) => N::errc(&classify(&e)),
                    };
                    let charv = match fswo::<char>(&text, opts(legacy, strict, noschema)) {
                        Ok(c) => format!("ok:{c}"),
                        Err(_) => "err".to_string(),
                    };
                    let anyv = match fswo::<Tree>(&text, opts(legacy, strict, noschema)) {
                        Ok(Tree(n)) => n,
                        Err(e) => N::errc(&classify(&e)),
                    };
                    let f64v = match fswo::<f64>(&text, opts(legacy, strict, noschema)) {
                        Ok(x) if x.is_nan() => "nan".to_string(),
                        Ok(x) => format!("{:016x}", x.to_bits()),
                        Err(_) => "err".to_string(),
                    };
                    stats.nontrivial += 1;
                    w.put(&Rec {
                        id: format!("t{ti}-{style}-{}-{}{}{}", tag.trim_start_matches('!'), legacy as u8, strict as u8, noschema as u8),
                        tok, style, tag, legacy, strict, noschema, floatkind: fk, fbits: fb.clone(), ints, boolv, strv, charv, nchars: tok.chars().count(), anyv, f64v, yaml: &text,
                    });
                }
            }
        }
        if stats.samples.len() < 5 && ti % 97 == 3 {
            stats.samples.push(serde_json::json!({"tok": tok}));
        }
    }
    stats.records = w.n;
    w.finish();
    println!("{}", serde_json::to_string(&stats).unwrap());
    0
}
