//! `SValue`: a run-time value covering the whole Serde data model (plus serde-saphyr's presentation
//! wrappers), with `Serialize`, and a `DeserializeSeed` that reads a value of the SAME SHAPE back
//! through the typed `deserialize_*` calls. Mirrors the value grammar of spec/Emitter.tla.
use crate::model::{Tree, N};
use serde::de::{self, DeserializeSeed, EnumAccess, MapAccess, SeqAccess, VariantAccess, Visitor};
use serde::ser::{SerializeMap, SerializeSeq, SerializeStruct, SerializeStructVariant, SerializeTuple, SerializeTupleStruct, SerializeTupleVariant};
use serde::{Deserialize, Serialize};
use std::fmt;

#[derive(Serialize, Deserialize, Clone, Debug, PartialEq)]
pub struct SValue {
    pub t: String,
    #[serde(default)]
    pub s: String,
    #[serde(default)]
    pub xs: Vec<SValue>,
}
pub const FIELDS: [&[&str]; 4] = [&[], &["a"], &["a", "b"], &["a", "b", "c"]];
pub const VARIANTS: &[&str] = &["U", "Nw", "T", "St"];
pub const DECOR: &[&str] = &["FlowSeq", "FlowMap", "Commented", "SpaceAfter", "Lit", "Fold"];

impl SValue {
    pub fn new(t: &str, s: &str, xs: Vec<SValue>) -> SValue {
        SValue { t: t.into(), s: s.into(), xs }
    }
    pub fn leaf(t: &str, s: &str) -> SValue {
        SValue::new(t, s, vec![])
    }
    /// the value without presentation wrappers
    pub fn bare(&self) -> SValue {
        match self.t.as_str() {
            "FlowSeq" | "FlowMap" | "Commented" | "SpaceAfter" => self.xs[0].bare(),
            "Lit" | "Fold" => SValue::leaf("S", &self.s),
            _ => SValue { t: self.t.clone(), s: self.s.clone(), xs: self.xs.iter().map(|x| x.bare()).collect() },
        }
    }
    /// uniform projection used for comparison (decorations ignored)
    pub fn to_n(&self) -> N {
        let b = self;
        match b.t.as_str() {
            "FlowSeq" | "FlowMap" | "Commented" | "SpaceAfter" => b.xs[0].to_n(),
            "Lit" | "Fold" => N::leaf("S", &b.s),
            "None" => N::leaf("None", ""),
            "U" | "US" => N::leaf(&b.t, ""),
            "B" | "I" | "S" => N::leaf(&b.t, &b.s),
            _ => N::new(&b.t, "", b.xs.iter().map(|x| x.to_n()).collect()),
        }
    }
    pub fn count(&self) -> usize {
        1 + self.xs.iter().map(|x| x.count()).sum::<usize>()
    }
    pub fn has_tag(&self, t: &str) -> bool {
        self.t == t || self.xs.iter().any(|x| x.has_tag(t))
    }
}

/// Data-model view of an `SValue` (the derive on `SValue` itself is its JSON form for records).
pub struct Dm<'a>(pub &'a SValue);
impl<'a> Serialize for Dm<'a> {
    fn serialize<S: serde::Serializer>(&self, s: S) -> Result<S::Ok, S::Error> {
        let this = self.0;
        match this.t.as_str() {
            "U" => s.serialize_unit(),
            "US" => s.serialize_unit_struct("US"),
            "B" => s.serialize_bool(this.s == "true"),
            "I" => s.serialize_i64(this.s.parse().unwrap_or(0)),
            "S" => s.serialize_str(&this.s),
            "None" => s.serialize_none(),
            "Some" => s.serialize_some(&Dm(&this.xs[0])),
            "Seq" => {
                let mut q = s.serialize_seq(Some(this.xs.len()))?;
                for x in &this.xs {
                    q.serialize_element(&Dm(x))?;
                }
                q.end()
            }
            "Tup" => {
                let mut q = s.serialize_tuple(this.xs.len())?;
                for x in &this.xs {
                    q.serialize_element(&Dm(x))?;
                }
                q.end()
            }
            "TS" => {
                let mut q = s.serialize_tuple_struct("TS", this.xs.len())?;
                for x in &this.xs {
                    q.serialize_field(&Dm(x))?;
                }
                q.end()
            }
            "NS" => s.serialize_newtype_struct("NS", &Dm(&this.xs[0])),
            "Map" => {
                let mut m = s.serialize_map(Some(this.xs.len() / 2))?;
                for kv in this.xs.chunks(2) {
                    m.serialize_entry(&Dm(&kv[0]), &Dm(&kv[1]))?;
                }
                m.end()
            }
            "Struct" => {
                let names = FIELDS[this.xs.len().min(3)];
                let mut st = s.serialize_struct("St", this.xs.len())?;
                for (i, x) in this.xs.iter().enumerate() {
                    st.serialize_field(names[i], &Dm(x))?;
                }
                st.end()
            }
            "UV" => s.serialize_unit_variant("E", 0, "U"),
            "NV" => s.serialize_newtype_variant("E", 1, "Nw", &Dm(&this.xs[0])),
            "TV" => {
                let mut q = s.serialize_tuple_variant("E", 2, "T", this.xs.len())?;
                for x in &this.xs {
                    q.serialize_field(&Dm(x))?;
                }
                q.end()
            }
            "SV" => {
                let mut st = s.serialize_struct_variant("E", 3, "St", 1)?;
                st.serialize_field("a", &Dm(&this.xs[0]))?;
                st.end()
            }
            "FlowSeq" => serde_saphyr::FlowSeq(Dm(&this.xs[0])).serialize(s),
            "FlowMap" => serde_saphyr::FlowMap(Dm(&this.xs[0])).serialize(s),
            "SpaceAfter" => serde_saphyr::SpaceAfter(Dm(&this.xs[0])).serialize(s),
            "Commented" => serde_saphyr::Commented(Dm(&this.xs[0]), this.s.clone()).serialize(s),
            "Lit" => serde_saphyr::LitStr(&this.s).serialize(s),
            "Fold" => serde_saphyr::FoldStr(&this.s).serialize(s),
            other => Err(serde::ser::Error::custom(format!("bad svalue tag {other}"))),
        }
    }
}

/// Reads back a value of the same shape as `self.0` (which must be bare), as a uniform N.
pub struct Shape<'a>(pub &'a SValue);

fn any<'de, D: de::Deserializer<'de>>(d: D) -> Result<N, D::Error> {
    Tree::deserialize(d).map(|t| N::new("UNEXPECTED", "", vec![t.0]))
}

impl<'de, 'a> DeserializeSeed<'de> for Shape<'a> {
    type Value = N;
    fn deserialize<D: de::Deserializer<'de>>(self, d: D) -> Result<N, D::Error> {
        let v = self.0;
        match v.t.as_str() {
            "U" => d.deserialize_unit(Prim("U")),
            "US" => d.deserialize_unit_struct("US", Prim("US")),
            "B" => d.deserialize_bool(Prim("B")),
            "I" => d.deserialize_i64(Prim("I")),
            "S" => d.deserialize_string(Prim("S")),
            "None" | "Some" => d.deserialize_option(OptV(v)),
            "Seq" => d.deserialize_seq(ElemsV(&v.xs, "Seq", false)),
            "Tup" => d.deserialize_tuple(v.xs.len(), ElemsV(&v.xs, "Tup", true)),
            "TS" => d.deserialize_tuple_struct("TS", v.xs.len(), ElemsV(&v.xs, "TS", true)),
            "NS" => d.deserialize_newtype_struct("NS", NsV(&v.xs[0])),
            "Map" => d.deserialize_map(MapV(&v.xs)),
            "Struct" => d.deserialize_struct("St", FIELDS[v.xs.len().min(3)], StructV(&v.xs, "Struct")),
            "UV" | "NV" | "TV" | "SV" => d.deserialize_enum("E", VARIANTS, EnumV(v)),
            _ => any(d),
        }
    }
}

struct Prim(&'static str);
impl<'de> Visitor<'de> for Prim {
    type Value = N;
    fn expecting(&self, f: &mut fmt::Formatter) -> fmt::Result {
        write!(f, "primitive {}", self.0)
    }
    fn visit_bool<E>(self, v: bool) -> Result<N, E> {
        Ok(N::leaf("B", if v { "true" } else { "false" }))
    }
    fn visit_i64<E>(self, v: i64) -> Result<N, E> {
        Ok(N::leaf("I", &v.to_string()))
    }
    fn visit_u64<E>(self, v: u64) -> Result<N, E> {
        Ok(N::leaf("I", &v.to_string()))
    }
    fn visit_str<E>(self, v: &str) -> Result<N, E> {
        Ok(N::leaf("S", v))
    }
    fn visit_unit<E>(self) -> Result<N, E> {
        Ok(N::leaf(self.0, ""))
    }
}
struct OptV<'a>(&'a SValue);
impl<'de, 'a> Visitor<'de> for OptV<'a> {
    type Value = N;
    fn expecting(&self, f: &mut fmt::Formatter) -> fmt::Result {
        f.write_str("option")
    }
    fn visit_none<E>(self) -> Result<N, E> {
        Ok(N::leaf("None", ""))
    }
    fn visit_unit<E>(self) -> Result<N, E> {
        Ok(N::leaf("None", ""))
    }
    fn visit_some<D: de::Deserializer<'de>>(self, d: D) -> Result<N, D::Error> {
        let inner = if self.0.t == "Some" { Shape(&self.0.xs[0]).deserialize(d)? } else { any(d)? };
        Ok(N::new("Some", "", vec![inner]))
    }
}
struct NsV<'a>(&'a SValue);
impl<'de, 'a> Visitor<'de> for NsV<'a> {
    type Value = N;
    fn expecting(&self, f: &mut fmt::Formatter) -> fmt::Result {
        f.write_str("newtype struct")
    }
    fn visit_newtype_struct<D: de::Deserializer<'de>>(self, d: D) -> Result<N, D::Error> {
        Ok(N::new("NS", "", vec![Shape(self.0).deserialize(d)?]))
    }
}
/// sequences / tuples: the i-th element is read with the i-th shape; `fixed` = stop at the arity like a tuple visitor
struct ElemsV<'a>(&'a [SValue], &'static str, bool);
impl<'de, 'a> Visitor<'de> for ElemsV<'a> {
    type Value = N;
    fn expecting(&self, f: &mut fmt::Formatter) -> fmt::Result {
        write!(f, "{} of {}", self.1, self.0.len())
    }
    fn visit_seq<A: SeqAccess<'de>>(self, mut seq: A) -> Result<N, A::Error> {
        let mut v = vec![];
        for (i, s) in self.0.iter().enumerate() {
            match seq.next_element_seed(Shape(s))? {
                Some(x) => v.push(x),
                None => {
                    if self.2 {
                        return Err(de::Error::invalid_length(i, &self));
                    }
                    return Ok(N::new(self.1, "", v));
                }
            }
        }
        if !self.2 {
            struct AnySeed;
            impl<'de> DeserializeSeed<'de> for AnySeed {
                type Value = N;
                fn deserialize<D: de::Deserializer<'de>>(self, d: D) -> Result<N, D::Error> {
                    any(d)
                }
            }
            while let Some(x) = seq.next_element_seed(AnySeed)? {
                v.push(x);
            }
        }
        Ok(N::new(self.1, "", v))
    }
}
struct MapV<'a>(&'a [SValue]);
impl<'de, 'a> Visitor<'de> for MapV<'a> {
    type Value = N;
    fn expecting(&self, f: &mut fmt::Formatter) -> fmt::Result {
        f.write_str("map")
    }
    fn visit_map<A: MapAccess<'de>>(self, mut m: A) -> Result<N, A::Error> {
        let mut v = vec![];
        let n = self.0.len() / 2;
        for i in 0..n {
            match m.next_key_seed(Shape(&self.0[2 * i]))? {
                Some(k) => {
                    v.push(k);
                    v.push(m.next_value_seed(Shape(&self.0[2 * i + 1]))?);
                }
                None => return Ok(N::new("Map", "", v)),
            }
        }
        struct AnySeed;
        impl<'de> DeserializeSeed<'de> for AnySeed {
            type Value = N;
            fn deserialize<D: de::Deserializer<'de>>(self, d: D) -> Result<N, D::Error> {
                any(d)
            }
        }
        while let Some(k) = m.next_key_seed(AnySeed)? {
            v.push(k);
            v.push(m.next_value_seed(AnySeed)?);
        }
        Ok(N::new("Map", "", v))
    }
}
struct FieldId(&'static [&'static str]);
impl<'de> DeserializeSeed<'de> for FieldId {
    type Value = Option<usize>;
    fn deserialize<D: de::Deserializer<'de>>(self, d: D) -> Result<Option<usize>, D::Error> {
        struct V(&'static [&'static str]);
        impl<'de> Visitor<'de> for V {
            type Value = Option<usize>;
            fn expecting(&self, f: &mut fmt::Formatter) -> fmt::Result {
                f.write_str("field identifier")
            }
            fn visit_str<E>(self, v: &str) -> Result<Option<usize>, E> {
                Ok(self.0.iter().position(|f| *f == v))
            }
            fn visit_u64<E>(self, v: u64) -> Result<Option<usize>, E> {
                Ok(Some(v as usize))
            }
        }
        d.deserialize_identifier(V(self.0))
    }
}
struct StructV<'a>(&'a [SValue], &'static str);
impl<'de, 'a> Visitor<'de> for StructV<'a> {
    type Value = N;
    fn expecting(&self, f: &mut fmt::Formatter) -> fmt::Result {
        f.write_str("struct")
    }
    fn visit_map<A: MapAccess<'de>>(self, mut m: A) -> Result<N, A::Error> {
        let names = FIELDS[self.0.len().min(3)];
        let mut slots: Vec<Option<N>> = vec![None; self.0.len()];
        while let Some(k) = m.next_key_seed(FieldId(names))? {
            match k {
                Some(i) if i < slots.len() => {
                    if slots[i].is_some() {
                        return Err(de::Error::duplicate_field(names[i]));
                    }
                    slots[i] = Some(m.next_value_seed(Shape(&self.0[i]))?);
                }
                _ => return Err(de::Error::custom("unknown field")),
            }
        }
        let mut v = vec![];
        for (i, s) in slots.into_iter().enumerate() {
            match s {
                Some(x) => v.push(x),
                // a field whose value is None may be left out by the reader's rules; report it as None
                None if self.0[i].t == "None" => v.push(N::leaf("None", "")),
                None => return Err(de::Error::missing_field(names[i])),
            }
        }
        Ok(N::new(self.1, "", v))
    }
}
struct VariantId;
impl<'de> DeserializeSeed<'de> for VariantId {
    type Value = usize;
    fn deserialize<D: de::Deserializer<'de>>(self, d: D) -> Result<usize, D::Error> {
        struct V;
        impl<'de> Visitor<'de> for V {
            type Value = usize;
            fn expecting(&self, f: &mut fmt::Formatter) -> fmt::Result {
                f.write_str("variant identifier")
            }
            fn visit_str<E: de::Error>(self, v: &str) -> Result<usize, E> {
                VARIANTS.iter().position(|x| *x == v).ok_or_else(|| de::Error::unknown_variant(v, VARIANTS))
            }
            fn visit_u64<E: de::Error>(self, v: u64) -> Result<usize, E> {
                Ok(v as usize)
            }
        }
        d.deserialize_identifier(V)
    }
}
struct EnumV<'a>(&'a SValue);
impl<'de, 'a> Visitor<'de> for EnumV<'a> {
    type Value = N;
    fn expecting(&self, f: &mut fmt::Formatter) -> fmt::Result {
        f.write_str("enum E")
    }
    fn visit_enum<A: EnumAccess<'de>>(self, data: A) -> Result<N, A::Error> {
        let v = self.0;
        let (idx, va) = data.variant_seed(VariantId)?;
        let unit = SValue::leaf("U", "");
        match idx {
            0 => {
                va.unit_variant()?;
                Ok(N::leaf("UV", ""))
            }
            1 => {
                let sh = if v.t == "NV" { &v.xs[0] } else { &unit };
                Ok(N::new("NV", "", vec![va.newtype_variant_seed(Shape(sh))?]))
            }
            2 => {
                if v.t == "TV" {
                    va.tuple_variant(v.xs.len(), ElemsV(&v.xs, "TV", true))
                } else {
                    va.tuple_variant(0, ElemsV(&[], "TV", false))
                }
            }
            _ => {
                if v.t == "SV" {
                    va.struct_variant(FIELDS[1], StructV(&v.xs, "SV"))
                } else {
                    va.struct_variant(FIELDS[0], StructV(&[], "SV"))
                }
            }
        }
    }
}
