//! vh — conformance harness binding the TLA+ specifications in /verif/spec to the real crate.
//! Each subcommand reads TLC-generated cases (NDJSON) and/or generates random inputs, runs the
//! real serde-saphyr entry points and writes records (NDJSON) for the TLA+ trace validators.
mod model;
mod docgen;
mod c01;
mod c02;
mod c03;
mod c07;
mod c11;
mod c12;
mod svalue;
mod c13;
mod c14;
mod c15;
mod c16;
mod c17;
mod c18;
mod c19;
mod schema;
mod c05;
mod c06;
mod c08;
mod c09;

use std::collections::HashMap;

#[global_allocator]
static GLOBAL: c08::Counting = c08::Counting;

pub struct Args {
    pub kv: HashMap<String, String>,
}
impl Args {
    pub fn get(&self, k: &str) -> Option<&str> {
        self.kv.get(k).map(|s| s.as_str())
    }
    pub fn num(&self, k: &str, d: u64) -> u64 {
        self.get(k).and_then(|s| s.parse().ok()).unwrap_or(d)
    }
    pub fn req(&self, k: &str) -> &str {
        self.get(k).unwrap_or_else(|| {
            eprintln!("missing --{k}");
            std::process::exit(2)
        })
    }
}

fn main() {
    let argv: Vec<String> = std::env::args().collect();
    if argv.len() < 2 {
        eprintln!("usage: vh <cmd> [--key value]...");
        std::process::exit(2);
    }
    let mut kv = HashMap::new();
    let mut i = 2;
    while i < argv.len() {
        if let Some(k) = argv[i].strip_prefix("--") {
            let v = argv.get(i + 1).cloned().unwrap_or_default();
            kv.insert(k.to_string(), v);
            i += 2;
        } else {
            i += 1;
        }
    }
    let args = Args { kv };
    // Panics inside the code under test are data; keep the default hook quiet.
    // (VH_PANIC_MSG=1 keeps the default hook: panic messages of the crate and of the harness on stderr, for debugging)
    if std::env::var("VH_PANIC_MSG").is_err() { std::panic::set_hook(Box::new(|_| {})); }
    let rc = match argv[1].as_str() {
        "c01" => c01::run(&args),
        "c01one" => c01::run_one_hex(&args),
        "c01w" => c01::worker(&args),
        "c02" => c02::run(&args),
        "c02t" => c02::run_traces(&args),
        "c03t" => c03::run_traces(&args),
        "c03" => c03::run(&args),
        "c07" => c07::run(&args),
        "c07t" => c07::run_traces(&args),
        "c11" => c11::run(&args),
        "c12" => c12::run(&args),
        "c13" => c13::run(&args),
        "c14" => c14::run(&args),
        "c15" => c15::run(&args),
        "c16" => c16::run(&args),
        "c17" => c17::run(&args),
        "c18" => c18::run(&args),
        "c19" => c19::run(&args),
        "c05" => c05::run(&args),
        "c05a" => c05::run_alias(&args),
        "c05m" => c05::run_merge(&args),
        "c06" => c06::run(&args),
        "c06b64" => c06::run_b64(&args),
        "c08" => c08::run(&args),
        "c09" => c09::run(&args),
        other => {
            eprintln!("unknown command {other}");
            2
        }
    };
    std::process::exit(rc);
}
