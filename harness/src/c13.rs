//! C13 / C20 — every data-model shape (optionally decorated with presentation wrappers) round-trips
//! as one well-formed document. cases (from MC_Emitter): {tree}; records (to TV_Emitter)
use crate::docgen::*;
use crate::model::*;
use crate::svalue::*;
use crate::Args;
use serde::de::DeserializeSeed;
use serde::{Deserialize, Serialize};
use serde_saphyr::SerializerOptions;

#[derive(Deserialize)]
struct Case {
    tree: SValue,
}
#[derive(Serialize)]
struct Rec<'a> {
    id: String,
    tree: &'a SValue,
    opt: &'a str,
    text: String,
    back: N,
    /// the same text read into the untyped tree of the BARE value's text (C20: data through an untyped tree)
    untyped_same: bool,
    docs: i64,
}

pub fn option_sets(all: bool) -> Vec<(String, SerializerOptions)> {
    let d = SerializerOptions::default();
    let mut v = vec![("default".to_string(), d)];
    if all {
        for m in 1..128u32 {
            let o = SerializerOptions {
                indent_step: if m & 1 != 0 { 4 } else { 2 },
                compact_list_indent: m & 2 != 0,
                empty_as_braces: m & 4 == 0,
                quote_all: m & 8 != 0,
                yaml_12: m & 16 != 0,
                prefer_block_scalars: m & 32 == 0,
                tagged_enums: m & 64 != 0,
                ..d
            };
            v.push((format!("m{m}"), o));
        }
    } else {
        // pairwise-ish covering set
        for m in [1u32, 2, 4, 8, 16, 32, 64, 3, 5, 24, 96, 127, 66, 72, 85, 42] {
            let o = SerializerOptions {
                indent_step: if m & 1 != 0 { 4 } else { 2 },
                compact_list_indent: m & 2 != 0,
                empty_as_braces: m & 4 == 0,
                quote_all: m & 8 != 0,
                yaml_12: m & 16 != 0,
                prefer_block_scalars: m & 32 == 0,
                tagged_enums: m & 64 != 0,
                ..d
            };
            v.push((format!("m{m}"), o));
        }
    }
    // indentation steps other than 2 and 4
    for (name, step, compact) in [("i1", 1usize, false), ("i3", 3, false), ("i3c", 3, true), ("i1c", 1, true), ("i8", 8, false), ("i8c", 8, true)] {
        v.push((name.to_string(), SerializerOptions { indent_step: step, compact_list_indent: compact, ..d }));
    }
    v
}

pub fn round_trip(tree: &SValue, o: SerializerOptions) -> (String, N, i64, bool) {
    let t2 = tree.clone();
    let r = guarded(move || {
        let text = match serde_saphyr::to_string_with_options(&Dm(&t2), o) {
            Ok(t) => t,
            Err(e) => return (format!("SERERR {e}"), N::errc("Serialize"), -1, false),
        };
        let bare = t2.bare();
        let back = match serde_saphyr::with_deserializer_from_str(&text, |de| Shape(&bare).deserialize(de)) {
            Ok(n) => n,
            Err(e) => N::errc(&classify(&e)),
        };
        // number of documents in the text, counted on the parser's own event stream
        let docs = {
            let (evs, err) = raw_events(&text);
            if err { -1 } else { evs.iter().filter(|e| e.k == "DS").count() as i64 }
        };
        // data compared through the untyped tree against the bare value written with default options
        let bare_text = serde_saphyr::to_string(&Dm(&bare)).unwrap_or_default();
        let a = serde_saphyr::from_str::<Tree>(&text).ok();
        let b = serde_saphyr::from_str::<Tree>(&bare_text).ok();
        let same = a.is_some() && a == b;
        (text, back, docs, same)
    });
    match r {
        Ok(x) => x,
        Err(p) => (String::new(), N::errc(&format!("PANIC:{p}")), -1, false),
    }
}

// random deeper values
fn rand_value(rng: &mut Rng, depth: usize, key: bool) -> SValue {
    let leaves = [("U", ""), ("B", "true"), ("B", "false"), ("I", "1"), ("I", "-7"), ("S", "x"), ("S", "two words"), ("S", ""), ("S", "1"), ("None", ""), ("UV", ""), ("US", ""),
                  ("S", "a, b"), ("S", "[x]"), ("S", "k: v"), ("S", "t}"), ("S", "# c")];
    if depth == 0 || rng.chance(1, 3) {
        let (t, s) = *rng.pick(&leaves);
        if key && (t == "None" || t == "U" || t == "US") {
            return SValue::leaf("S", "k");
        }
        return SValue::leaf(t, s);
    }
    let mut kids = |rng: &mut Rng, n: usize| -> Vec<SValue> { (0..n).map(|_| rand_value(rng, depth - 1, false)).collect() };
    match rng.below(11) {
        0 => SValue::new("Some", "", kids(rng, 1)),
        1 => SValue::new("NS", "", kids(rng, 1)),
        2 => SValue::new("NV", "", kids(rng, 1)),
        3 => SValue::new("SV", "", kids(rng, 1)),
        4 => { let n = rng.below(4); SValue::new("Seq", "", kids(rng, n)) }
        5 => { let n = 1 + rng.below(3); SValue::new("Tup", "", kids(rng, n)) }
        6 => { let n = 1 + rng.below(3); SValue::new("TS", "", kids(rng, n)) }
        7 => { let n = 2 + rng.below(2); SValue::new("TV", "", kids(rng, n)) }
        8 => { let n = rng.below(4); SValue::new("Struct", "", kids(rng, n)) }
        _ => {
            let n = rng.below(4);
            let mut xs = vec![];
            let plain_keys = ["k", "m", "p"];
            // string keys that are only safe when quoted in some contexts (flow indicators, look-alikes)
            let nasty = ["a, b", "x[0]", "set{y}", "q]", "w}", "two words", "1", "true", "~", "- d", "? q", "a#b", "c #d", "e: f", "g:", "<<", "[h", "{i", "é"];
            let off = rng.below(nasty.len());
            let use_nasty = rng.chance(1, 3);
            let keys: Vec<&str> = (0..3).map(|i| if use_nasty { nasty[(off + i) % nasty.len()] } else { plain_keys[i] }).collect();
            for i in 0..n {
                let k = match rng.below(5) {
                    // (integer keys far away from the string keys "1", "true", ...: an integer key 1 and a
                    // string key "1" are the same YAML key node and cannot live in one mapping)
                    0 => SValue::leaf("I", &(i + 101).to_string()),
                    // composite keys of one to three elements (sequence, tuple, tuple struct), now and then nested
                    1 if depth > 1 => {
                        let n = 1 + rng.below(3);
                        let mut items: Vec<SValue> = (0..n).map(|j| if j == 1 { SValue::leaf("S", "x") } else { SValue::leaf("I", &(i + 1 + 10 * j).to_string()) }).collect();
                        if rng.chance(1, 5) {
                            items[0] = SValue::new("Seq", "", vec![SValue::leaf("I", &(i + 1).to_string()), SValue::leaf("I", "2")]);
                        }
                        let kind = if n == 1 { "Seq" } else { *rng.pick(&["Seq", "Tup", "TS"]) };
                        SValue::new(kind, "", items)
                    }
                    2 if depth > 1 => {
                        let n = 1 + rng.below(2);
                        let fields: Vec<SValue> = (0..n).map(|j| SValue::leaf("I", &(i + 1 + 10 * j).to_string())).collect();
                        // a struct, or an enum variant with a payload, in key position
                        match rng.below(4) {
                            0 => SValue::new("NV", "", vec![fields[0].clone()]),
                            1 => SValue::new("TV", "", vec![fields[0].clone(), SValue::leaf("I", &(i + 40).to_string())]),
                            2 => SValue::new("SV", "", vec![fields[0].clone()]),
                            _ => SValue::new("Struct", "", fields),
                        }
                    }
                    3 => match i {
                        0 => SValue::leaf("B", "false"),
                        1 => SValue::leaf("UV", ""),
                        _ => SValue::new("Some", "", vec![SValue::leaf("I", &(i + 200).to_string())]),
                    },
                    _ => SValue::leaf("S", keys[i]),
                };
                xs.push(k);
                xs.push(rand_value(rng, depth - 1, false));
            }
            SValue::new("Map", "", xs)
        }
    }
}
fn block_text(short: &str, rng: &mut Rng) -> String {
    if rng.chance(1, 2) {
        return short.to_string();
    }
    let words = |n: usize| (0..n).map(|i| ["alpha", "be", "gamma", "d", "epsilon"][i % 5]).collect::<Vec<_>>().join(" ");
    match rng.below(14) {
        0 => "line one\nline two".into(),
        1 => " leading blank\nsecond".into(),
        2 => "trailing newline\n".into(),
        3 => "two trailing\n\n".into(),
        4 => words(30),
        5 => format!(" {}", words(30)),
        6 => "w".repeat(120),
        7 => "a\n\nb".into(),
        8 => "  two leading\n  both".into(),
        9 => format!("first\n  {}\nlast", words(25)),
        10 => "# not a comment\n- not a list".into(),
        11 => "key: value\nother: v".into(),
        12 => format!("{}\n{}", words(20), words(22)),
        _ => "x  y".into(),
    }
}
fn decorate(v: &SValue, rng: &mut Rng, budget: &mut usize) -> SValue {
    let mut out = SValue { t: v.t.clone(), s: v.s.clone(), xs: v.xs.iter().enumerate().map(|(i, x)| if v.t == "Map" && i % 2 == 0 { x.clone() } else { decorate(x, rng, budget) }).collect() };
    if *budget > 0 && rng.chance(1, 3) {
        *budget -= 1;
        let comments = ["note", "a # b", "x: y", "line1\nline2", "- item", "cr\rinjected: 1", "tab\there", "", "é ü", "[flow]", "'q\""];
        out = match (out.t.as_str(), rng.below(6)) {
            ("Seq" | "Tup", 0 | 1) => SValue::new("FlowSeq", "", vec![out]),
            ("Map" | "Struct", 0 | 1) => SValue::new("FlowMap", "", vec![out]),
            // block-scalar wrappers get block-scalar material half of the time: several lines, leading blanks, trailing
            // line breaks, lines longer than the folding width with and without leading blanks, a very long word
            ("S", 0) => SValue::leaf("Lit", &block_text(&out.s, rng)),
            ("S", 1) => SValue::leaf("Fold", &block_text(&out.s, rng)),
            (_, 2 | 3) => SValue::new("Commented", rng.pick_str(&comments), vec![out]),
            (_, 4) => SValue::new("SpaceAfter", "", vec![out]),
            _ => out,
        };
    }
    out
}

#[derive(Default, Serialize)]
struct Stats {
    cases: usize,
    records: usize,
    nontrivial: usize,
    samples: Vec<serde_json::Value>,
}

pub fn run(args: &Args) -> i32 {
    let out = args.req("out");
    let mut w = NdWriter::create(out);
    let mut stats = Stats::default();
    let mut rng = Rng::new(args.num("seed", 1));
    let all_opts = args.num("all-options", 0) == 1;
    let osets = option_sets(all_opts);
    let decor = args.num("decorate", 0) == 1;
    let mut seen = std::collections::HashSet::new();
    let mut handle = |id: String, tree: &SValue, oi: Option<usize>, w: &mut NdWriter, stats: &mut Stats, rng: &mut Rng| {
        let key = serde_json::to_string(tree).unwrap();
        if seen.insert(key) && tree.count() > 1 {
            stats.nontrivial += 1;
        }
        let picks: Vec<usize> = match oi {
            Some(i) => vec![0, 1 + i % (osets.len() - 1)],
            None => (0..osets.len()).collect(),
        };
        let _ = rng;
        for i in picks {
            let (name, o) = &osets[i];
            let (text, back, docs, untyped_same) = round_trip(tree, *o);
            w.put(&Rec { id: format!("{id}-{name}"), tree, opt: name, text, back, untyped_same, docs });
        }
    };
    if let Some(cases) = args.get("cases") {
        let cases: Vec<Case> = read_ndjson(cases);
        for (i, c) in cases.iter().enumerate() {
            stats.cases += 1;
            // small trees: every option set; larger enumerations: default + one rotating set
            let oi = if cases.len() > 2000 { Some(i) } else { None };
            handle(format!("c{i}"), &c.tree, oi, &mut w, &mut stats, &mut rng);
        }
    }
    // block-scalar material (strings that are written as literal / folded blocks, with or without the explicit wrappers) in
    // every kind of parent position, under every option set
    {
        let words = |n: usize| (0..n).map(|i| ["alpha", "be", "gamma", "d", "epsilon"][i % 5]).collect::<Vec<_>>().join(" ");
        let texts: Vec<String> = vec!["line one\nline two".into(), " lead\nsecond".into(), "  two\n  both".into(), "tail\n".into(), format!("{}\n{}", words(20), words(22)),
                                      format!(" {}", words(30)), "x".into(), "   \nabc".into(), " \n".into()];
        let kinds: Vec<&str> = if decor { vec!["Lit", "Fold"] } else { vec!["S"] };
        let mut k = 0;
        for t in &texts {
            for kind in &kinds {
                // an explicit folded wrapper folds inner line breaks (recorded finding): keep its family to one-line texts
                if *kind == "Fold" && t.trim_end_matches('\n').contains('\n') { continue; }
                let leaf = || SValue::leaf(kind, t);
                let st = |a: SValue| SValue::new("Struct", "", vec![a, SValue::leaf("I", "1")]);
                let trees = vec![
                    leaf(),
                    SValue::new("Seq", "", vec![leaf(), leaf()]),
                    st(leaf()),
                    SValue::new("Seq", "", vec![st(leaf()), st(leaf())]),
                    SValue::new("Map", "", vec![SValue::leaf("S", "k"), SValue::new("Seq", "", vec![st(leaf())])]),
                    SValue::new("NV", "", vec![leaf()]),
                    SValue::new("SV", "", vec![leaf()]),
                    SValue::new("Map", "", vec![SValue::leaf("S", "k"), SValue::new("NV", "", vec![leaf()])]),
                    SValue::new("Seq", "", vec![SValue::new("Seq", "", vec![leaf()]), SValue::new("NV", "", vec![st(leaf())])]),
                    SValue::new("Some", "", vec![st(SValue::new("Some", "", vec![leaf()]))]),
                ];
                for tr in trees {
                    handle(format!("b{k}"), &tr, None, &mut w, &mut stats, &mut rng);
                    k += 1;
                }
            }
        }
    }
    // deep chains of random constructors (indentation of 32 - 160 columns), with a sibling after the deep part
    {
        let n = if args.num("random", 0) > 20000 { 400 } else { 40 };
        for i in 0..n {
            let depth = 4 + rng.below(17);
            let mut v = if rng.chance(1, 2) { SValue::leaf("S", "x") } else { SValue::new("Seq", "", vec![SValue::leaf("I", "1"), SValue::leaf("I", "2")]) };
            for _ in 0..depth {
                let sib = || SValue::leaf("I", "1");
                v = match rng.below(7) {
                    0 => SValue::new("Map", "", vec![SValue::leaf("S", "k"), v, SValue::leaf("S", "m"), sib()]),
                    1 => SValue::new("Seq", "", vec![v, sib()]),
                    2 => SValue::new("Struct", "", vec![v, sib()]),
                    3 => SValue::new("NV", "", vec![v]),
                    4 => SValue::new("SV", "", vec![v]),
                    5 => SValue::new("TV", "", vec![sib(), v]),
                    _ => SValue::new("Some", "", vec![v]),
                };
            }
            if decor {
                let mut b = 1 + rng.below(2);
                v = decorate(&v, &mut rng, &mut b);
            }
            handle(format!("d{i}"), &v, None, &mut w, &mut stats, &mut rng);
        }
    }
    // a block-style request (Lit / Fold) inside a flow collection cannot be honoured there; the strings written AFTER the flow
    // collection, in block context, must not inherit it
    if decor {
        let n = if args.num("random", 0) > 20000 { 3000 } else { 300 };
        let after = ["demo", "line one\nline two", "x y", "with\rcr", "trailing\n", " lead", "a: b", "", "é ü", "two\n\nparas"];
        for i in 0..n {
            let hinted = |rng: &mut Rng| SValue::leaf(if rng.chance(1, 2) { "Fold" } else { "Lit" }, &block_text("short text", rng));
            let flow = match rng.below(4) {
                0 => SValue::new("FlowSeq", "", vec![SValue::new("Seq", "", vec![hinted(&mut rng)])]),
                1 => SValue::new("FlowSeq", "", vec![SValue::new("Seq", "", vec![SValue::leaf("I", "1"), hinted(&mut rng), hinted(&mut rng)])]),
                2 => SValue::new("FlowMap", "", vec![SValue::new("Map", "", vec![SValue::leaf("S", "k"), hinted(&mut rng)])]),
                _ => SValue::new("FlowSeq", "", vec![SValue::new("Seq", "", vec![SValue::new("Seq", "", vec![hinted(&mut rng)])])]),
            };
            let next = SValue::leaf("S", rng.pick_str(&after));
            let last = SValue::leaf("S", rng.pick_str(&after));
            let v = match rng.below(3) {
                0 => SValue::new("Struct", "", vec![flow, next, last]),
                1 => SValue::new("Seq", "", vec![flow, next, last]),
                _ => SValue::new("Map", "", vec![SValue::leaf("S", "notes"), flow, SValue::leaf("S", "name"), next, SValue::leaf("S", "z"), last]),
            };
            handle(format!("h{i}"), &v, Some(i as usize), &mut w, &mut stats, &mut rng);
        }
    }
    let nrand = args.num("random", 0);
    for i in 0..nrand {
        let d = 2 + rng.below(3);
        let mut v = rand_value(&mut rng, d, false);
        if decor {
            let mut b = 1 + rng.below(3);
            v = decorate(&v, &mut rng, &mut b);
        }
        if stats.samples.len() < 4 && v.count() > 6 {
            stats.samples.push(serde_json::json!({"tree": v, "text": serde_saphyr::to_string(&Dm(&v)).unwrap_or_default()}));
        }
        handle(format!("r{i}"), &v, Some(i as usize), &mut w, &mut stats, &mut rng);
    }
    stats.records = w.n;
    w.finish();
    println!("{}", serde_json::to_string(&stats).unwrap());
    0
}
