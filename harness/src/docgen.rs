//! Random document generators (implementation -> specification direction) and NDJSON helpers.
use crate::model::*;
use serde::Serialize;
use std::io::{BufRead, BufWriter, Write};

pub fn read_ndjson<T: serde::de::DeserializeOwned>(path: &str) -> Vec<T> {
    let f = std::fs::File::open(path).unwrap_or_else(|e| {
        eprintln!("cannot open {path}: {e}");
        std::process::exit(2)
    });
    let mut out = vec![];
    for (i, line) in std::io::BufReader::new(f).lines().enumerate() {
        let line = line.unwrap();
        if line.trim().is_empty() {
            continue;
        }
        match serde_json::from_str(&line) {
            Ok(v) => out.push(v),
            Err(e) => {
                eprintln!("{path}:{}: bad json: {e}", i + 1);
                std::process::exit(2)
            }
        }
    }
    out
}

pub struct NdWriter {
    w: BufWriter<std::fs::File>,
    pub n: usize,
}
impl NdWriter {
    pub fn create(path: &str) -> NdWriter {
        let f = std::fs::File::create(path).unwrap_or_else(|e| {
            eprintln!("cannot create {path}: {e}");
            std::process::exit(2)
        });
        NdWriter { w: BufWriter::new(f), n: 0 }
    }
    pub fn put<T: Serialize>(&mut self, v: &T) {
        serde_json::to_writer(&mut self.w, v).unwrap();
        self.w.write_all(b"\n").unwrap();
        self.n += 1;
    }
    pub fn finish(mut self) {
        self.w.flush().unwrap();
    }
}

/// Parameters of the random document generator.
pub struct DocGen {
    pub max_events: usize,
    pub max_depth: usize,
    pub scalars: Vec<(String, String)>,
    pub key_scalars: Vec<(String, String)>,
    pub names: usize,
    pub p_anchor: (usize, usize),
    pub p_alias: (usize, usize),
    pub container_keys: bool,
}

struct GenState {
    evs: Vec<AEv>,
    nid: u32,
    nmap: Vec<u32>,    // name -> current id (0 = undefined)
    idname: Vec<String>, // id -> name (index 0 unused)
}

impl DocGen {
    /// Generates one well-formed document (content events) and the id->name table.
    pub fn generate(&self, rng: &mut Rng) -> (Vec<AEv>, Vec<String>) {
        let mut st = GenState { evs: vec![], nid: 1, nmap: vec![0; self.names + 1], idname: vec![String::new()] };
        let mut budget = self.max_events as isize;
        self.node(rng, &mut st, 0, &mut budget, false, true);
        (st.evs, st.idname)
    }
    fn anchor(&self, rng: &mut Rng, st: &mut GenState) -> u32 {
        if self.names > 0 && rng.chance(self.p_anchor.0, self.p_anchor.1) {
            let n = 1 + rng.below(self.names);
            let id = st.nid;
            st.nid += 1;
            st.nmap[n] = id;
            st.idname.push(format!("n{n}"));
            id
        } else {
            0
        }
    }
    fn node(&self, rng: &mut Rng, st: &mut GenState, depth: usize, budget: &mut isize, key: bool, root: bool) {
        // alias?
        let defined: Vec<u32> = st.nmap.iter().cloned().filter(|&x| x != 0).collect();
        if !root && !defined.is_empty() && rng.chance(self.p_alias.0, self.p_alias.1) {
            let id = *rng.pick(&defined);
            st.evs.push(AEv::new("AL", id, "", "p", ""));
            *budget -= 1;
            return;
        }
        let container_ok = depth < self.max_depth && *budget > 3 && (!key || self.container_keys);
        let choice = if container_ok { rng.below(if root { 3 } else { 4 }) } else { 9 };
        match choice {
            0 | 1 if choice == 0 || root => {
                // sequence
                let a = self.anchor(rng, st);
                st.evs.push(AEv::new("SS", a, "", "p", ""));
                *budget -= 2;
                let n = rng.below(4);
                for _ in 0..n {
                    if *budget <= 0 {
                        break;
                    }
                    self.node(rng, st, depth + 1, budget, false, false);
                }
                st.evs.push(AEv::new("SE", 0, "", "p", ""));
            }
            1 | 2 => {
                let a = self.anchor(rng, st);
                st.evs.push(AEv::new("MS", a, "", "p", ""));
                *budget -= 2;
                let n = rng.below(4);
                for _ in 0..n {
                    if *budget <= 1 {
                        break;
                    }
                    self.node(rng, st, depth + 1, budget, true, false);
                    self.node(rng, st, depth + 1, budget, false, false);
                }
                st.evs.push(AEv::new("ME", 0, "", "p", ""));
            }
            _ => {
                let a = self.anchor(rng, st);
                let (v, q) = if key { rng.pick(&self.key_scalars).clone() } else { rng.pick(&self.scalars).clone() };
                st.evs.push(AEv::new("S", a, &v, &q, ""));
                *budget -= 1;
            }
        }
    }
}

pub fn sv(pairs: &[(&str, &str)]) -> Vec<(String, String)> {
    pairs.iter().map(|(a, b)| (a.to_string(), b.to_string())).collect()
}
