//! C07 — budget limits are enforced exactly and the usage report is accurate.
//! cases (from MC_Budget): {raw:[full events with STS/DS/DE/STE], usage:{..}}
//! records (to TV_Budget): {id, entry, yaml, raw, lim, res, rep, items}
use crate::docgen::*;
use crate::model::*;
use crate::Args;
use serde::{Deserialize, Serialize};
use serde_saphyr::budget::{Budget, BudgetBreach, BudgetReport, EnforcingPolicy};
use serde_saphyr::options::DuplicateKeyPolicy;
use std::cell::RefCell;
use std::rc::Rc;

#[derive(Deserialize)]
struct Case {
    raw: Vec<BEv>,
}
/// budget-view event: AEv + byte length
#[derive(Serialize, Deserialize, Clone, Debug)]
pub struct BEv {
    pub k: String,
    #[serde(default)]
    pub a: u32,
    #[serde(default)]
    pub v: String,
    #[serde(default)]
    pub q: String,
    #[serde(default)]
    pub t: String,
    #[serde(default)]
    pub n: usize,
}
#[derive(Serialize, Clone, Copy, Debug, PartialEq)]
pub struct Lim {
    events: i64,
    nodes: i64,
    depth: i64,
    aliases: i64,
    anchors: i64,
    bytes: i64,
    merge_keys: i64,
    documents: i64,
    rmin: i64,
    rmult: i64,
}
const UNL: Lim = Lim { events: -1, nodes: -1, depth: -1, aliases: -1, anchors: -1, bytes: -1, merge_keys: -1, documents: -1, rmin: -1, rmult: 0 };
#[derive(Serialize, Clone, Debug, Default)]
pub struct Rep {
    events: usize,
    nodes: usize,
    depth: usize,
    aliases: usize,
    anchors: usize,
    bytes: usize,
    merge_keys: usize,
    documents: usize,
}
#[derive(Serialize)]
struct Rec<'a> {
    id: String,
    entry: &'a str,
    yaml: &'a str,
    raw: &'a [BEv],
    lim: Lim,
    res: String,
    rep: serde_json::Value,
    items: Vec<String>,
}

fn u(x: i64) -> usize {
    if x < 0 { usize::MAX / 4 } else { x as usize }
}
fn budget_of(l: &Lim) -> Budget {
    let mut b = Budget::default();
    b.max_reader_input_bytes = None;
    b.max_events = u(l.events);
    b.max_nodes = u(l.nodes);
    b.max_depth = u(l.depth);
    b.max_aliases = u(l.aliases);
    b.max_anchors = u(l.anchors);
    b.max_total_scalar_bytes = u(l.bytes);
    b.max_merge_keys = u(l.merge_keys);
    b.max_documents = u(l.documents);
    b.enforce_alias_anchor_ratio = l.rmin >= 0;
    if l.rmin >= 0 {
        b.alias_anchor_min_aliases = l.rmin as usize;
        b.alias_anchor_ratio_multiplier = l.rmult as usize;
    }
    b
}
fn rep_of(r: &BudgetReport) -> Rep {
    Rep { events: r.events, nodes: r.nodes, depth: r.max_depth, aliases: r.aliases, anchors: r.anchors, bytes: r.total_scalar_bytes, merge_keys: r.merge_keys, documents: r.documents }
}
fn breach_q(b: &BudgetBreach) -> &'static str {
    match b {
        BudgetBreach::Events { .. } => "events",
        BudgetBreach::Nodes { .. } => "nodes",
        BudgetBreach::Depth { .. } => "depth",
        BudgetBreach::Aliases { .. } => "aliases",
        BudgetBreach::Anchors { .. } => "anchors",
        BudgetBreach::ScalarBytes { .. } => "bytes",
        BudgetBreach::MergeKeys { .. } => "merge_keys",
        BudgetBreach::Documents { .. } => "documents",
        BudgetBreach::AliasAnchorRatio { .. } => "ratio",
        BudgetBreach::InputBytes { .. } => "input_bytes",
        _ => "other",
    }
}
fn res_of_err(e: &serde_saphyr::Error) -> String {
    if let serde_saphyr::Error::Budget { breach, .. } = e.without_snippet() {
        return format!("b:{}", breach_q(breach));
    }
    if let serde_saphyr::Error::AliasError { msg, .. } = e.without_snippet() {
        // an error raised while a replayed (aliased) value is deserialized is reported as text
        // together with both locations; the breach's Debug form names the quantity
        if msg.contains("budget breached") || msg.contains("limits breached") {
            for (needle, q) in [("Events {", "events"), ("Nodes {", "nodes"), ("Depth {", "depth"), ("Aliases {", "aliases"), ("Anchors {", "anchors"),
                                ("ScalarBytes {", "bytes"), ("MergeKeys {", "merge_keys"), ("Documents {", "documents"), ("AliasAnchorRatio {", "ratio")] {
                if msg.contains(needle) {
                    return format!("b:{q}");
                }
            }
            return "b:wrapped".to_string();
        }
    }
    let c = classify(e);
    if c.starts_with("Budget") { "b:wrapped".to_string() } else { format!("o:{c}") }
}

pub fn full_raw(text: &str) -> Option<Vec<BEv>> {
    use saphyr_parser::{Event, Parser};
    let mut out = vec![];
    let mk = |k: &str, a: usize, v: &str, q: &str, t: String| BEv { k: k.into(), a: a as u32, v: v.into(), q: q.into(), t, n: v.len() };
    for item in Parser::new_from_str(text) {
        let (ev, _) = item.ok()?;
        let tagf = |t: Option<std::borrow::Cow<saphyr_parser::Tag>>| t.map(|t| norm_tag(&format!("{}{}", t.handle, t.suffix))).unwrap_or_default();
        match ev {
            Event::Nothing => {}
            Event::StreamStart => out.push(mk("STS", 0, "", "p", String::new())),
            Event::StreamEnd => out.push(mk("STE", 0, "", "p", String::new())),
            Event::DocumentStart(_) => out.push(mk("DS", 0, "", "p", String::new())),
            Event::DocumentEnd => out.push(mk("DE", 0, "", "p", String::new())),
            Event::Alias(id) => out.push(mk("AL", id, "", "p", String::new())),
            Event::Scalar(v, st, id, tag) => out.push(mk("S", id, &v, style_code(st), tagf(tag))),
            Event::SequenceStart(id, tag) => out.push(mk("SS", id, "", "p", tagf(tag))),
            Event::SequenceEnd => out.push(mk("SE", 0, "", "p", String::new())),
            Event::MappingStart(id, tag) => out.push(mk("MS", id, "", "p", tagf(tag))),
            Event::MappingEnd => out.push(mk("ME", 0, "", "p", String::new())),
        }
    }
    Some(out)
}

fn opts(l: &Lim, cell: &Rc<RefCell<Option<Rep>>>) -> serde_saphyr::Options {
    let mut o = serde_saphyr::Options::default();
    o.duplicate_keys = DuplicateKeyPolicy::LastWins;
    o.budget = Some(budget_of(l));
    let c2 = cell.clone();
    o.with_budget_report(move |r: BudgetReport| {
        *c2.borrow_mut() = Some(rep_of(&r));
    })
}

fn run_entry(entry: &str, text: &str, l: &Lim) -> (String, serde_json::Value, Vec<String>) {
    // (a panic inside the crate is data: it is reported as an outcome the model does not allow)
    match std::panic::catch_unwind(std::panic::AssertUnwindSafe(|| run_entry_inner(entry, text, l))) {
        Ok(r) => r,
        Err(_) => ("PANIC".to_string(), serde_json::json!([]), vec!["PANIC".to_string()]),
    }
}
fn run_entry_inner(entry: &str, text: &str, l: &Lim) -> (String, serde_json::Value, Vec<String>) {
    let cell: Rc<RefCell<Option<Rep>>> = Rc::new(RefCell::new(None));
    let mut items = vec![];
    let res: String = match entry {
        "str" => {
            let o = opts(l, &cell);
            match serde_saphyr::from_str_with_options::<Tree>(text, o) {
                Ok(_) => "ok".into(),
                Err(e) => res_of_err(&e),
            }
        }
        // targets that discard what they read: the enforcer sees the same events whatever the visitor does with them
        "str-ign" => {
            let o = opts(l, &cell);
            match serde_saphyr::from_str_with_options::<serde::de::IgnoredAny>(text, o) {
                Ok(_) => "ok".into(),
                Err(e) => res_of_err(&e),
            }
        }
        "str-opt" => {
            // an Option around the untyped tree: one more look at the first event (deserialize_option) before the value is read
            let o = opts(l, &cell);
            match serde_saphyr::from_str_with_options::<Option<Tree>>(text, o) {
                Ok(_) => "ok".into(),
                Err(e) => res_of_err(&e),
            }
        }
        "multi" => {
            let o = opts(l, &cell);
            match serde_saphyr::from_multiple_with_options::<Tree>(text, o) {
                Ok(_) => "ok".into(),
                Err(e) => res_of_err(&e),
            }
        }
        "read" => {
            let o = opts(l, &cell);
            let mut rd = std::io::Cursor::new(text.as_bytes().to_vec());
            let it = serde_saphyr::read_with_options::<_, Tree>(&mut rd, o);
            for (n, r) in it.enumerate() {
                if n > 64 {
                    items.push("o:too-many-items".into());
                    break;
                }
                items.push(match r {
                    Ok(_) => "ok".into(),
                    Err(e) => res_of_err(&e),
                });
            }
            "ok".into()
        }
        "check-all" => match serde_saphyr::budget::check_yaml_budget(text, budget_of(l), EnforcingPolicy::AllContent) {
            Ok(r) => {
                *cell.borrow_mut() = Some(rep_of(&r));
                match &r.breached {
                    None => "ok".into(),
                    Some(b) => format!("b:{}", breach_q(b)),
                }
            }
            Err(_) => "o:Syntax".into(),
        },
        _ => "o:unknown-entry".into(),
    };
    let rep = match cell.borrow().as_ref() {
        Some(r) => serde_json::to_value(r).unwrap(),
        None => serde_json::json!([]),
    };
    (res, rep, items)
}

/// Independent (harness-side, untrusted) usage used only to choose interesting limits.
fn rough_usage(text: &str) -> Option<Rep> {
    let cell: Rc<RefCell<Option<Rep>>> = Rc::new(RefCell::new(None));
    let o = opts(&UNL, &cell);
    let _ = serde_saphyr::from_multiple_with_options::<Tree>(text, o);
    let r = cell.borrow().clone();
    r
}

#[derive(Default, Serialize)]
struct Stats {
    cases: usize,
    records: usize,
    nontrivial: usize,
    render_fail: usize,
    samples: Vec<serde_json::Value>,
}

fn lim_variants(usage: &Rep, rng: &mut Rng, all: bool) -> Vec<Lim> {
    let exact = Lim {
        events: usage.events as i64,
        nodes: usage.nodes as i64,
        depth: usage.depth as i64,
        aliases: usage.aliases as i64,
        anchors: usage.anchors as i64,
        bytes: usage.bytes as i64,
        merge_keys: usage.merge_keys as i64,
        documents: usage.documents as i64,
        rmin: -1,
        rmult: 0,
    };
    let mut v = vec![UNL, exact];
    let lowered: Vec<Lim> = vec![
        Lim { events: exact.events - 1, ..exact },
        Lim { nodes: exact.nodes - 1, ..exact },
        Lim { depth: exact.depth - 1, ..exact },
        Lim { aliases: exact.aliases - 1, ..exact },
        Lim { anchors: exact.anchors - 1, ..exact },
        Lim { bytes: exact.bytes - 1, ..exact },
        Lim { merge_keys: exact.merge_keys - 1, ..exact },
        Lim { documents: exact.documents - 1, ..exact },
    ]
    .into_iter()
    .filter(|l| l.events >= 0 && l.nodes >= 0 && l.depth >= 0 && l.aliases >= 0 && l.anchors >= 0 && l.bytes >= 0 && l.merge_keys >= 0 && l.documents >= 0)
    .collect();
    if all {
        v.extend(lowered);
    } else if !lowered.is_empty() {
        v.push(lowered[rng.below(lowered.len())]);
        v.push(lowered[rng.below(lowered.len())]);
    }
    // ratio rule around its thresholds
    if usage.aliases > 0 {
        v.push(Lim { rmin: usage.aliases as i64, rmult: 1, ..UNL });
        v.push(Lim { rmin: usage.aliases as i64 + 1, rmult: 1, ..UNL });
        if usage.anchors > 0 {
            let m = (usage.aliases / usage.anchors) as i64;
            v.push(Lim { rmin: 1, rmult: m, ..UNL });
            if m > 0 {
                v.push(Lim { rmin: 1, rmult: m - 1, ..UNL });
            }
        }
    }
    v
}

/// Renders a full-event stream (STS DS .. DE .. STE) as a multi-document text in the given style.
fn render_stream(raw: &[BEv], flow: bool) -> Option<(String, Vec<AEv>)> {
    let mut docs: Vec<Vec<AEv>> = vec![];
    for e in raw {
        match e.k.as_str() {
            "STS" | "STE" | "DE" => {}
            "DS" => docs.push(vec![]),
            _ => docs.last_mut()?.push(AEv::new(&e.k, e.a, &e.v, if e.q.is_empty() { "p" } else { &e.q }, &e.t)),
        }
    }
    let mut text = String::new();
    let mut all = vec![];
    for (i, d) in docs.iter().enumerate() {
        let nodes = nodes_from_events(d).ok()?;
        if nodes.len() != 1 {
            return None;
        }
        if i > 0 || docs.len() > 1 {
            text.push_str("---\n");
        }
        let t = if flow { format!("{}\n", render_flow(&nodes[0], &Names(None))) } else { render_block(&nodes[0], &Names(None)) };
        // block rendering of anchored roots starts with its own "--- "
        if t.starts_with("--- ") && text.ends_with("---\n") {
            text.truncate(text.len() - 4);
        }
        text.push_str(&t);
        all.extend(d.iter().cloned());
    }
    Some((text, all))
}

pub fn run(args: &Args) -> i32 {
    let out = args.req("out");
    let mut w = NdWriter::create(out);
    let mut stats = Stats::default();
    let mut rng = Rng::new(args.num("seed", 1));
    let exhaustive_limits = args.num("all-limits", 1) == 1;
    let mut handle = |id: String, text: &str, want: Option<&[AEv]>, w: &mut NdWriter, stats: &mut Stats, rng: &mut Rng, all: bool| {
        if let Some(want) = want {
            // render-check over all documents' content events
            let (got, err) = raw_events(text);
            let got = strip_doc_markers(&got);
            let ok = !err && got.len() == want.len() && got.iter().zip(want.iter()).all(|(g, w)| g.k == w.k && g.a == w.a && (g.k != "S" || g.v == w.v));
            if !ok {
                stats.render_fail += 1;
                if stats.render_fail < 5 {
                    eprintln!("RENDER-CHECK {id}: text={text:?}");
                }
                return;
            }
        }
        let Some(raw) = full_raw(text) else { return };
        let Some(usage) = rough_usage(text) else { return };
        let ndocs = raw.iter().filter(|e| e.k == "DS").count();
        if raw.iter().any(|e| e.k == "AL") || raw.iter().any(|e| e.v == "<<") {
            stats.nontrivial += 1;
        }
        let lims = lim_variants(&usage, rng, all);
        for (li, l) in lims.iter().enumerate() {
            let mut entries = vec!["multi", "check-all"];
            if ndocs == 1 {
                entries.push("str");
                if li % 2 == 0 {
                    entries.push("str-ign");
                    entries.push("str-opt");
                }
            }
            for entry in entries {
                let (res, rep, items) = run_entry(entry, text, l);
                w.put(&Rec { id: format!("{id}-{entry}-{li}"), entry, yaml: text, raw: &raw, lim: *l, res, rep, items });
            }
        }
        // per-document enforcement: limits from each document's own usage (events not thresholded here)
        let cell: Rc<RefCell<Option<Rep>>> = Rc::new(RefCell::new(None));
        let _ = cell;
        let mut perdoc_lims = vec![UNL];
        let pd = Lim { events: -1, documents: 0, rmin: -1, rmult: 0, nodes: usage.nodes as i64, depth: usage.depth as i64, aliases: usage.aliases as i64, anchors: usage.anchors as i64, bytes: usage.bytes as i64, merge_keys: usage.merge_keys as i64 };
        perdoc_lims.push(pd);
        if ndocs > 1 {
            // tighter: what a single document needs at most (first document's own numbers via a separate parse)
            if let Some(first) = text.split("---\n").find(|s| !s.trim().is_empty()) {
                if let Some(u1) = rough_usage(first) {
                    perdoc_lims.push(Lim { events: -1, documents: 0, rmin: -1, rmult: 0, nodes: u1.nodes as i64, depth: u1.depth as i64, aliases: u1.aliases as i64, anchors: u1.anchors as i64, bytes: u1.bytes as i64, merge_keys: u1.merge_keys as i64 });
                    if u1.nodes > 0 {
                        perdoc_lims.push(Lim { events: -1, documents: 0, rmin: -1, rmult: 0, nodes: u1.nodes as i64 - 1, depth: -1, aliases: -1, anchors: -1, bytes: -1, merge_keys: -1 });
                    }
                }
            }
        }
        for (li, l) in perdoc_lims.iter().enumerate() {
            let (res, rep, items) = run_entry("read", text, l);
            w.put(&Rec { id: format!("{id}-read-{li}"), entry: "read", yaml: text, raw: &raw, lim: *l, res, rep, items });
        }
        // the same document three times in one stream, under per-document limits equal to ITS OWN usage: every copy must be
        // accepted (a counter that is not reset between documents rejects the second one)
        if ndocs == 1 && !text.trim_start().starts_with('%') {
            let body = text.strip_prefix("---\n").or_else(|| text.strip_prefix("--- ")).unwrap_or(text);
            let sep = if text.starts_with("--- ") { "--- " } else { "---\n" };
            let text3 = format!("{sep}{body}{sep}{body}{sep}{body}");
            if let Some(raw3) = full_raw(&text3) {
                if raw3.iter().filter(|e| e.k == "DS").count() == 3 {
                    let own = Lim { events: -1, documents: -1, rmin: -1, rmult: 0, nodes: usage.nodes as i64, depth: usage.depth as i64, aliases: usage.aliases as i64, anchors: usage.anchors as i64,
                                    bytes: usage.bytes as i64, merge_keys: usage.merge_keys as i64 };
                    let (res, rep, items) = run_entry("read", &text3, &own);
                    w.put(&Rec { id: format!("{id}-x3"), entry: "read", yaml: &text3, raw: &raw3, lim: own, res, rep, items });
                    // the document, then one that exceeds the scalar-byte limit (at its first node / inside a sequence), then
                    // the document again: the copy after the failed document is still within its own limits and must be yielded
                    let big = "x".repeat(usage.bytes + 1);
                    for (tag, mid) in [("y3s", format!("{big}\n")), ("y3n", format!("- {big}\n"))] {
                        let texty = format!("{sep}{body}---\n{mid}{sep}{body}");
                        if let Some(rawy) = full_raw(&texty) {
                            if rawy.iter().filter(|e| e.k == "DS").count() == 3 {
                                let (res, rep, items) = run_entry("read", &texty, &own);
                                w.put(&Rec { id: format!("{id}-{tag}"), entry: "read", yaml: &texty, raw: &rawy, lim: own, res, rep, items });
                            }
                        }
                    }
                }
            }
        }
        if stats.samples.len() < 4 && ndocs > 1 {
            stats.samples.push(serde_json::json!({"id": id, "yaml": text, "usage": usage}));
        }
    };
    if let Some(cases) = args.get("cases") {
        let cases: Vec<Case> = read_ndjson(cases);
        for (i, c) in cases.iter().enumerate() {
            stats.cases += 1;
            for flow in [true, false] {
                if let Some((text, want)) = render_stream(&c.raw, flow) {
                    handle(format!("c{i}{}", if flow { "f" } else { "b" }), &text, Some(&want), &mut w, &mut stats, &mut rng, exhaustive_limits);
                }
            }
        }
    }
    let nrand = args.num("random", 0);
    for i in 0..nrand {
        let g = DocGen {
            max_events: args.num("max-events", 30) as usize,
            max_depth: 5,
            scalars: sv(&[("x", "p"), ("abc", "p"), ("~", "p"), ("1", "p"), ("é", "d"), ("<<", "d")]),
            key_scalars: sv(&[("a", "p"), ("b", "p"), ("<<", "p"), ("c", "p"), ("d", "p")]),
            names: 3,
            p_anchor: (1, 3),
            p_alias: (1, 4),
            container_keys: false,
        };
        let ndocs = 1 + rng.below(3);
        let mut text = String::new();
        for d in 0..ndocs {
            let (doc, idname) = g.generate(&mut rng);
            let nodes = nodes_from_events(&doc).unwrap();
            // avoid null documents (skipped by the iterator)
            if let Node::Scalar { v, q, .. } = &nodes[0] {
                if q == "p" && (v == "~" || v.is_empty()) {
                    continue;
                }
            }
            let nm = Names(Some(&idname));
            if ndocs > 1 || d > 0 {
                text.push_str("---\n");
            }
            let t = if rng.chance(1, 2) { format!("{}\n", render_flow(&nodes[0], &nm)) } else { render_block(&nodes[0], &nm) };
            if t.starts_with("--- ") && text.ends_with("---\n") {
                text.truncate(text.len() - 4);
            }
            text.push_str(&t);
        }
        if text.is_empty() {
            continue;
        }
        handle(format!("r{i}"), &text, None, &mut w, &mut stats, &mut rng, false);
    }
    stats.records = w.n;
    w.finish();
    println!("{}", serde_json::to_string(&stats).unwrap());
    if stats.render_fail > 0 {
        return 2;
    }
    0
}


// ------------------------------------------------------------------------------------------------
// action-level traces of the budget enforcer (TR_Budget)
// ------------------------------------------------------------------------------------------------
#[derive(Serialize)]
struct BStep {
    kind: &'static str,
    anchor: usize,
    bytes: usize,
    merge_key: bool,
    expanded: bool,
    per_document: bool,
    events: usize,
    nodes: usize,
    depth: usize,
    max_depth: usize,
    aliases: usize,
    anchors: usize,
    scalar_bytes: usize,
    merge_keys: usize,
    documents: usize,
    containers: usize,
    top_expecting_key: i8,
}
#[derive(Serialize)]
struct BTrace<'a> {
    id: String,
    yaml: &'a str,
    entry: &'a str,
    steps: Vec<BStep>,
}
#[derive(Default, Serialize)]
struct BStats {
    records: usize,
    nontrivial: usize,
    steps: usize,
    replay_steps: usize,
    samples: Vec<serde_json::Value>,
}

/// `vh c07t --cases .. --out .. --policy all|perdoc [--every k]`: the enforcer's step log for every case stream under
/// unlimited and usage-tight limits, through from_multiple and check_yaml_budget (all content) or read (per document)
pub fn run_traces(args: &Args) -> i32 {
    let mut w = NdWriter::create(args.req("out"));
    let mut stats = BStats::default();
    let perdoc = args.get("policy") == Some("perdoc");
    let every = args.num("every", 1).max(1) as usize;
    let mut rng = Rng::new(args.num("seed", 1));
    let cases: Vec<Case> = read_ndjson(args.req("cases"));
    for (i, c) in cases.iter().enumerate() {
        if i % every != 0 { continue; }
        let Some((text, _want)) = render_stream(&c.raw, i % 2 == 0) else { continue };
        let Some(usage) = rough_usage(&text) else { continue };
        let mut lims = vec![UNL];
        lims.extend(lim_variants(&usage, &mut rng, false).into_iter().take(2));
        let entries: &[&str] = if perdoc { &["read"] } else { &["multi", "check-all"] };
        for (li, l) in lims.iter().enumerate() {
            for entry in entries {
                let t = text.clone();
                let l2 = *l;
                let e2 = entry.to_string();
                let steps = guarded(move || {
                    serde_saphyr::verif_hooks::budget_trace_begin();
                    let _ = run_entry(&e2, &t, &l2);
                    serde_saphyr::verif_hooks::budget_trace_end()
                });
                let Ok(steps) = steps else { continue };
                let steps: Vec<BStep> = steps.into_iter().map(|s| BStep { kind: s.kind, anchor: s.anchor, bytes: s.bytes, merge_key: s.merge_key, expanded: s.expanded, per_document: s.per_document,
                    events: s.events, nodes: s.nodes, depth: s.depth, max_depth: s.max_depth, aliases: s.aliases, anchors: s.anchors, scalar_bytes: s.scalar_bytes, merge_keys: s.merge_keys,
                    documents: s.documents, containers: s.containers, top_expecting_key: s.top_expecting_key }).collect();
                if steps.is_empty() { continue; }
                stats.steps += steps.len();
                let replays = steps.iter().filter(|s| s.expanded && s.kind != "AL" && s.anchor == 0).count();
                stats.replay_steps += replays;
                if steps.iter().any(|s| s.kind == "AL") { stats.nontrivial += 1; }
                if stats.samples.len() < 2 && steps.iter().any(|s| s.kind == "AL") { stats.samples.push(serde_json::json!({"yaml": text, "entry": entry, "steps": steps.len()})); }
                w.put(&BTrace { id: format!("b{i}-{entry}-{li}"), yaml: &text, entry, steps });
            }
        }
    }
    stats.records = w.n;
    w.finish();
    println!("{}", serde_json::to_string(&stats).unwrap());
    0
}
