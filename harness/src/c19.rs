//! C19 — robotics expressions: total, exact, plain numbers unchanged.
//! records (to TV_Robotics): {kind:"expr", ts:[{t,s}], tag, ty, plan|none, on:{ok,bits}, off:{ok,bits}, want, text}
//!                           {kind:"bytes", ...} arbitrary strings: only totality (panic / time) is recorded
use crate::docgen::*;
use crate::model::*;
use crate::Args;
use serde::{Deserialize, Serialize};
use std::time::Instant;

#[derive(Serialize, Deserialize, Clone, Debug, PartialEq)]
struct Tok {
    t: String,
    s: String,
}
fn tok(t: &str, s: &str) -> Tok {
    Tok { t: t.into(), s: s.into() }
}
#[derive(Serialize, Deserialize, Clone, Debug, PartialEq)]
struct Item {
    op: String,
    s: String,
}
fn it(op: &str, s: &str) -> Item {
    Item { op: op.into(), s: s.into() }
}

const DEG2RAD: f64 = core::f64::consts::PI / 180.0;

/// the trusted fold: IEEE f64 arithmetic over a postfix plan; no parsing logic beyond reading a literal
fn eval_plan(plan: &[Item]) -> Option<f64> {
    let mut st: Vec<f64> = vec![];
    for p in plan {
        match p.op.as_str() {
            "num" => st.push(p.s.replace('_', "").parse::<f64>().ok()?),
            "const" => st.push(match p.s.as_str() { "pi" => core::f64::consts::PI, "tau" => 2.0 * core::f64::consts::PI, "inf" => f64::INFINITY, _ => f64::NAN }),
            "neg" => { let v = st.pop()?; st.push(-1.0 * v); }
            "deg2rad" => { let v = st.pop()?; st.push(v * DEG2RAD); }
            "add" | "sub" | "mul" | "div" => {
                let b = st.pop()?;
                let a = st.pop()?;
                st.push(match p.op.as_str() { "add" => a + b, "sub" => a - b, "mul" => a * b, _ => a / b });
            }
            m if m.starts_with("sex:") => {
                let fs: Vec<&str> = p.s.split(':').collect();
                let int = |f: &str| -> f64 { f.chars().filter(|c| c.is_ascii_digit()).fold(0.0, |v, c| v * 10.0 + (c as u8 - b'0') as f64) };
                let d = int(fs[0]);
                let m_ = int(fs[1]);
                let mut s = 0.0;
                if fs.len() == 3 {
                    let (ip, fp) = match fs[2].split_once('.') { Some((a, b)) => (a, b), None => (fs[2], "") };
                    s = int(ip);
                    if !fp.is_empty() {
                        let ds: Vec<char> = fp.chars().filter(|c| c.is_ascii_digit()).take(18).collect();
                        let num = ds.iter().fold(0.0, |v, c| v * 10.0 + (*c as u8 - b'0') as f64);
                        s += num / 10f64.powi(ds.len() as i32);
                    }
                }
                st.push(match &m[4..] {
                    "seconds" => d * 3600.0 + m_ * 60.0 + s,
                    "degrees" => d + m_ / 60.0 + s / 3600.0,
                    _ => (d + m_ / 60.0 + s / 3600.0) * DEG2RAD,
                });
            }
            _ => return None,
        }
    }
    if st.len() == 1 { st.pop() } else { None }
}

#[derive(Serialize, Default, Clone)]
struct Res {
    ok: bool,
    /// bit pattern (hex) of the value; "nan" for any NaN
    bits: String,
    panic: bool,
    ms: u64,
}
fn bits64(v: f64) -> String { if v.is_nan() { "nan".into() } else { format!("{:016x}", v.to_bits()) } }
fn bits32(v: f32) -> String { if v.is_nan() { "nan".into() } else { format!("{:08x}", v.to_bits()) } }

fn run_float(yaml: &str, ty: &str, on: bool) -> Res {
    let y = yaml.to_string();
    let t0 = Instant::now();
    let f32ty = ty == "f32";
    let r = guarded(move || {
        let mut o = serde_saphyr::Options::default();
        o.angle_conversions = on;
        o.with_snippet = false;
        if f32ty { serde_saphyr::from_str_with_options::<f32>(&y, o).map(bits32).map_err(|_| ()) } else { serde_saphyr::from_str_with_options::<f64>(&y, o).map(bits64).map_err(|_| ()) }
    });
    let ms = t0.elapsed().as_millis() as u64;
    match r {
        Ok(Ok(b)) => Res { ok: true, bits: b, panic: false, ms },
        Ok(Err(())) => Res { ok: false, bits: String::new(), panic: false, ms },
        Err(_) => Res { ok: false, bits: String::new(), panic: true, ms },
    }
}

/// tokens -> scalar text; adjacent word-like tokens are separated, random blanks and letter case otherwise
fn render_tokens(ts: &[Tok], rng: &mut Rng) -> String {
    let mut s = String::new();
    let mut prev_word = false;
    let mut prev_unary = false;
    for (k, t) in ts.iter().enumerate() {
        let word = matches!(t.t.as_str(), "num" | "id" | "sex");
        // a sign is unary at the start, after another operator and after `(`; the scanner takes a run of unary
        // signs without blanks between them (blanks are fine before the run and after it)
        let unary = t.t == "op" && (t.s == "+" || t.s == "-") && (k == 0 || matches!(ts[k - 1].t.as_str(), "op" | "lp"));
        // (a number token ending in `e` must not run into a following sign: `1e` `+` `3` is not `1e+3`)
        let glue = s.ends_with(['e', 'E']) && t.t == "op";
        if (prev_word && word) || glue || (!(prev_unary && unary) && rng.chance(1, 5)) { s.push(' '); }
        if t.t == "id" && rng.chance(1, 4) { s.push_str(&t.s.to_uppercase()); } else if t.t == "num" && rng.chance(1, 4) { s.push_str(&t.s.replace('e', "E")); } else { s.push_str(&t.s); }
        prev_word = word;
        prev_unary = unary;
    }
    s
}
fn yaml_of(text: &str, tag: &str, rng: &mut Rng) -> String {
    let tagp = match tag { "deg" => "!degrees ", "rad" => "!radians ", _ => "" };
    // plain when that is safe YAML, double-quoted otherwise (and now and then anyway)
    let risky = text.is_empty() || text.starts_with(['-', '+', '*', ' ', '.', '?', '!', '&', '%', '@', '`', '[', '{', '|', '>', '#', '"', '\''])
        || text.ends_with(' ') || text.contains(": ") || text.contains(" #") || text.ends_with(':');
    if risky || rng.chance(1, 4) { format!("{tagp}\"{text}\"\n") } else { format!("{tagp}{text}\n") }
}

#[derive(Serialize)]
struct Rec<'a> {
    id: String,
    kind: &'a str,
    text: &'a str,
    ts: Vec<Tok>,
    tag: &'a str,
    ty: &'a str,
    /// plan the harness evaluated ("has" false: none available, only acceptance is compared)
    has: bool,
    plan: Vec<Item>,
    want: String,
    on: Res,
    off: Res,
    /// the scalar text read by Rust's own float parser (what the plain reader does apart from .inf / .nan)
    plain: Res,
}

#[derive(Deserialize)]
struct Case {
    ts: Vec<Tok>,
    tag: String,
    ok: bool,
    plan: Vec<Item>,
}

#[derive(Default, Serialize)]
struct Stats {
    records: usize,
    nontrivial: usize,
    accepted: usize,
    rejected: usize,
    literals: usize,
    bytes: usize,
    max_ms: u64,
    samples: Vec<serde_json::Value>,
}

/// expression trees: rendered with the parentheses precedence requires (plus redundant ones) and folded into a plan
enum Ast {
    Num(String),
    Const(&'static str),
    Sex(String),
    Neg(Box<Ast>),
    Bin(char, Box<Ast>, Box<Ast>),
    Func(&'static str, Box<Ast>),
}
/// a number literal from the grammar: digits with separators, optional fraction, optional signed exponent
fn gen_num(rng: &mut Rng) -> String {
    let run = |rng: &mut Rng, max: usize| -> String {
        let n = 1 + rng.below(max);
        let mut s = String::new();
        for k in 0..n {
            if k > 0 && rng.chance(1, 3) { s.push('_'); }
            s.push((b'0' + rng.below(10) as u8) as char);
        }
        s
    };
    let mut s = String::new();
    let int = rng.chance(4, 5);
    // (now and then digit runs longer than a machine word holds)
    let long = rng.chance(1, 8);
    if int { s.push_str(&run(rng, if long { 24 } else { 5 })); }
    if !int || rng.chance(1, 2) {
        s.push('.');
        if !int || rng.chance(4, 5) { s.push_str(&run(rng, if long { 26 } else { 5 })); }
    }
    if rng.chance(1, 2) {
        s.push('e');
        match rng.below(3) { 0 => s.push('-'), 1 => s.push('+'), _ => {} }
        // small exponents keep values finite and non-zero most of the time
        s.push_str(&run(rng, 2));
    }
    s
}

/// a sexagesimal literal from the grammar: d:m or d:m:s[.frac], separators inside the digit runs, minutes / seconds below 60
/// with or without a leading zero, fractions of 1 to 26 digits (longer than what one machine word holds)
fn gen_sex(rng: &mut Rng) -> String {
    let run = |rng: &mut Rng, n: usize| -> String {
        let mut s = String::new();
        for k in 0..n {
            if k > 0 && rng.chance(1, 5) { s.push('_'); }
            s.push((b'0' + rng.below(10) as u8) as char);
        }
        s
    };
    let below60 = |rng: &mut Rng| -> String {
        let v = rng.below(60);
        if v < 10 && rng.chance(1, 2) { format!("{v}") } else { format!("{v:02}") }
    };
    let nd = 1 + rng.below(4);
    let mut s = run(rng, nd);
    s.push(':');
    s.push_str(&below60(rng));
    if rng.chance(2, 3) {
        s.push(':');
        s.push_str(&below60(rng));
        if rng.chance(2, 3) {
            s.push('.');
            let n = match rng.below(4) { 0 => 1 + rng.below(3), 1 => 15 + rng.below(4), 2 => 19 + rng.below(8), _ => 1 + rng.below(26) };
            // (now and then a fraction that is all zeros but for one digit, so that scaling mistakes show as powers of ten)
            if rng.chance(1, 3) {
                let mut f: Vec<char> = "0".repeat(n).chars().collect();
                f[rng.below(n.min(18))] = (b'1' + rng.below(9) as u8) as char;
                s.extend(f);
            } else {
                s.push_str(&run(rng, n));
            }
        }
    }
    s
}

fn gen_ast(rng: &mut Rng, depth: usize) -> Ast {
    let leaf = depth == 0 || rng.chance(1, 3);
    if leaf {
        return match rng.below(8) {
            0 => Ast::Const(*rng.pick(&["pi", "tau", "inf", "nan"])),
            1 => if rng.chance(1, 2) { Ast::Sex(gen_sex(rng)) } else { Ast::Sex(rng.pick(&["12:30", "0:30:30.5", "1_0:05", "8:32:53.2", "359:59:59.999", "1:2:3"]).to_string()) },
            2 | 3 => Ast::Num(gen_num(rng)),
            _ => Ast::Num(rng.pick(&["0", "1", "2", "3", "10", "0.5", ".25", "10.", "1e3", "1e-3", "2.5E+2", "1_000", "1_0.2_5", "1e1_0", "180", "90", "360", "0.1", "0.2", "0.3", "1e308", "5e-324", "123456789.123456789", "3.141592653589793"]).to_string()),
        };
    }
    match rng.below(7) {
        0 => Ast::Neg(Box::new(gen_ast(rng, depth - 1))),
        1 => Ast::Func(*rng.pick(&["deg", "rad"]), Box::new(gen_ast(rng, depth - 1))),
        _ => Ast::Bin(*rng.pick(&['+', '-', '*', '/']), Box::new(gen_ast(rng, depth - 1)), Box::new(gen_ast(rng, depth - 1))),
    }
}
/// prec: 0 = expr, 1 = term, 2 = unary, 3 = primary
fn emit(a: &Ast, need: u8, in_func: bool, tag: &str, rng: &mut Rng, ts: &mut Vec<Tok>, plan: &mut Vec<Item>) {
    let own = match a { Ast::Bin('+' | '-', ..) => 0, Ast::Bin(..) => 1, Ast::Neg(_) => 2, _ => 3 };
    let paren = own < need || rng.chance(1, 8);
    if paren { ts.push(tok("lp", "(")); }
    let inner_need = if paren { 0 } else { need };
    let _ = inner_need;
    match a {
        Ast::Num(s) => { ts.push(tok("num", s)); plan.push(it("num", s)); }
        Ast::Const(c) => {
            if (*c == "inf" || *c == "nan") && rng.chance(1, 2) { ts.push(tok("num", &format!(".{c}"))); } else { ts.push(tok("id", c)); }
            plan.push(it("const", c));
        }
        Ast::Sex(s) => {
            ts.push(tok("sex", s));
            let mode = if !in_func { if tag == "deg" || tag == "rad" { "radians" } else { "seconds" } } else { "degrees" };
            plan.push(it(&format!("sex:{mode}"), s));
        }
        Ast::Neg(x) => {
            // an odd number of minus signs, possibly with plus signs
            let n = 1 + 2 * rng.below(2);
            for _ in 0..n { ts.push(tok("op", "-")); if rng.chance(1, 4) { ts.push(tok("op", "+")); } }
            emit(x, 3, in_func, tag, rng, ts, plan);
            plan.push(it("neg", ""));
        }
        Ast::Bin(op, l, r) => {
            let (ln, rn) = if own == 0 { (0, 1) } else { (1, 2) };
            emit(l, ln, in_func, tag, rng, ts, plan);
            ts.push(tok("op", &op.to_string()));
            emit(r, rn, in_func, tag, rng, ts, plan);
            plan.push(it(match op { '+' => "add", '-' => "sub", '*' => "mul", _ => "div" }, ""));
        }
        Ast::Func(f, x) => {
            ts.push(tok("id", f));
            ts.push(tok("lp", "("));
            emit(x, 0, true, tag, rng, ts, plan);
            ts.push(tok("rp", ")"));
            if *f == "deg" { plan.push(it("deg2rad", "")); }
        }
    }
    if paren { ts.push(tok("rp", ")")); }
}
fn uses_unit(a: &Ast) -> bool {
    match a { Ast::Sex(_) | Ast::Func(..) => true, Ast::Neg(x) => uses_unit(x), Ast::Bin(_, l, r) => uses_unit(l) || uses_unit(r), _ => false }
}

fn one(id: String, ts: Vec<Tok>, tag: &str, plan: Option<Vec<Item>>, text: &str, yaml: &str, w: &mut NdWriter, stats: &mut Stats) {
    for ty in ["f64", "f32"] {
        let on = run_float(yaml, ty, true);
        let off = run_float(yaml, ty, false);
        let plain = {
            let t = text.trim();
            if ty == "f32" { t.parse::<f32>().map(|v| Res { ok: true, bits: bits32(v), ..Default::default() }).unwrap_or_default() } else { t.parse::<f64>().map(|v| Res { ok: true, bits: bits64(v), ..Default::default() }).unwrap_or_default() }
        };
        let want = plan.as_ref().and_then(|p| eval_plan(p)).map(|v| if ty == "f32" { bits32(v as f32) } else { bits64(v) }).unwrap_or_default();
        stats.max_ms = stats.max_ms.max(on.ms).max(off.ms);
        if on.ok { stats.accepted += 1; } else { stats.rejected += 1; }
        if on.ok && ts.len() > 1 { stats.nontrivial += 1; }
        w.put(&Rec { id: format!("{id}-{ty}"), kind: "expr", text, ts: ts.clone(), tag, ty, has: plan.is_some(), plan: plan.clone().unwrap_or_default(), want, on, off, plain });
    }
}

pub fn run(args: &Args) -> i32 {
    let out = args.req("out");
    let mut w = NdWriter::create(out);
    let mut stats = Stats::default();
    let mut rng = Rng::new(args.num("seed", 1));
    let n = args.num("random", 500) as usize;
    // (a) TLC's token sequences with the specification's own verdict and plan
    if let Some(cases) = args.get("cases") {
        let cases = cases.to_string();
        for (ci, c) in read_ndjson::<Case>(&cases).into_iter().enumerate() {
            if c.ts.is_empty() { continue; }
            let text = render_tokens(&c.ts, &mut rng);
            let yaml = yaml_of(&text, &c.tag, &mut rng);
            one(format!("m{ci}"), c.ts, &c.tag, if c.ok { Some(c.plan) } else { None }, &text, &yaml, &mut w, &mut stats);
        }
    }
    // (b) generated expression trees
    for i in 0..n {
        let tag = *rng.pick(&["", "", "deg", "rad"]);
        let dd = 1 + rng.below(4);
        let a = gen_ast(&mut rng, dd);
        let (mut ts, mut plan) = (vec![], vec![]);
        emit(&a, 0, false, tag, &mut rng, &mut ts, &mut plan);
        if tag == "deg" && !uses_unit(&a) { plan.push(it("deg2rad", "")); }
        let text = render_tokens(&ts, &mut rng);
        let yaml = yaml_of(&text, tag, &mut rng);
        if stats.samples.len() < 4 { stats.samples.push(serde_json::json!({"yaml": yaml})); }
        // whether the expression is acceptable at all (mixed units under !degrees) is the specification's call
        one(format!("a{i}"), ts, tag, Some(plan), &text, &yaml, &mut w, &mut stats);
    }
    // (b2) unit forms: every tag x function x sexagesimal / number argument, alone and combined (fully unitized
    //      expressions are the ones a tag must leave alone)
    {
        let mut k = 0;
        for tag in ["", "deg", "rad"] {
            for f in ["deg", "rad"] {
                for arg in [Ast::Sex("12:30".into()), Ast::Sex("1:30:30.5".into()), Ast::Num("90".into()), Ast::Sex("0:0:1".into())] {
                    let arg_s = match &arg { Ast::Sex(s) | Ast::Num(s) => s.clone(), _ => String::new() };
                    let is_sex = matches!(arg, Ast::Sex(_));
                    let mk = |a: Ast| Ast::Func(if f == "deg" { "deg" } else { "rad" }, Box::new(a));
                    let rebuild = |s: &str| if is_sex { Ast::Sex(s.to_string()) } else { Ast::Num(s.to_string()) };
                    let forms: Vec<Ast> = vec![
                        mk(rebuild(&arg_s)),
                        Ast::Neg(Box::new(mk(rebuild(&arg_s)))),
                        Ast::Bin('+', Box::new(mk(rebuild(&arg_s))), Box::new(Ast::Func("rad", Box::new(Ast::Sex("1:30".into()))))),
                        Ast::Bin('*', Box::new(mk(rebuild(&arg_s))), Box::new(Ast::Func("deg", Box::new(Ast::Num("2".into()))))),
                    ];
                    for a in forms {
                        let (mut ts, mut plan) = (vec![], vec![]);
                        emit(&a, 0, false, tag, &mut rng, &mut ts, &mut plan);
                        let text = render_tokens(&ts, &mut rng);
                        let yaml = yaml_of(&text, tag, &mut rng);
                        one(format!("u{k}"), ts, tag, Some(plan), &text, &yaml, &mut w, &mut stats);
                        k += 1;
                    }
                }
            }
        }
    }
    // (c) token soups: valid token lists damaged at random (acceptance only)
    for i in 0..n {
        let dd = 1 + rng.below(3);
        let a = gen_ast(&mut rng, dd);
        let (mut ts, mut plan) = (vec![], vec![]);
        emit(&a, 0, false, "", &mut rng, &mut ts, &mut plan);
        for _ in 0..1 + rng.below(2) {
            let k = rng.below(ts.len() + 1);
            match rng.below(3) {
                0 if !ts.is_empty() => { ts.remove(k.min(ts.len() - 1)); }
                1 => ts.insert(k, rng.pick(&[tok("op", "*"), tok("lp", "("), tok("rp", ")"), tok("num", "1__0"), tok("num", "1e"), tok("num", "_1"), tok("id", "foo"), tok("id", "degx"), tok("sex", "1:60"), tok("sex", "1:2:61"), tok("sex", "1:2:3."), tok("num", "1.2.3"), tok("num", ".")]).clone()),
                _ => { if ts.len() >= 2 { let j = rng.below(ts.len() - 1); ts.swap(j, j + 1); } }
            }
        }
        if ts.is_empty() { continue; }
        let tag = *rng.pick(&["", "deg"]);
        let text = render_tokens(&ts, &mut rng);
        let yaml = yaml_of(&text, tag, &mut rng);
        one(format!("s{i}"), ts, tag, None, &text, &yaml, &mut w, &mut stats);
    }
    // (d) nesting around the limit: k parentheses / k nested calls
    for k in [1usize, 2, 100, 255, 256, 257, 300, 5000, 200000] {
        for (fi, f) in ["", "deg", "rad"].iter().enumerate() {
            if k > 300 && fi > 0 { continue; }
            let mut ts = vec![];
            for _ in 0..k { if !f.is_empty() { ts.push(tok("id", f)); } ts.push(tok("lp", "(")); }
            ts.push(tok("num", "2"));
            for _ in 0..k { ts.push(tok("rp", ")")); }
            let mut plan = vec![it("num", "2")];
            if *f == "deg" { for _ in 0..k { plan.push(it("deg2rad", "")); } }
            let text: String = ts.iter().map(|t| t.s.as_str()).collect();
            let yaml = format!("\"{text}\"\n");
            // the validator decides nesting depth itself; beyond a few thousand tokens only acceptance and time are recorded
            if k <= 300 { one(format!("n{k}{f}"), ts, "", Some(plan), &text, &yaml, &mut w, &mut stats); } else { one(format!("n{k}{f}"), vec![tok("id", "deep")], "", None, "deep", &yaml, &mut w, &mut stats); }
        }
    }
    // (e) ordinary literals: option on versus off, f32 and f64, including decimal strings next to f32 rounding midpoints
    let mut lits: Vec<String> = ["0", "-0", "1", "1.5", "-2.25", "1e10", "1E-10", "+3.0", "3.", ".5", "-.5", "1e400", "-1e400", "1e-400", "4.9e-324", "1.7976931348623157e308", "0.1", "0.30000000000000004", ".inf", "-.inf", "+.inf", ".nan", ".NaN", ".INF", "inf", "-inf", "nan", "NaN", "infinity", "-Infinity", "1_000", "0x10", "1e", "e5", "--1", "1..2", "٣", "1.0000000596046447754", "1.00000005960464477539062500001", "16777217", "16777219.0000000001", "0.100000001490116119384765625", "3.4028235677973366e38", "3.4028235677973362e38", "1.401298464324817e-45", "7.006492321624085e-46", "7.0064923216240862e-46"].iter().map(|s| s.to_string()).collect();
    for _ in 0..n {
        // a decimal just above / below the midpoint between two neighbouring f32 values
        let a = f32::from_bits(0x3f80_0000 + rng.below(0x0100_0000) as u32);
        let b = f32::from_bits(a.to_bits() + 1);
        let mid = (a as f64 + b as f64) / 2.0;
        let s = format!("{:.30}", mid);
        let bump = if rng.chance(1, 2) { "1" } else { "" };
        lits.push(format!("{}{}", s.trim_end_matches('0'), bump));
        lits.push(format!("{}", rng.below(1_000_000) as f64 / 997.0));
    }
    for (i, l) in lits.iter().enumerate() {
        stats.literals += 1;
        let ts = vec![tok("lit", l)];
        let yaml = if l.starts_with(['-', '+', '.']) || rng.chance(1, 3) { format!("\"{l}\"\n") } else { format!("{l}\n") };
        one(format!("l{i}"), ts, "", None, l, &yaml, &mut w, &mut stats);
    }
    // (f) arbitrary strings requested as floats: totality only
    for i in 0..n * 2 {
        let len = rng.below(40);
        let alphabet: Vec<char> = "0123456789.eE+-*/()_: \tdegradpitaunfxy\u{e9}\u{0}\u{7f}\"'#!&[]{}".chars().collect();
        let s: String = (0..len).map(|_| *rng.pick(&alphabet)).collect();
        let esc: String = s.chars().map(|c| match c { '"' => "\\\"".to_string(), '\\' => "\\\\".to_string(), '\u{0}' => "\\0".to_string(), '\t' => "\\t".to_string(), '\u{7f}' => "\\x7f".to_string(), c => c.to_string() }).collect();
        let yaml = format!("\"{esc}\"\n");
        stats.bytes += 1;
        one(format!("b{i}"), vec![tok("bytes", "")], "", None, &s, &yaml, &mut w, &mut stats);
    }
    stats.records = w.n;
    w.finish();
    println!("{}", serde_json::to_string(&stats).unwrap());
    0
}
