//! C03 / C04 — merge keys and duplicate-key policies.
//! cases (from MC_MapAccess): {doc:[ev]} (alias-free, root mapping)
//! records (to TV_MapAccess): {id, yaml, raw:[ev], policy, target, obs:N}
use crate::docgen::*;
use crate::model::*;
use crate::Args;
use serde::{Deserialize, Serialize};
use serde_saphyr::options::DuplicateKeyPolicy;

#[derive(Deserialize)]
struct Case {
    doc: Vec<AEv>,
}
#[derive(Serialize)]
struct Rec<'a> {
    id: String,
    yaml: &'a str,
    raw: &'a [AEv],
    policy: &'a str,
    target: &'a str,
    obs: N,
    /// reported error positions (primary, use site, definition site), empty if no error
    eloc: Vec<(u64, u64)>,
    /// start position of every raw event (alias-free texts only, else empty)
    pos: &'a [(u64, u64)],
}

pub const POLICIES: [(&str, DuplicateKeyPolicy); 3] = [
    ("Error", DuplicateKeyPolicy::Error),
    ("FirstWins", DuplicateKeyPolicy::FirstWins),
    ("LastWins", DuplicateKeyPolicy::LastWins),
];

pub fn observe_tree_policy(text: &str, pol: DuplicateKeyPolicy) -> N {
    observe_tree_policy_loc(text, pol).0
}
pub fn observe_tree_policy_loc(text: &str, pol: DuplicateKeyPolicy) -> (N, Vec<(u64, u64)>) {
    let t = text.to_string();
    let r = guarded(move || {
        let mut o = serde_saphyr::Options::default();
        o.duplicate_keys = pol;
        serde_saphyr::from_str_with_options::<Tree>(&t, o)
    });
    match r {
        Ok(Ok(Tree(n))) => (n, vec![]),
        Ok(Err(e)) => (N::errc(&classify(&e)), err_locs(&e)),
        Err(p) => (N::errc(&format!("PANIC:{p}")), vec![]),
    }
}

#[derive(Deserialize)]
struct NoSuchField {
    #[serde(default)]
    #[allow(dead_code)]
    zz_no_such_field_9: Option<i32>,
}
/// the document read into a target that discards everything: IgnoredAny, or a struct for which every key is unknown
pub fn observe_discarding(text: &str, pol: DuplicateKeyPolicy, as_struct: bool) -> (N, Vec<(u64, u64)>) {
    let t = text.to_string();
    let r = guarded(move || {
        let mut o = serde_saphyr::Options::default();
        o.duplicate_keys = pol;
        if as_struct {
            serde_saphyr::from_str_with_options::<NoSuchField>(&t, o).map(|_| ())
        } else {
            serde_saphyr::from_str_with_options::<serde::de::IgnoredAny>(&t, o).map(|_| ())
        }
    });
    match r {
        Ok(Ok(())) => (N::leaf("ok", ""), vec![]),
        Ok(Err(e)) => (N::errc(&classify(&e)), err_locs(&e)),
        Err(p) => (N::errc(&format!("PANIC:{p}")), vec![]),
    }
}

fn is_merge_key(n: &Node) -> bool {
    matches!(n, Node::Scalar { v, q, t, .. } if v == "<<" && q == "p" && t.is_empty())
}

/// Moves mapping merge sources into a definitions list and refers to them through aliases.
fn anchorize(n: &Node, defs: &mut Vec<Node>, nid: &mut u32) -> Node {
    match n {
        Node::Seq { a, t, items } => Node::Seq { a: *a, t: t.clone(), items: items.iter().map(|x| anchorize(x, defs, nid)).collect() },
        Node::Map { a, t, entries } => {
            let mut out = vec![];
            for (k, v) in entries {
                let k2 = anchorize(k, defs, nid);
                let v2 = if is_merge_key(k) { anchor_source(v, defs, nid) } else { anchorize(v, defs, nid) };
                out.push((k2, v2));
            }
            Node::Map { a: *a, t: t.clone(), entries: out }
        }
        other => other.clone(),
    }
}
fn anchor_source(v: &Node, defs: &mut Vec<Node>, nid: &mut u32) -> Node {
    match v {
        Node::Map { .. } => {
            let inner = anchorize(v, defs, nid);
            let id = *nid;
            *nid += 1;
            let anchored = match inner {
                Node::Map { t, entries, .. } => Node::Map { a: id, t, entries },
                x => x,
            };
            defs.push(anchored);
            Node::Alias { a: id }
        }
        Node::Seq { a, t, items } => Node::Seq { a: *a, t: t.clone(), items: items.iter().map(|x| anchor_source(x, defs, nid)).collect() },
        other => other.clone(),
    }
}

// ---------------------------------------------------------------------------------------------
// structural random generators (node level)
// ---------------------------------------------------------------------------------------------
fn sc(v: &str, q: &str) -> Node {
    Node::Scalar { a: 0, v: v.into(), q: q.into(), t: String::new() }
}
struct Lab(u32);
impl Lab {
    fn next(&mut self) -> Node {
        self.0 += 1;
        sc(&format!("v{}", self.0), "p")
    }
}
/// mapping with own keys and merge entries whose sources nest (C03 quantifier)
fn merge_map(rng: &mut Rng, depth: usize, lab: &mut Lab) -> Node {
    let keys = ["a", "b", "c", "d"];
    let mut entries = vec![];
    let n = rng.below(4);
    let m = if depth == 0 { 0 } else { rng.below(3) + if depth >= 2 { 1 } else { 0 } };
    let mut slots: Vec<bool> = (0..n).map(|_| false).chain((0..m).map(|_| true)).collect();
    // shuffle
    for i in (1..slots.len()).rev() {
        let j = rng.below(i + 1);
        slots.swap(i, j);
    }
    let mut used = std::collections::HashSet::new();
    for is_merge in slots {
        if is_merge {
            entries.push((sc("<<", "p"), source(rng, depth - 1, lab)));
        } else {
            let k = *rng.pick(&keys);
            if !used.insert(k) && !rng.chance(1, 6) {
                continue; // mostly avoid repeated own keys (C04's business)
            }
            let v = if rng.chance(1, 6) && depth > 0 { merge_map(rng, depth - 1, lab) } else { lab.next() };
            entries.push((sc(k, if rng.chance(1, 8) { "d" } else { "p" }), v));
        }
    }
    Node::Map { a: 0, t: String::new(), entries }
}
fn source(rng: &mut Rng, depth: usize, lab: &mut Lab) -> Node {
    match rng.below(12) {
        0 => sc("~", "p"),
        1 => if rng.chance(1, 3) { lab.next() } else { sc("null", "p") },
        2..=4 => {
            let n = 1 + rng.below(3);
            Node::Seq { a: 0, t: String::new(), items: (0..n).map(|_| if rng.chance(1, 8) { source(rng, depth, lab) } else { merge_map(rng, depth, lab) }).collect() }
        }
        _ => merge_map(rng, depth, lab),
    }
}
/// random alias-free node for use as a mapping key
fn key_node(rng: &mut Rng, depth: usize) -> Node {
    let leaves = [("a", "p"), ("b", "p"), ("1", "p"), ("x", "p"), ("k", "d")];
    if depth == 0 || rng.chance(2, 5) {
        let (v, q) = *rng.pick(&leaves);
        return sc(v, q);
    }
    if rng.chance(1, 2) {
        let n = rng.below(3);
        Node::Seq { a: 0, t: String::new(), items: (0..n).map(|_| key_node(rng, depth - 1)).collect() }
    } else {
        let n = rng.below(3);
        let mut entries = vec![];
        let ks = ["p", "q", "r"];
        for i in 0..n {
            let kk = if n == 1 && rng.chance(1, 6) { "~" } else { ks[i] };
            entries.push((sc(kk, "p"), key_node(rng, depth - 1)));
        }
        Node::Map { a: 0, t: String::new(), entries }
    }
}
/// a copy of `n` that differs in exactly one place (or only in a scalar's style: same key identity)
fn mutate(n: &Node, rng: &mut Rng) -> Node {
    match n {
        Node::Scalar { v, q, .. } => {
            if rng.chance(1, 3) {
                sc(v, if q == "p" { "d" } else { "p" }) // style only: still the same key
            } else {
                sc(&format!("{v}z"), q)
            }
        }
        Node::Seq { items, .. } => {
            let mut it = items.clone();
            if it.is_empty() || rng.chance(1, 4) {
                it.push(sc("m", "p"));
            } else {
                let i = rng.below(it.len());
                it[i] = mutate(&it[i], rng);
            }
            Node::Seq { a: 0, t: String::new(), items: it }
        }
        Node::Map { entries, .. } => {
            let mut es = entries.clone();
            if es.is_empty() || rng.chance(1, 5) {
                es.push((sc("s", "p"), sc("m", "p")));
            } else {
                let i = rng.below(es.len());
                es[i].1 = mutate(&es[i].1, rng);
            }
            Node::Map { a: 0, t: String::new(), entries: es }
        }
        other => other.clone(),
    }
}
/// mapping whose keys are drawn from a pool of near-identical nodes (C04 quantifier)
fn dup_map(rng: &mut Rng, lab: &mut Lab) -> Node {
    let mut pool = vec![];
    for _ in 0..(1 + rng.below(2)) {
        let k = key_node(rng, 2);
        let k2 = mutate(&k, rng);
        let k3 = mutate(&k2, rng);
        pool.push(k);
        pool.push(k2);
        pool.push(k3);
    }
    let n = 2 + rng.below(4);
    let mut entries = vec![];
    for _ in 0..n {
        let k = rng.pick(&pool).clone();
        let v = if rng.chance(1, 4) { Node::Seq { a: 0, t: String::new(), items: vec![lab.next(), Node::Map { a: 0, t: String::new(), entries: vec![(sc("i", "p"), lab.next())] }] } } else { lab.next() };
        entries.push((k, v));
    }
    Node::Map { a: 0, t: String::new(), entries }
}

#[derive(Default, Serialize)]
struct Stats {
    cases: usize,
    records: usize,
    nontrivial: usize,
    nontrivial_dup: usize,
    render_fail: usize,
    samples: Vec<serde_json::Value>,
}

static DISCARD_EVERY: std::sync::atomic::AtomicUsize = std::sync::atomic::AtomicUsize::new(1);
static DISCARD_COUNTER: std::sync::atomic::AtomicUsize = std::sync::atomic::AtomicUsize::new(0);
fn emit_all(w: &mut NdWriter, id: &str, text: &str, want: &[AEv], stats: &mut Stats) -> bool {
    if let Err(e) = render_check(text, want) {
        stats.render_fail += 1;
        if stats.render_fail <= 5 {
            eprintln!("RENDER-CHECK {id}: {e}");
        }
        return false;
    }
    let (raw, _) = raw_events(text);
    let raw = strip_doc_markers(&raw);
    let pos = if raw.iter().any(|e| e.k == "AL") { vec![] } else { raw_positions(text) };
    // targets that discard what they read still have every mapping checked: the whole document into IgnoredAny, and (when every
    // mapping key is a plain non-null scalar) a struct none of whose fields occurs, so that every value is an ignored one
    let scalar_keys_only = {
        fn ok(n: &Node) -> bool {
            match n {
                Node::Map { entries, .. } => entries.iter().all(|(k, v)| matches!(k, Node::Scalar { v: kv, t, .. } if t.is_empty() && !kv.is_empty() && kv != "~" && !kv.eq_ignore_ascii_case("null")) && ok(v)),
                Node::Seq { items, .. } => items.iter().all(ok),
                _ => true,
            }
        }
        !raw.iter().any(|e| e.k == "AL") && nodes_from_events(&raw).map(|ns| ns.len() == 1 && matches!(ns[0], Node::Map { .. }) && ok(&ns[0])).unwrap_or(false)
    };
    // (the discarding targets for every DISCARD_EVERY-th text: all of them in the quick tier, a sample of the much larger thorough one)
    let n = DISCARD_COUNTER.fetch_add(1, std::sync::atomic::Ordering::Relaxed);
    let discard = n % DISCARD_EVERY.load(std::sync::atomic::Ordering::Relaxed).max(1) == 0;
    for (pname, pol) in POLICIES {
        let (obs, eloc) = observe_tree_policy_loc(text, pol);
        w.put(&Rec { id: format!("{id}-{pname}"), yaml: text, raw: &raw, policy: pname, target: "pairs", obs, eloc, pos: &pos });
        if !discard { continue; }
        let (obs, eloc) = observe_discarding(text, pol, false);
        w.put(&Rec { id: format!("{id}-{pname}-ign"), yaml: text, raw: &raw, policy: pname, target: "ignored", obs, eloc, pos: &pos });
        if scalar_keys_only {
            let (obs, eloc) = observe_discarding(text, pol, true);
            w.put(&Rec { id: format!("{id}-{pname}-unk"), yaml: text, raw: &raw, policy: pname, target: "unknown", obs, eloc, pos: &pos });
        }
    }
    true
}

fn has_merge(evs: &[AEv]) -> bool {
    evs.iter().any(|e| e.k == "S" && e.v == "<<" && e.q == "p" && e.t.is_empty())
}
pub fn has_repeated_key(n: &Node) -> bool {
    match n {
        Node::Map { entries, .. } => {
            let mut seen = std::collections::HashSet::new();
            for (k, v) in entries {
                let mut evs = vec![];
                events_from_node(k, &mut evs);
                let fp: Vec<String> = evs.iter().map(|e| format!("{}|{}|{}", e.k, e.v, e.t)).collect();
                if !is_merge_key(k) && !seen.insert(fp) {
                    return true;
                }
                if has_repeated_key(k) || has_repeated_key(v) {
                    return true;
                }
            }
            false
        }
        Node::Seq { items, .. } => items.iter().any(has_repeated_key),
        _ => false,
    }
}

pub fn run(args: &Args) -> i32 {
    let out = args.req("out");
    let mut w = NdWriter::create(out);
    let mut stats = Stats::default();
    DISCARD_EVERY.store(args.num("discard-every", 1).max(1) as usize, std::sync::atomic::Ordering::Relaxed);
    let mut process = |id: String, doc: &[AEv], names: Option<&[String]>, w: &mut NdWriter, stats: &mut Stats, styles: &[&str]| {
        let nodes = match nodes_from_events(doc) {
            Ok(n) if n.len() == 1 => n,
            _ => {
                eprintln!("bad case {id}");
                return;
            }
        };
        let nm = Names(names);
        let merge = has_merge(doc);
        let dup = has_repeated_key(&nodes[0]);
        if merge {
            stats.nontrivial += 1;
        }
        if dup {
            stats.nontrivial_dup += 1;
        }
        for st in styles {
            match *st {
                "f" => {
                    let t = render_flow(&nodes[0], &nm);
                    emit_all(w, &format!("{id}-f"), &t, doc, stats);
                    if stats.samples.len() < 4 && merge && dup {
                        stats.samples.push(serde_json::json!({"id": id, "yaml": t}));
                    }
                }
                "b" => {
                    let t = render_block(&nodes[0], &nm);
                    emit_all(w, &format!("{id}-b"), &t, doc, stats);
                }
                "a" if merge && names.is_none() => {
                    // merge sources through anchors defined earlier in the document
                    let mut defs = vec![];
                    let mut nid = 1;
                    let root = anchorize(&nodes[0], &mut defs, &mut nid);
                    if defs.is_empty() {
                        continue;
                    }
                    let wrapped = Node::Seq { a: 0, t: String::new(), items: vec![Node::Seq { a: 0, t: String::new(), items: defs }, root] };
                    let mut evs = vec![];
                    events_from_node(&wrapped, &mut evs);
                    let t = render_block(&wrapped, &Names(None));
                    emit_all(w, &format!("{id}-a"), &t, &evs, stats);
                    if stats.samples.len() < 6 {
                        stats.samples.push(serde_json::json!({"id": format!("{id}-a"), "yaml": t}));
                    }
                }
                _ => {}
            }
        }
    };
    if let Some(cases) = args.get("cases") {
        let cases: Vec<Case> = read_ndjson(cases);
        for (i, c) in cases.iter().enumerate() {
            stats.cases += 1;
            process(format!("c{i}"), &c.doc, None, &mut w, &mut stats, &["f", "b", "a"]);
        }
    }
    let nrand = args.num("random", 0);
    if nrand > 0 {
        let mut rng = Rng::new(args.num("seed", 1));
        let focus04 = args.get("focus") == Some("C04");
        for i in 0..nrand {
            if focus04 && i % 10 == 9 {
                // a large value after a repeated key: skip_one_node must consume exactly that value
                let big = DocGen {
                    max_events: 200 + rng.below(800),
                    max_depth: 8,
                    scalars: sv(&[("x", "p"), ("1", "p"), ("~", "p")]),
                    key_scalars: sv(&[("k", "p"), ("m", "p"), ("a", "p")]),
                    names: 0,
                    p_anchor: (0, 1),
                    p_alias: (0, 1),
                    container_keys: false,
                };
                let (inner, _) = big.generate(&mut rng);
                let mut doc = vec![AEv::new("MS", 0, "", "p", ""), AEv::new("S", 0, "a", "p", ""), AEv::new("S", 0, "first", "p", ""),
                                   AEv::new("S", 0, "a", if rng.chance(1, 2) { "d" } else { "p" }, "")];
                doc.extend(inner);
                doc.push(AEv::new("S", 0, "b", "p", ""));
                doc.push(AEv::new("S", 0, "after", "p", ""));
                doc.push(AEv::new("ME", 0, "", "p", ""));
                let style = if rng.chance(1, 2) { "f" } else { "b" };
                process(format!("r{i}big"), &doc, None, &mut w, &mut stats, &[style]);
                continue;
            }
            if !focus04 && i % 10 == 7 {
                // the same anchored source merged more than once in one mapping, with other sources in between: every
                // occurrence counts at its own position (`<<: *s1, <<: *s2, <<: *s1`; also inside merge sequences)
                let mut lab = Lab(0);
                let nsrc = 2 + rng.below(2);
                let defs: Vec<Node> = (0..nsrc)
                    .map(|j| {
                        let mut entries = vec![];
                        for k in ["a", "b", "c"] {
                            if rng.chance(2, 3) {
                                entries.push((sc(k, "p"), lab.next()));
                            }
                        }
                        Node::Map { a: j as u32 + 1, t: String::new(), entries }
                    })
                    .collect();
                let mut entries = vec![];
                let nm = 2 + rng.below(3);
                for _ in 0..nm {
                    if rng.chance(1, 4) {
                        entries.push((sc(*rng.pick(&["a", "d"]), "p"), lab.next()));
                    }
                    let one = |rng: &mut Rng| Node::Alias { a: 1 + rng.below(nsrc) as u32 };
                    let src = if rng.chance(1, 4) {
                        let n = 2 + rng.below(2);
                        Node::Seq { a: 0, t: String::new(), items: (0..n).map(|_| one(&mut rng)).collect() }
                    } else {
                        one(&mut rng)
                    };
                    entries.push((sc("<<", "p"), src));
                }
                let root = Node::Map { a: 0, t: String::new(), entries };
                let wrapped = Node::Seq { a: 0, t: String::new(), items: vec![Node::Seq { a: 0, t: String::new(), items: defs }, root] };
                let mut evs = vec![];
                events_from_node(&wrapped, &mut evs);
                let t = if rng.chance(1, 2) { render_block(&wrapped, &Names(None)) } else { render_flow(&wrapped, &Names(None)) };
                stats.nontrivial += 1;
                emit_all(&mut w, &format!("r{i}rep"), &t, &evs, &mut stats);
                continue;
            }
            if focus04 && i % 10 == 3 {
                // a wide mapping (6..40 distinct keys) in which one or two keys come again, preferably at a position next to a
                // power of two or a small-capacity boundary (key sets that change representation as they grow)
                let span = if rng.chance(1, 4) { 35 } else { 14 };
                let width = 6 + rng.below(span);
                let mut lab = Lab(0);
                let mut entries: Vec<(Node, Node)> = (0..width).map(|j| (sc(&format!("k{j}"), if j % 5 == 4 { "d" } else { "p" }), lab.next())).collect();
                for _ in 0..1 + rng.below(2) {
                    let near: Vec<usize> = [3usize, 4, 7, 8, 9, 15, 16, 17, 31, 32, 33].iter().copied().filter(|&x| x < width).collect();
                    let which = if !near.is_empty() && rng.chance(2, 3) { *rng.pick(&near) } else { rng.below(width) };
                    let again = (sc(&format!("k{which}"), if rng.chance(1, 4) { "s" } else { "p" }), lab.next());
                    let room = entries.len() - which;
                    let at = which + 1 + rng.below(room);
                    entries.insert(at, again);
                }
                let node = Node::Map { a: 0, t: String::new(), entries };
                let mut doc = vec![];
                events_from_node(&node, &mut doc);
                let style = if rng.chance(1, 2) { "f" } else { "b" };
                process(format!("r{i}wide"), &doc, None, &mut w, &mut stats, &[style]);
                continue;
            }
            if i % 2 == 0 {
                // structural generators aimed at the property's own quantifier
                let mut lab = Lab(0);
                let md = if rng.chance(1, 5) { 3 } else { 2 };
                let node = if focus04 { dup_map(&mut rng, &mut lab) } else { merge_map(&mut rng, md, &mut lab) };
                let mut doc = vec![];
                events_from_node(&node, &mut doc);
                let styles: &[&str] = if focus04 { if rng.chance(1, 2) { &["f"] } else { &["b"] } } else { &["f", "a"] };
                process(format!("r{i}s"), &doc, None, &mut w, &mut stats, styles);
                continue;
            }
            let profile = if focus04 { 1 + i % 2 } else { i % 3 };
            let g = DocGen {
                max_events: args.num("max-events", 40) as usize,
                max_depth: 5,
                scalars: sv(&[("x", "p"), ("w", "p"), ("~", "p"), ("1", "p"), ("z", "d"), ("null", "p")]),
                key_scalars: match profile {
                    0 => sv(&[("a", "p"), ("b", "p"), ("<<", "p"), ("<<", "p"), ("c", "p")]),
                    1 => sv(&[("a", "p"), ("a", "d"), ("b", "p"), ("<<", "p"), ("<<", "d"), ("1", "p"), ("1", "s")]),
                    _ => sv(&[("a", "p"), ("b", "p"), ("c", "p"), ("a", "s")]),
                },
                names: if profile == 0 { 3 } else { 0 },
                p_anchor: (1, 3),
                p_alias: (1, 4),
                container_keys: profile == 2,
            };
            let (doc, idname) = g.generate(&mut rng);
            if doc[0].k != "MS" && doc[0].k != "SS" {
                continue;
            }
            let style = if rng.chance(1, 2) { "f" } else { "b" };
            process(format!("r{i}"), &doc, Some(&idname), &mut w, &mut stats, &[style]);
        }
    }
    stats.records = w.n;
    w.finish();
    println!("{}", serde_json::to_string(&stats).unwrap());
    if stats.render_fail > 0 {
        return 2;
    }
    0
}

// ---------------------------------------------------------------------------------------------
// action-level traces of MA::next_key_seed (hook verif_hooks::ma_trace_*), validated by TR_MapAccess
// ---------------------------------------------------------------------------------------------
#[derive(Serialize)]
struct TStep {
    act: &'static str,
    out: &'static str,
    pending: usize,
    mstack: usize,
    seen: usize,
    flushing: bool,
}
#[derive(Serialize)]
struct TRec<'a> {
    id: String,
    yaml: &'a str,
    doc: &'a [AEv],
    policy: &'a str,
    steps: Vec<TStep>,
    /// "ok" or the error class
    res: String,
}
#[derive(Default, Serialize)]
struct TStats {
    cases: usize,
    records: usize,
    steps: usize,
    merge_steps: usize,
    skip_steps: usize,
    error_traces: usize,
}

fn has_map_key_at_root(n: &Node) -> bool {
    matches!(n, Node::Map { entries, .. } if entries.iter().any(|(k, _)| matches!(k, Node::Map { .. })))
}

fn trace_one(w: &mut NdWriter, id: String, text: &str, doc: &[AEv], stats: &mut TStats) {
    for (pname, pol) in POLICIES {
        let t = text.to_string();
        let r = guarded(move || {
            let mut o = serde_saphyr::Options::default();
            o.duplicate_keys = pol;
            serde_saphyr::verif_hooks::ma_trace_begin();
            let r = serde_saphyr::from_str_with_options::<Tree>(&t, o);
            let steps = serde_saphyr::verif_hooks::ma_trace_end();
            (r.map(|_| ()).map_err(|e| classify(&e)), steps)
        });
        let (res, steps) = match r {
            Ok((Ok(()), s)) => ("ok".to_string(), s),
            Ok((Err(c), s)) => (c, s),
            Err(p) => {
                let _ = serde_saphyr::verif_hooks::ma_trace_end();
                (format!("PANIC:{p}"), vec![])
            }
        };
        // the root mapping's access object is the first one created in the call
        let steps: Vec<TStep> = steps.into_iter().filter(|s| s.ma == 1).map(|s| TStep { act: s.act, out: s.out, pending: s.pending, mstack: s.mstack, seen: s.seen, flushing: s.flushing }).collect();
        stats.steps += steps.len();
        stats.merge_steps += steps.iter().filter(|s| s.out == "merge" || s.act == "FL" || s.act == "KP").count();
        stats.skip_steps += steps.iter().filter(|s| s.out == "skip" || s.out == "dup").count();
        if res != "ok" {
            stats.error_traces += 1;
        }
        w.put(&TRec { id: format!("{id}-{pname}"), yaml: text, doc, policy: pname, steps, res });
    }
}

pub fn run_traces(args: &Args) -> i32 {
    let mut w = NdWriter::create(args.req("out"));
    let mut stats = TStats::default();
    let every = args.num("every", 1).max(1) as usize;
    let mut one = |id: String, doc: &[AEv], flow: bool, w: &mut NdWriter, stats: &mut TStats| {
        let Ok(nodes) = nodes_from_events(doc) else { return };
        if nodes.len() != 1 || !matches!(nodes[0], Node::Map { .. }) || has_map_key_at_root(&nodes[0]) {
            return;
        }
        let nm = Names(None);
        let text = if flow { render_flow(&nodes[0], &nm) } else { render_block(&nodes[0], &nm) };
        if render_check(&text, doc).is_err() {
            return;
        }
        stats.cases += 1;
        trace_one(w, id, &text, doc, stats);
    };
    if let Some(cases) = args.get("cases") {
        let cases: Vec<Case> = read_ndjson(cases);
        for (i, c) in cases.iter().enumerate() {
            if i % every != 0 {
                continue;
            }
            one(format!("t{i}"), &c.doc, i % 2 == 0, &mut w, &mut stats);
        }
    }
    let nrand = args.num("random", 0);
    let mut rng = Rng::new(args.num("seed", 1));
    let focus04 = args.get("focus") == Some("C04");
    for i in 0..nrand {
        let mut lab = Lab(0);
        let md = if rng.chance(1, 4) { 3 } else { 2 };
        let node = if focus04 && i % 2 == 0 { dup_map(&mut rng, &mut lab) } else { merge_map(&mut rng, md, &mut lab) };
        let mut doc = vec![];
        events_from_node(&node, &mut doc);
        one(format!("tr{i}"), &doc, rng.chance(1, 2), &mut w, &mut stats);
    }
    stats.records = w.n;
    w.finish();
    println!("{}", serde_json::to_string(&stats).unwrap());
    0
}
