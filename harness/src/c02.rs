//! C02 — anchors and aliases are transparent.
//! cases (from MC_LiveEvents): {doc:[ev], names:[name per id], st}
//! records (to TV_LiveEvents): {id, yaml, raw:[ev], obs:N}
use crate::docgen::*;
use crate::model::*;
use crate::Args;
use serde::{Deserialize, Serialize};
use serde_saphyr::options::DuplicateKeyPolicy;

#[derive(Deserialize)]
struct Case {
    doc: Vec<AEv>,
    names: Vec<serde_json::Value>,
}
#[derive(Serialize)]
struct Rec<'a> {
    id: String,
    yaml: &'a str,
    raw: Vec<AEv>,
    obs: N,
    /// raw events of the alias-free expansion as rendered by the harness ([] = none exists)
    exp: Vec<AEv>,
    yaml_exp: String,
    obs_exp: N,
}

/// Harness-side expansion (untrusted: TV_LiveEvents checks it against YamlModel!ExpandAll).
pub fn expand(raw: &[AEv]) -> Option<Vec<AEv>> {
    fn end_of(r: &[AEv], i: usize) -> usize {
        let mut d = 0usize;
        let mut j = i;
        loop {
            if r[j].is_start() {
                d += 1;
            } else if r[j].is_end() {
                d -= 1;
            }
            if d == 0 {
                return j;
            }
            j += 1;
        }
    }
    fn go(r: &[AEv], lo: usize, hi: usize, out: &mut Vec<AEv>, fuel: &mut usize) -> bool {
        let mut i = lo;
        while i < hi {
            if *fuel == 0 {
                return false;
            }
            *fuel -= 1;
            let e = &r[i];
            if e.k == "AL" {
                let Some(s) = (0..i).find(|&j| matches!(r[j].k.as_str(), "S" | "SS" | "MS") && r[j].a == e.a) else {
                    return false;
                };
                let t = end_of(r, s);
                if i <= t {
                    return false;
                }
                if !go(r, s, t + 1, out, fuel) {
                    return false;
                }
            } else {
                let mut x = e.clone();
                x.a = 0;
                out.push(x);
            }
            i += 1;
        }
        true
    }
    let mut out = vec![];
    let mut fuel = 2_000_000usize;
    if go(raw, 0, raw.len(), &mut out, &mut fuel) { Some(out) } else { None }
}

pub fn options() -> serde_saphyr::Options {
    let mut o = serde_saphyr::Options::default();
    o.duplicate_keys = DuplicateKeyPolicy::LastWins;
    o
}

pub fn observe_tree(text: &str) -> N {
    let t = text.to_string();
    match guarded(move || serde_saphyr::from_str_with_options::<Tree>(&t, options())) {
        Ok(Ok(Tree(n))) => n,
        Ok(Err(e)) => N::errc(&classify(&e)),
        Err(p) => N::errc(&format!("PANIC:{p}")),
    }
}

fn emit(w: &mut NdWriter, id: String, text: &str, want: &[AEv], stats: &mut Stats) -> bool {
    if let Err(e) = render_check(text, want) {
        stats.render_fail += 1;
        if stats.render_fail <= 5 {
            eprintln!("RENDER-CHECK {id}: {e}");
        }
        return false;
    }
    let (raw, _) = raw_events(text);
    let raw = strip_doc_markers(&raw);
    let obs = observe_tree(text);
    let (exp, yaml_exp, obs_exp) = match expand(&raw) {
        None => (vec![], String::new(), N::err()),
        Some(x) => {
            let nodes = nodes_from_events(&x).unwrap();
            let t = if id.ends_with('f') { render_flow(&nodes[0], &Names(None)) } else { render_block(&nodes[0], &Names(None)) };
            if let Err(e) = render_check(&t, &x) {
                stats.render_fail += 1;
                eprintln!("RENDER-CHECK (expansion) {id}: {e}");
                return false;
            }
            let o = observe_tree(&t);
            (x, t, o)
        }
    };
    w.put(&Rec { id, yaml: text, raw, obs, exp, yaml_exp, obs_exp });
    true
}

/// "never a stale value": the aliased document followed, in the same stream, by a document that only USES its anchor names.
/// The record describes the second document alone (its aliases have no definition there), so the specification requires an
/// error; what the streaming iterator yields for it is the observation.
fn emit_stale(w: &mut NdWriter, id: String, text: &str, names: &[String], stats: &mut Stats) {
    let used: Vec<&String> = names.iter().filter(|n| !n.is_empty() && text.contains(&format!("&{n}"))).collect();
    if used.is_empty() {
        return;
    }
    // one stream per anchor name: a second document using several names would fail on the first unknown one
    // (the second document either only uses the name, or first defines an anchor of its own under another name: the stale name
    // must not resolve to that one either)
    // `lead`: a document with an anchor of its own comes first, so that the document defining the name is not the first
    // anchored one of the stream (tables sized or swept by what earlier documents needed)
    for (k, (name, own, lead)) in used.iter().flat_map(|n| [(n, false, false), (n, true, false), (n, false, true)]).enumerate() {
        let second = if own { format!("[&zzfresh 9, *{name}]") } else { format!("[*{name}]") };
        let head = if lead { "--- &zzlead [0]\n" } else { "" };
        let stream = if text.trim_end().contains('\n') { format!("{head}---\n{}\n--- {second}\n", text.trim_end()) } else { format!("{head}--- {}\n--- {second}\n", text.trim_end()) };
        let raw = if own {
            vec![AEv::new("SS", 0, "", "p", ""), AEv::new("S", 2, "9", "p", ""), AEv::new("AL", 1, "", "p", ""), AEv::new("SE", 0, "", "p", "")]
        } else {
            vec![AEv::new("SS", 0, "", "p", ""), AEv::new("AL", 1, "", "p", ""), AEv::new("SE", 0, "", "p", "")]
        };
        let s2 = stream.clone();
        let at = if lead { 2 } else { 1 };
        let obs = match guarded(move || {
            let mut c = std::io::Cursor::new(s2.into_bytes());
            let items: Vec<Result<Tree, serde_saphyr::Error>> = serde_saphyr::read::<_, Tree>(&mut c).collect();
            items
        }) {
            Ok(items) if items.len() > at => match &items[at] { Ok(t) => t.0.clone(), Err(_) => N::err() },
            // an earlier document failed or the stream ended early: nothing is claimed about the last one
            Ok(_) => continue,
            Err(_) => N::err(),
        };
        stats.stale += 1;
        w.put(&Rec { id: format!("{id}{k}"), yaml: &stream, raw, obs, exp: vec![], yaml_exp: String::new(), obs_exp: N::err() });
    }
}

#[derive(Default, Serialize)]
pub struct Stats {
    pub stale: usize,
    pub cases: usize,
    pub records: usize,
    pub nontrivial: usize,
    pub render_fail: usize,
    pub samples: Vec<serde_json::Value>,
}

pub fn run(args: &Args) -> i32 {
    let stale_every = args.num("stale-every", 5).max(1) as usize;
    let out = args.req("out");
    let mut w = NdWriter::create(out);
    let mut stats = Stats::default();
    let mut seen = std::collections::HashSet::new();
    if let Some(cases) = args.get("cases") {
        let cases: Vec<Case> = read_ndjson(cases);
        for (i, c) in cases.iter().enumerate() {
            stats.cases += 1;
            let mut names = vec![String::new()];
            for n in &c.names {
                names.push(format!("n{}", n));
            }
            let nodes = match nodes_from_events(&c.doc) {
                Ok(n) if n.len() == 1 => n,
                _ => {
                    eprintln!("bad case {i}");
                    return 2;
                }
            };
            let nm = Names(Some(&names));
            let has_alias = c.doc.iter().any(|e| e.k == "AL");
            let flow = render_flow(&nodes[0], &nm);
            let block = render_block(&nodes[0], &nm);
            for (tag, text) in [("f", &flow), ("b", &block)] {
                if i % stale_every == 0 && (has_alias || c.doc.iter().any(|e| e.a != 0)) {
                    emit_stale(&mut w, format!("c{i}-{tag}-stale"), text, &names, &mut stats);
                }
                if emit(&mut w, format!("c{i}-{tag}"), text, &c.doc, &mut stats) {
                    if has_alias && seen.insert(text.clone()) {
                        stats.nontrivial += 1;
                    }
                    if stats.samples.len() < 3 && has_alias {
                        stats.samples.push(serde_json::json!({"id": format!("c{i}-{tag}"), "yaml": text}));
                    }
                }
            }
        }
    }
    let nrand = args.num("random", 0);
    if nrand > 0 {
        let mut rng = Rng::new(args.num("seed", 1));
        let g = DocGen {
            max_events: args.num("max-events", 40) as usize,
            max_depth: 5,
            scalars: sv(&[("1", "p"), ("x", "p"), ("~", "p"), ("", "d"), ("x", "d"), ("1", "s"), ("true", "p"), ("null", "p")]),
            key_scalars: sv(&[("1", "p"), ("x", "p"), ("k", "p"), ("~", "p"), ("w", "d")]),
            names: 3,
            p_anchor: (1, 3),
            p_alias: (1, 4),
            container_keys: args.num("container-keys", 0) == 1,
        };
        for i in 0..nrand {
            let (doc, idname) = g.generate(&mut rng);
            let nodes = nodes_from_events(&doc).unwrap();
            let nm = Names(Some(&idname));
            let flow = rng.chance(1, 2);
            let text = if flow { render_flow(&nodes[0], &nm) } else { render_block(&nodes[0], &nm) };
            let has_alias = doc.iter().any(|e| e.k == "AL");
            if emit(&mut w, format!("r{i}-{}", if flow { "f" } else { "b" }), &text, &doc, &mut stats) {
                if has_alias && seen.insert(text.clone()) {
                    stats.nontrivial += 1;
                }
                if stats.samples.len() < 5 && has_alias && doc.len() > 12 {
                    stats.samples.push(serde_json::json!({"id": format!("r{i}"), "yaml": text}));
                }
            }
        }
    }
    stats.records = w.n;
    w.finish();
    println!("{}", serde_json::to_string(&stats).unwrap());
    if stats.render_fail > 0 {
        eprintln!("render-check failures: {}", stats.render_fail);
        return 2;
    }
    0
}


// ------------------------------------------------------------------------------------------------
// action-level traces of the event pump (TR_LiveEvents)
// ------------------------------------------------------------------------------------------------
#[derive(Serialize)]
struct StepRec {
    a: &'static str,
    inject: usize,
    rec: usize,
    replayed: usize,
    anchors: usize,
    held: usize,
    err: &'static str,
}
#[derive(Serialize)]
struct TraceRec<'a> {
    id: String,
    yaml: &'a str,
    raw: Vec<AEv>,
    steps: Vec<StepRec>,
}
#[derive(Default, Serialize)]
struct TStats {
    records: usize,
    nontrivial: usize,
    steps: usize,
    serve_steps: usize,
    error_traces: usize,
    samples: Vec<serde_json::Value>,
}

fn trace_one(w: &mut NdWriter, id: String, text: &str, limits: Option<(usize, usize, usize)>, stats: &mut TStats) {
    let (raw, _) = raw_events(text);
    let raw = strip_doc_markers(&raw);
    if raw.is_empty() {
        return;
    }
    let t = text.to_string();
    let steps = guarded(move || {
        let mut o = serde_saphyr::Options::default();
        if let Some((total, stack, per)) = limits {
            o.alias_limits.max_total_replayed_events = total;
            o.alias_limits.max_replay_stack_depth = stack;
            o.alias_limits.max_alias_expansions_per_anchor = per;
        }
        // the budget enforcer is not part of LiveEvents.tla: switch it off so that only the pump decides
        o.budget = None;
        serde_saphyr::verif_hooks::pump_trace_begin();
        let _ = serde_saphyr::from_str_with_options::<Tree>(&t, o);
        serde_saphyr::verif_hooks::pump_trace_end()
    });
    let Ok(steps) = steps else { return };
    let steps: Vec<StepRec> = steps.into_iter().map(|s| StepRec { a: s.action, inject: s.inject, rec: s.rec, replayed: s.replayed, anchors: s.anchors, held: s.held, err: s.err }).collect();
    stats.steps += steps.len();
    let serves = steps.iter().filter(|s| s.a == "serve").count();
    stats.serve_steps += serves;
    if serves > 0 { stats.nontrivial += 1; }
    if steps.iter().any(|s| !s.err.is_empty()) { stats.error_traces += 1; }
    if stats.samples.len() < 3 && serves > 0 { stats.samples.push(serde_json::json!({"yaml": text, "steps": steps.len()})); }
    w.put(&TraceRec { id, yaml: text, raw, steps });
}

/// `vh c02t --cases .. --out .. [--total N --stack N --per N] [--every k]`
pub fn run_traces(args: &Args) -> i32 {
    let mut w = NdWriter::create(args.req("out"));
    let mut stats = TStats::default();
    let limits = if args.get("total").is_some() { Some((args.num("total", 1_000_000) as usize, args.num("stack", 64) as usize, args.num("per", 1_000_000) as usize)) } else { None };
    let every = args.num("every", 1).max(1) as usize;
    if let Some(cases) = args.get("cases") {
        let cases: Vec<Case> = read_ndjson(cases);
        for (i, c) in cases.iter().enumerate() {
            if i % every != 0 { continue; }
            let mut names = vec![String::new()];
            for n in &c.names { names.push(format!("n{}", n)); }
            let Ok(nodes) = nodes_from_events(&c.doc) else { continue };
            let nm = Names(Some(&names));
            let text = if i % 2 == 0 { render_flow(&nodes[0], &nm) } else { render_block(&nodes[0], &nm) };
            if render_check(&text, &c.doc).is_err() { continue; }
            trace_one(&mut w, format!("t{i}"), &text, limits, &mut stats);
        }
    }
    stats.records = w.n;
    w.finish();
    println!("{}", serde_json::to_string(&stats).unwrap());
    0
}
