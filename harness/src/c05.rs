//! C05 — typed deserialization is position-faithful.
//! cases (from MC_TypedCursor): {doc:[ev]} ; records (to TV_TypedCursor): {id, schema, yaml, raw, str, multi, read}
use crate::docgen::*;
use crate::model::*;
use crate::schema::*;
use crate::Args;
use serde::de::DeserializeSeed;
use serde::{Deserialize, Serialize};
use std::cell::RefCell;

thread_local! {
    static SCHEMA: RefCell<Option<Schema>> = const { RefCell::new(None) };
}
/// A type whose `Deserialize` follows the thread-local schema (entry points that need a type, not a seed).
pub struct Dyn(pub N);
impl<'de> Deserialize<'de> for Dyn {
    fn deserialize<D: serde::de::Deserializer<'de>>(d: D) -> Result<Dyn, D::Error> {
        let s = SCHEMA.with(|c| c.borrow().clone()).expect("schema set");
        Seed(&s).deserialize(d).map(Dyn)
    }
}

#[derive(Deserialize)]
struct Case {
    doc: Vec<AEv>,
}
#[derive(Serialize)]
struct Rec<'a> {
    id: String,
    schema: &'a Schema,
    yaml: &'a str,
    raw: &'a [AEv],
    /// from_str::<T>
    str: N,
    /// with_deserializer_from_str
    wd: N,
    /// from_multiple::<T>: ["ok", v..] | ["err"]
    multi: Vec<N>,
    /// read::<_, T>: items
    read: Vec<N>,
}

fn errn(e: &serde_saphyr::Error) -> N {
    N::errc(&classify(e))
}

pub fn observe(schema: &Schema, text: &str) -> (N, N, Vec<N>, Vec<N>) {
    SCHEMA.with(|c| *c.borrow_mut() = Some(schema.clone()));
    let t = text.to_string();
    let s1 = guarded(move || match serde_saphyr::from_str::<Dyn>(&t) {
        Ok(Dyn(n)) => n,
        Err(e) => errn(&e),
    })
    .unwrap_or_else(|p| N::errc(&format!("PANIC:{p}")));
    let t = text.to_string();
    let sc = schema.clone();
    let s2 = guarded(move || match serde_saphyr::with_deserializer_from_str(&t, |de| Seed(&sc).deserialize(de)) {
        Ok(n) => n,
        Err(e) => errn(&e),
    })
    .unwrap_or_else(|p| N::errc(&format!("PANIC:{p}")));
    let t = text.to_string();
    let m = guarded(move || match serde_saphyr::from_multiple::<Dyn>(&t) {
        Ok(vs) => std::iter::once(N::leaf("ok", "")).chain(vs.into_iter().map(|d| d.0)).collect::<Vec<_>>(),
        Err(e) => vec![errn(&e)],
    })
    .unwrap_or_else(|p| vec![N::errc(&format!("PANIC:{p}"))]);
    let t = text.to_string();
    let r = guarded(move || {
        let mut rd = std::io::Cursor::new(t.into_bytes());
        let mut out = vec![];
        for (n, it) in serde_saphyr::read::<_, Dyn>(&mut rd).enumerate() {
            if n > 8 {
                out.push(N::errc("NONTERMINATING"));
                break;
            }
            out.push(match it {
                Ok(Dyn(v)) => v,
                Err(e) => errn(&e),
            });
        }
        out
    })
    .unwrap_or_else(|p| vec![N::errc(&format!("PANIC:{p}"))]);
    (s1, s2, m, r)
}

fn l(t: &str) -> Schema {
    Schema::leaf(t)
}
fn o(t: &str, ss: Vec<Schema>) -> Schema {
    Schema::of(t, ss)
}
pub fn enum_of(n: Schema, t1: Schema, t2: Schema, a: Schema) -> Schema {
    o("Enum", vec![n, t1, t2, a])
}

/// the fixed schema family used for the exhaustive product with TLC's documents
pub fn schema_family() -> Vec<Schema> {
    let d0 = vec![l("Bool"), l("Int"), l("Str"), l("Unit")];
    let e0 = enum_of(l("Int"), l("Int"), l("Str"), l("Int"));
    let mut v = d0.clone();
    v.push(e0.clone());
    for b in d0.iter().chain(std::iter::once(&e0)) {
        v.push(o("Opt", vec![b.clone()]));
        v.push(o("Seq", vec![b.clone()]));
        v.push(o("Map", vec![b.clone()]));
    }
    v.push(o("Tup", vec![l("Int"), l("Int")]));
    v.push(o("Tup", vec![l("Int"), l("Str")]));
    v.push(o("Tup", vec![l("Str"), l("Int"), l("Int")]));
    v.push(o("Tup", vec![l("Int")]));
    v.push(o("Struct", vec![l("Int")]));
    v.push(o("Struct", vec![l("Int"), l("Int")]));
    v.push(o("Struct", vec![l("Int"), o("Opt", vec![l("Int")])]));
    v.push(o("Struct", vec![o("Opt", vec![l("Str")]), o("Seq", vec![l("Int")])]));
    // depth 2
    v.push(o("Seq", vec![o("Tup", vec![l("Int"), l("Int")])]));
    v.push(o("Tup", vec![o("Tup", vec![l("Int"), l("Int")]), l("Int")]));
    v.push(o("Tup", vec![o("Tup", vec![l("Int"), l("Int")])]));
    v.push(o("Tup", vec![o("Seq", vec![l("Int")]), l("Int")]));
    v.push(o("Opt", vec![o("Seq", vec![l("Int")])]));
    v.push(o("Seq", vec![o("Opt", vec![l("Int")])]));
    v.push(o("Seq", vec![o("Seq", vec![l("Int")])]));
    v.push(o("Map", vec![o("Seq", vec![l("Int")])]));
    v.push(o("Map", vec![o("Opt", vec![l("Int")])]));
    v.push(o("Struct", vec![o("Tup", vec![l("Int"), l("Int")]), l("Int")]));
    v.push(o("Seq", vec![o("Struct", vec![l("Int"), l("Int")])]));
    v.push(o("Struct", vec![o("Struct", vec![l("Int")]), o("Opt", vec![l("Unit")])]));
    v.push(enum_of(o("Tup", vec![l("Int"), l("Int")]), l("Int"), l("Int"), o("Opt", vec![l("Int")])));
    v.push(enum_of(o("Seq", vec![l("Int")]), l("Str"), l("Str"), l("Str")));
    v.push(o("Seq", vec![e0.clone()]));
    v.push(o("Tup", vec![e0.clone(), l("Int")]));
    v.push(o("Opt", vec![o("Opt", vec![l("Int")])]));
    // enums whose newtype payload can be built from nothing, in positions with following siblings
    let eo = enum_of(o("Opt", vec![l("Bool")]), l("Int"), l("Int"), l("Int"));
    let eu = enum_of(l("Unit"), l("Int"), l("Int"), l("Int"));
    for e in [eo, eu] {
        v.push(o("Seq", vec![e.clone()]));
        v.push(o("Map", vec![e.clone()]));
        v.push(o("Tup", vec![l("Int"), e.clone(), l("Bool")]));
        v.push(o("Struct", vec![e.clone(), l("Int")]));
    }
    v
}

// ------------------------------------------------------------------------------------------
// schema-directed near-miss generator
// ------------------------------------------------------------------------------------------
fn sc(v: &str) -> Node {
    Node::Scalar { a: 0, v: v.into(), q: "p".into(), t: String::new() }
}
fn seqn(items: Vec<Node>) -> Node {
    Node::Seq { a: 0, t: String::new(), items }
}
fn mapn(entries: Vec<(Node, Node)>) -> Node {
    Node::Map { a: 0, t: String::new(), entries }
}
pub fn random_schema(rng: &mut Rng, depth: usize) -> Schema {
    let leaves = ["Bool", "Int", "Str", "Unit"];
    if depth == 0 || rng.chance(1, 4) {
        return l(rng.pick_str(&leaves));
    }
    match rng.below(7) {
        0 => o("Opt", vec![random_schema(rng, depth - 1)]),
        1 => o("Seq", vec![random_schema(rng, depth - 1)]),
        2 => o("Map", vec![random_schema(rng, depth - 1)]),
        3 => {
            let n = 1 + rng.below(3);
            o("Tup", (0..n).map(|_| random_schema(rng, depth - 1)).collect())
        }
        4 => {
            let n = 1 + rng.below(3);
            o("Struct", (0..n).map(|_| random_schema(rng, depth - 1)).collect())
        }
        _ => enum_of(random_schema(rng, depth - 1), random_schema(rng, depth - 1), random_schema(rng, depth - 1), random_schema(rng, depth - 1)),
    }
}
/// a document that matches the schema
pub fn matching(s: &Schema, rng: &mut Rng) -> Node {
    match s.t.as_str() {
        "Bool" => sc(if rng.chance(1, 2) { "true" } else { "false" }),
        "Int" => sc(&rng.below(10).to_string()),
        "Str" => sc(rng.pick_str(&["x", "w", "hello", "1", "true"])),
        "Unit" => sc(rng.pick_str(&["~", "null"])),
        "Opt" => {
            if rng.chance(1, 3) {
                sc("~")
            } else {
                matching(&s.ss[0], rng)
            }
        }
        "Seq" => {
            let n = rng.below(4);
            seqn((0..n).map(|_| matching(&s.ss[0], rng)).collect())
        }
        "Tup" => seqn(s.ss.iter().map(|x| matching(x, rng)).collect()),
        "Map" => {
            let keys = ["k", "m", "p", "q"];
            let n = rng.below(4);
            mapn((0..n).map(|i| (sc(keys[i]), matching(&s.ss[0], rng))).collect())
        }
        "Struct" => {
            let names = ["a", "b", "c"];
            let mut es: Vec<(Node, Node)> = s.ss.iter().enumerate().map(|(i, x)| (sc(names[i]), matching(x, rng))).collect();
            if rng.chance(1, 3) {
                es.reverse();
            }
            mapn(es)
        }
        "Enum" => match rng.below(11) {
            // the tagged notation `!Variant payload` (the crate reads the tag on scalar and sequence nodes)
            8 => {
                let pay = matching(&s.ss[0], rng);
                match pay {
                    Node::Scalar { v, q, .. } if !(q == "p" && (v.is_empty() || v == "~" || v.eq_ignore_ascii_case("null"))) => Node::Scalar { a: 0, v, q, t: "!Nw".into() },
                    Node::Seq { items, .. } => Node::Seq { a: 0, t: "!Nw".into(), items },
                    other => mapn(vec![(sc("Nw"), other)]),
                }
            }
            9 => Node::Seq { a: 0, t: "!T".into(), items: vec![matching(&s.ss[1], rng), matching(&s.ss[2], rng)] },
            // (tagged scalars whose text is null-like are left out: Option targets and the null-document rule look at the text
            // only, so `!U ~` is a null there - see DESIGN 0.6)
            10 => match rng.below(7) {
                // tags on mapping nodes (the crate ignores them: recorded finding)
                4 => Node::Map { a: 0, t: "!St".into(), entries: vec![(sc("a"), matching(&s.ss[3], rng))] },
                5 => Node::Map { a: 0, t: "!X".into(), entries: vec![(sc("Nw"), matching(&s.ss[0], rng))] },
                6 => Node::Map { a: 0, t: "!U".into(), entries: vec![(sc("Nw"), matching(&s.ss[0], rng))] },
                0 => Node::Scalar { a: 0, v: "x".into(), q: "p".into(), t: "!U".into() },
                1 => Node::Scalar { a: 0, v: "1".into(), q: "p".into(), t: "!X".into() },
                2 => Node::Scalar { a: 0, v: "5".into(), q: "p".into(), t: "!T".into() },
                _ => Node::Scalar { a: 0, v: "w".into(), q: "d".into(), t: "!St".into() },
            },
            // bare variant names, also for variants that carry a payload (near misses; a newtype variant with an
            // optional or unit payload accepts the bare form)
            5 => sc("Nw"),
            6 => sc("T"),
            7 => sc("St"),
            0 => sc("U"),
            1 => mapn(vec![(sc("U"), sc("~"))]),
            2 => mapn(vec![(sc("Nw"), matching(&s.ss[0], rng))]),
            3 => mapn(vec![(sc("T"), seqn(vec![matching(&s.ss[1], rng), matching(&s.ss[2], rng)]))]),
            _ => mapn(vec![(sc("St"), mapn(vec![(sc("a"), matching(&s.ss[3], rng))]))]),
        },
        _ => sc("?"),
    }
}
fn count_nodes(n: &Node) -> usize {
    match n {
        Node::Seq { items, .. } => 1 + items.iter().map(count_nodes).sum::<usize>(),
        Node::Map { entries, .. } => 1 + entries.iter().map(|(k, v)| count_nodes(k) + count_nodes(v)).sum::<usize>(),
        _ => 1,
    }
}
/// applies one near-miss mutation at the `target`-th node (pre-order)
fn mutate_at(n: &Node, target: &mut isize, rng: &mut Rng) -> Node {
    let here = *target == 0;
    *target -= 1;
    if here {
        return match n {
            Node::Seq { items, .. } => {
                let mut it = items.clone();
                match rng.below(5) {
                    0 => {
                        it.push(sc(rng.pick_str(&["1", "x", "~"])));
                    }
                    1 if !it.is_empty() => {
                        it.pop();
                    }
                    2 if !it.is_empty() => {
                        let i = rng.below(it.len());
                        it.insert(i, it[i].clone());
                    }
                    3 => return sc("~"),
                    _ => return mapn(vec![(sc("a"), seqn(it))]),
                }
                seqn(it)
            }
            Node::Map { entries, .. } => {
                let mut es = entries.clone();
                match rng.below(6) {
                    0 => es.push((sc(rng.pick_str(&["zz", "c", "U", "b"])), sc(rng.pick_str(&["1", "x", "~"])))),
                    1 if !es.is_empty() => {
                        es.pop();
                    }
                    2 if !es.is_empty() => {
                        let i = rng.below(es.len());
                        es[i].0 = sc(rng.pick_str(&["zz", "X", "Nw", "T", "a", "b"]));
                    }
                    3 => return sc("~"),
                    4 => return seqn(es.into_iter().map(|(_, v)| v).collect()),
                    _ if !es.is_empty() => {
                        let i = rng.below(es.len());
                        let d = es[i].clone();
                        es.push(d);
                    }
                    _ => {}
                }
                mapn(es)
            }
            Node::Scalar { v, .. } => match rng.below(5) {
                0 => sc(rng.pick_str(&["1", "x", "~", "true", "U", "Nw", "null", ""])),
                1 => seqn(vec![sc(v)]),
                2 => mapn(vec![(sc(v), sc("1"))]),
                3 => Node::Scalar { a: 0, v: v.clone(), q: "d".into(), t: String::new() },
                _ => seqn(vec![]),
            },
            other => other.clone(),
        };
    }
    match n {
        Node::Seq { a, t, items } => Node::Seq { a: *a, t: t.clone(), items: items.iter().map(|x| mutate_at(x, target, rng)).collect() },
        Node::Map { a, t, entries } => Node::Map { a: *a, t: t.clone(), entries: entries.iter().map(|(k, v)| (mutate_at(k, target, rng), mutate_at(v, target, rng))).collect() },
        other => other.clone(),
    }
}

#[derive(Default, Serialize)]
struct Stats {
    after: usize,
    cases: usize,
    schemas: usize,
    records: usize,
    nontrivial: usize,
    ok_values: usize,
    render_fail: usize,
    samples: Vec<serde_json::Value>,
}

pub fn run(args: &Args) -> i32 {
    let out = args.req("out");
    let mut w = NdWriter::create(out);
    let mut stats = Stats::default();
    let fam = schema_family();
    stats.schemas = fam.len();
    let mut seen = std::collections::HashSet::new();
    let mut one = |id: String, schema: &Schema, text: &str, raw: &[AEv], w: &mut NdWriter, stats: &mut Stats| {
        let (s1, s2, m, r) = observe(schema, text);
        let key = format!("{}|{}", serde_json::to_string(schema).unwrap(), text);
        if seen.insert(key) {
            stats.nontrivial += 1;
        }
        if !s1.is_err() {
            stats.ok_values += 1;
        }
        w.put(&Rec { id, schema, yaml: text, raw, str: s1, wd: s2, multi: m, read: r });
    };
    if let Some(cases) = args.get("cases") {
        let cases: Vec<Case> = read_ndjson(cases);
        for (i, c) in cases.iter().enumerate() {
            stats.cases += 1;
            let nodes = nodes_from_events(&c.doc).unwrap();
            let text = if i % 2 == 0 { render_flow(&nodes[0], &Names(None)) } else { render_block(&nodes[0], &Names(None)) };
            if let Err(e) = render_check(&text, &c.doc) {
                stats.render_fail += 1;
                eprintln!("RENDER-CHECK c{i}: {e}");
                continue;
            }
            for (si, s) in fam.iter().enumerate() {
                one(format!("c{i}-s{si}"), s, &text, &c.doc, &mut w, &mut stats);
            }
        }
    }
    let nrand = args.num("random", 0);
    let mut rng = Rng::new(args.num("seed", 1));
    for i in 0..nrand {
        let sd = 1 + rng.below(3);
        let schema = if i % 3 == 0 { rng.pick(&fam).clone() } else { random_schema(&mut rng, sd) };
        let base = matching(&schema, &mut rng);
        let nmut = rng.below(3); // 0 = exact match
        let mut node = base;
        for _ in 0..nmut {
            let mut target = rng.below(count_nodes(&node)) as isize;
            node = mutate_at(&node, &mut target, &mut rng);
        }
        let mut doc = vec![];
        events_from_node(&node, &mut doc);
        let text = if rng.chance(1, 2) { render_flow(&node, &Names(None)) } else { render_block(&node, &Names(None)) };
        if render_check(&text, &doc).is_err() {
            // e.g. an empty plain scalar in flow context: not renderable this way, skip
            continue;
        }
        if stats.samples.len() < 5 && nmut > 0 && schema.depth() >= 3 {
            stats.samples.push(serde_json::json!({"id": format!("r{i}"), "schema": schema, "yaml": text}));
        }
        one(format!("r{i}"), &schema, &text, &doc, &mut w, &mut stats);
        // the document after this one in a stream: whatever the first document did (failed early, late, on a look-ahead,
        // or was read), the iterator's next item is filled from the second document's own nodes. The record describes the
        // second document alone; its observations are the items that follow the first.
        if nmut > 0 && i % 3 == 1 && matches!(node, Node::Seq { .. } | Node::Map { .. }) {
            let second = matching(&schema, &mut rng);
            let mut doc2 = vec![];
            events_from_node(&second, &mut doc2);
            let text2 = if rng.chance(1, 2) { render_flow(&second, &Names(None)) } else { render_block(&second, &Names(None)) };
            let null_like = matches!(&second, Node::Scalar { v, q, t, .. } if q == "p" && t.is_empty() && matches!(v.as_str(), "" | "~" | "null" | "Null" | "NULL"));
            if render_check(&text2, &doc2).is_ok() && !null_like {
                let stream = format!("---\n{}\n---\n{}\n", text.trim_end(), text2.trim_end());
                SCHEMA.with(|c| *c.borrow_mut() = Some(schema.clone()));
                let st = stream.clone();
                let items = guarded(move || {
                    let mut rd = std::io::Cursor::new(st.into_bytes());
                    let mut out = vec![];
                    for (n, it) in serde_saphyr::read::<_, Dyn>(&mut rd).enumerate() {
                        if n > 8 {
                            out.push(N::errc("NONTERMINATING"));
                            break;
                        }
                        out.push(match it {
                            Ok(Dyn(v)) => v,
                            Err(e) => errn(&e),
                        });
                    }
                    out
                })
                .unwrap_or_else(|p| vec![N::errc(&format!("PANIC:{p}"))]);
                if !items.is_empty() {
                    let rest: Vec<N> = items[1..].to_vec();
                    let first = rest.first().cloned().unwrap_or_else(|| N::errc("no-item-for-the-second-document"));
                    let multi = if first.is_err() { vec![first.clone()] } else { vec![N::leaf("ok", ""), first.clone()] };
                    stats.after += 1;
                    w.put(&Rec { id: format!("r{i}-after"), schema: &schema, yaml: &stream, raw: &doc2, str: first.clone(), wd: first, multi, read: rest });
                }
            }
        }
    }
    stats.records = w.n;
    w.finish();
    println!("{}", serde_json::to_string(&stats).unwrap());
    if stats.render_fail > 0 {
        return 2;
    }
    0
}

// ------------------------------------------------------------------------------------------
// C02 for typed targets: the same document with one sub-node reached through an alias must give the same typed result
// (records to TV_TypedAlias: {id, form, schema, araw, praw, plain, aliased})
// ------------------------------------------------------------------------------------------
#[derive(Serialize)]
struct ARec<'a> {
    id: String,
    /// "wrap": [ &a <node>, <document with *a in that node's place> ] read as (IgnoredAny, T); "inplace": a later identical
    /// sub-node replaced by an alias to the first, read as T
    form: &'a str,
    schema: &'a Schema,
    yaml: &'a str,
    plain_yaml: &'a str,
    araw: &'a [AEv],
    praw: &'a [AEv],
    plain: N,
    aliased: N,
}
/// second element of a two-element sequence, the first one discarded
struct Second(N);
impl<'de> Deserialize<'de> for Second {
    fn deserialize<D: serde::de::Deserializer<'de>>(d: D) -> Result<Second, D::Error> {
        struct V;
        impl<'de> serde::de::Visitor<'de> for V {
            type Value = Second;
            fn expecting(&self, f: &mut std::fmt::Formatter) -> std::fmt::Result {
                f.write_str("a pair")
            }
            fn visit_seq<A: serde::de::SeqAccess<'de>>(self, mut seq: A) -> Result<Second, A::Error> {
                let _first: serde::de::IgnoredAny = seq.next_element()?.ok_or_else(|| serde::de::Error::custom("first element missing"))?;
                let d: Dyn = seq.next_element()?.ok_or_else(|| serde::de::Error::custom("second element missing"))?;
                if seq.next_element::<serde::de::IgnoredAny>()?.is_some() {
                    return Err(serde::de::Error::custom("surplus element"));
                }
                Ok(Second(d.0))
            }
        }
        d.deserialize_tuple(2, V)
    }
}
/// paths (child indices; for a map entry 2*i = key, 2*i+1 = value) of all non-root nodes in pre-order
fn paths(n: &Node, cur: &mut Vec<usize>, out: &mut Vec<Vec<usize>>) {
    match n {
        Node::Seq { items, .. } => {
            for (i, x) in items.iter().enumerate() {
                cur.push(i);
                out.push(cur.clone());
                paths(x, cur, out);
                cur.pop();
            }
        }
        Node::Map { entries, .. } => {
            for (i, (k, v)) in entries.iter().enumerate() {
                cur.push(2 * i);
                out.push(cur.clone());
                paths(k, cur, out);
                cur.pop();
                cur.push(2 * i + 1);
                out.push(cur.clone());
                paths(v, cur, out);
                cur.pop();
            }
        }
        _ => {}
    }
}
fn node_at<'a>(n: &'a Node, p: &[usize]) -> &'a Node {
    if p.is_empty() {
        return n;
    }
    match n {
        Node::Seq { items, .. } => node_at(&items[p[0]], &p[1..]),
        Node::Map { entries, .. } => {
            let (k, v) = &entries[p[0] / 2];
            node_at(if p[0] % 2 == 0 { k } else { v }, &p[1..])
        }
        _ => n,
    }
}
fn replace_at(n: &Node, p: &[usize], with: &Node) -> Node {
    if p.is_empty() {
        return with.clone();
    }
    match n {
        Node::Seq { a, t, items } => Node::Seq { a: *a, t: t.clone(), items: items.iter().enumerate().map(|(i, x)| if i == p[0] { replace_at(x, &p[1..], with) } else { x.clone() }).collect() },
        Node::Map { a, t, entries } => Node::Map {
            a: *a,
            t: t.clone(),
            entries: entries.iter().enumerate().map(|(i, (k, v))| {
                if i == p[0] / 2 {
                    if p[0] % 2 == 0 { (replace_at(k, &p[1..], with), v.clone()) } else { (k.clone(), replace_at(v, &p[1..], with)) }
                } else {
                    (k.clone(), v.clone())
                }
            }).collect(),
        },
        other => other.clone(),
    }
}
fn with_anchor(n: &Node, id: u32) -> Node {
    match n {
        Node::Scalar { v, q, t, .. } => Node::Scalar { a: id, v: v.clone(), q: q.clone(), t: t.clone() },
        Node::Seq { t, items, .. } => Node::Seq { a: id, t: t.clone(), items: items.clone() },
        Node::Map { t, entries, .. } => Node::Map { a: id, t: t.clone(), entries: entries.clone() },
        other => other.clone(),
    }
}
fn same_events(a: &Node, b: &Node) -> bool {
    let (mut x, mut y) = (vec![], vec![]);
    events_from_node(a, &mut x);
    events_from_node(b, &mut y);
    x.len() == y.len() && x.iter().zip(&y).all(|(p, q)| p.k == q.k && p.v == q.v && p.q == q.q && p.t == q.t)
}
#[derive(Default, Serialize)]
struct AStats {
    records: usize,
    wrap: usize,
    inplace: usize,
    key_position: usize,
    ok_values: usize,
}

pub fn run_alias(args: &Args) -> i32 {
    let mut w = NdWriter::create(args.req("out"));
    let mut stats = AStats::default();
    let fam = schema_family();
    let mut rng = Rng::new(args.num("seed", 1));
    let nrand = args.num("random", 1000);
    for i in 0..nrand {
        let sd = 1 + rng.below(3);
        let schema = if i % 3 == 0 { rng.pick(&fam).clone() } else { random_schema(&mut rng, sd) };
        let mut node = matching(&schema, &mut rng);
        for _ in 0..rng.below(2) {
            let mut target = rng.below(count_nodes(&node)) as isize;
            node = mutate_at(&node, &mut target, &mut rng);
        }
        let mut all = vec![];
        paths(&node, &mut vec![], &mut all);
        if all.is_empty() {
            continue;
        }
        let mut praw = vec![];
        events_from_node(&node, &mut praw);
        let flow = rng.chance(1, 2);
        let plain_text = if flow { render_flow(&node, &Names(None)) } else { render_block(&node, &Names(None)) };
        if render_check(&plain_text, &praw).is_err() {
            continue;
        }
        SCHEMA.with(|c| *c.borrow_mut() = Some(schema.clone()));
        let t = plain_text.clone();
        let plain = guarded(move || match serde_saphyr::from_str::<Dyn>(&t) { Ok(Dyn(n)) => n, Err(e) => errn(&e) }).unwrap_or_else(|p| N::errc(&format!("PANIC:{p}")));
        // (1) wrap: one sub-node moved in front of the document and referred to by an alias
        {
            let p = rng.pick(&all).clone();
            let sub = node_at(&node, &p);
            // keys: only scalar keys are moved (an alias in key position)
            let is_key = p.last().map(|x| x % 2 == 0).unwrap_or(false) && matches!(node_at(&node, &p[..p.len() - 1]), Node::Map { .. });
            if !(is_key && !matches!(sub, Node::Scalar { .. })) {
                let aliased_doc = replace_at(&node, &p, &Node::Alias { a: 1 });
                let wrapped = Node::Seq { a: 0, t: String::new(), items: vec![with_anchor(sub, 1), aliased_doc] };
                let mut araw = vec![];
                events_from_node(&wrapped, &mut araw);
                let text = if flow { render_flow(&wrapped, &Names(None)) } else { render_block(&wrapped, &Names(None)) };
                if render_check(&text, &araw).is_ok() {
                    let t = text.clone();
                    let aliased = guarded(move || match serde_saphyr::from_str::<Second>(&t) { Ok(Second(n)) => n, Err(e) => errn(&e) }).unwrap_or_else(|p| N::errc(&format!("PANIC:{p}")));
                    if !aliased.is_err() { stats.ok_values += 1; }
                    if is_key { stats.key_position += 1; }
                    stats.wrap += 1;
                    w.put(&ARec { id: format!("w{i}"), form: "wrap", schema: &schema, yaml: &text, plain_yaml: &plain_text, araw: &araw, praw: &praw, plain: plain.clone(), aliased });
                }
            }
        }
        // (2) in place: a later sub-node identical to an earlier one becomes an alias to it
        'outer: for (ai, p) in all.iter().enumerate() {
            for q in all.iter().skip(ai + 1) {
                if q.starts_with(p) {
                    continue;
                }
                let (np, nq) = (node_at(&node, p), node_at(&node, q));
                let q_is_key = q.last().map(|x| x % 2 == 0).unwrap_or(false) && matches!(node_at(&node, &q[..q.len() - 1]), Node::Map { .. });
                if same_events(np, nq) && !(q_is_key && !matches!(nq, Node::Scalar { .. })) && rng.chance(1, 2) {
                    let d1 = replace_at(&node, q, &Node::Alias { a: 1 });
                    let d2 = replace_at(&d1, p, &with_anchor(np, 1));
                    let mut araw = vec![];
                    events_from_node(&d2, &mut araw);
                    let text = if flow { render_flow(&d2, &Names(None)) } else { render_block(&d2, &Names(None)) };
                    if render_check(&text, &araw).is_ok() {
                        let t = text.clone();
                        let aliased = guarded(move || match serde_saphyr::from_str::<Dyn>(&t) { Ok(Dyn(n)) => n, Err(e) => errn(&e) }).unwrap_or_else(|p| N::errc(&format!("PANIC:{p}")));
                        if !aliased.is_err() { stats.ok_values += 1; }
                        stats.inplace += 1;
                        w.put(&ARec { id: format!("p{i}"), form: "inplace", schema: &schema, yaml: &text, plain_yaml: &plain_text, araw: &araw, praw: &praw, plain: plain.clone(), aliased });
                    }
                    break 'outer;
                }
            }
        }
    }
    stats.records = w.n;
    w.finish();
    println!("{}", serde_json::to_string(&stats).unwrap());
    0
}

// ------------------------------------------------------------------------------------------
// C03 for typed targets: a mapping written with some of its entries supplied through `<<` must give the same typed result as
// the mapping written out in full (records to TV_TypedMerge: {id, form, schema, mraw, praw, plain, merged})
// ------------------------------------------------------------------------------------------
#[derive(Serialize)]
struct MRec<'a> {
    id: String,
    /// "inline": `<<: {..}` / `<<: [{..}, {..}]` in place; "wrap": [ &a {..}, document with `<<: *a` ] read as (IgnoredAny, T)
    form: &'a str,
    shadow: bool,
    schema: &'a Schema,
    yaml: &'a str,
    plain_yaml: &'a str,
    mraw: &'a [AEv],
    praw: &'a [AEv],
    plain: N,
    merged: N,
}
/// mapping nodes that sit at a struct / map position of the schema (paths as in `paths`)
fn merge_sites(s: &Schema, n: &Node, cur: &mut Vec<usize>, out: &mut Vec<Vec<usize>>) {
    match (s.t.as_str(), n) {
        ("Struct" | "Map", Node::Map { entries, .. }) => {
            if !entries.is_empty() && entries.iter().all(|(k, _)| matches!(k, Node::Scalar { v, .. } if v != "<<")) {
                out.push(cur.clone());
            }
            let names = ["a", "b", "c"];
            for (i, (k, v)) in entries.iter().enumerate() {
                let sub = if s.t == "Map" { Some(&s.ss[0]) } else { match k { Node::Scalar { v: kv, .. } => names.iter().position(|x| x == kv).and_then(|j| s.ss.get(j)), _ => None } };
                if let Some(sub) = sub {
                    cur.push(2 * i + 1);
                    merge_sites(sub, v, cur, out);
                    cur.pop();
                }
            }
        }
        ("Opt", _) => merge_sites(&s.ss[0], n, cur, out),
        ("Seq", Node::Seq { items, .. }) => {
            for (i, x) in items.iter().enumerate() {
                cur.push(i);
                merge_sites(&s.ss[0], x, cur, out);
                cur.pop();
            }
        }
        ("Tup", Node::Seq { items, .. }) => {
            for (i, x) in items.iter().enumerate() {
                if let Some(sub) = s.ss.get(i) {
                    cur.push(i);
                    merge_sites(sub, x, cur, out);
                    cur.pop();
                }
            }
        }
        _ => {}
    }
}
/// map entries sorted by key text at every level: merged entries are delivered after own ones, which only an
/// order-preserving target can see
fn sort_maps(n: &N) -> N {
    let mut a: Vec<N> = n.a.iter().map(sort_maps).collect();
    if n.c == "Map" {
        a.sort_by(|x, y| serde_json::to_string(&x.a.first()).unwrap_or_default().cmp(&serde_json::to_string(&y.a.first()).unwrap_or_default()));
    }
    N { c: n.c.clone(), s: n.s.clone(), a }
}
#[derive(Default, Serialize)]
struct MStats {
    records: usize,
    inline: usize,
    wrap: usize,
    shadowed: usize,
    ok_values: usize,
}
pub fn run_merge(args: &Args) -> i32 {
    let mut w = NdWriter::create(args.req("out"));
    let mut stats = MStats::default();
    let fam = schema_family();
    let mut rng = Rng::new(args.num("seed", 1));
    let nrand = args.num("random", 1000);
    let mapn2 = |entries: Vec<(Node, Node)>| Node::Map { a: 0, t: String::new(), entries };
    for i in 0..nrand {
        let sd = 1 + rng.below(3);
        let schema = if i % 3 == 0 { rng.pick(&fam).clone() } else { random_schema(&mut rng, sd) };
        let mut node = matching(&schema, &mut rng);
        if rng.chance(1, 4) {
            let mut target = rng.below(count_nodes(&node)) as isize;
            node = mutate_at(&node, &mut target, &mut rng);
        }
        let mut sites = vec![];
        merge_sites(&schema, &node, &mut vec![], &mut sites);
        // (a repeated key anywhere is C04's business and makes the delivery of the merged document a fault)
        if sites.is_empty() || crate::c03::has_repeated_key(&node) {
            continue;
        }
        let site = rng.pick(&sites).clone();
        let Node::Map { entries, .. } = node_at(&node, &site).clone() else { continue };
        // entries with distinct keys only (a repeated key is C04's business)
        let mut keys = std::collections::HashSet::new();
        if !entries.iter().all(|(k, _)| matches!(k, Node::Scalar { v, .. } if keys.insert(v.clone()))) {
            continue;
        }
        // split: `moved` go to the merge source(s), `own` stay
        let mut own = vec![];
        let mut moved = vec![];
        for e in entries.iter() {
            if rng.chance(1, 2) { moved.push(e.clone()); } else { own.push(e.clone()); }
        }
        if moved.is_empty() {
            moved.push(own.pop().unwrap());
        }
        // the mapping written out in full, in delivery order: own entries, then the merged ones
        let full = mapn2(own.iter().cloned().chain(moved.iter().cloned()).collect());
        let plain_doc = replace_at(&node, &site, &full);
        let mut praw = vec![];
        events_from_node(&plain_doc, &mut praw);
        let flow = rng.chance(1, 2);
        let plain_text = if flow { render_flow(&plain_doc, &Names(None)) } else { render_block(&plain_doc, &Names(None)) };
        if render_check(&plain_text, &praw).is_err() {
            continue;
        }
        // sources: one mapping, or a sequence of two; now and then a source also carries a key the mapping has itself (shadowed)
        let shadow = !own.is_empty() && rng.chance(1, 3);
        let mut src_entries = moved.clone();
        if shadow {
            let (k, _) = rng.pick(&own).clone();
            src_entries.insert(rng.below(src_entries.len() + 1), (k, sc("shadowed")));
        }
        let sources: Vec<Node> = if src_entries.len() >= 2 && rng.chance(1, 3) {
            let cut = 1 + rng.below(src_entries.len() - 1);
            let mut first = src_entries[..cut].to_vec();
            let second = src_entries[cut..].to_vec();
            // now and then the earlier source also carries a key of the later one: the later element of a merge sequence wins
            if rng.chance(1, 2) {
                let (k, _) = rng.pick(&second).clone();
                first.insert(rng.below(first.len() + 1), (k, sc("overridden")));
            }
            vec![mapn2(first), mapn2(second)]
        } else {
            vec![mapn2(src_entries)]
        };
        // now and then a source is itself written with a nested `<<` (own entries of a source win over what it merges in, whatever
        // the position of its `<<` line; two nested `<<` entries: the later wins)
        let sources: Vec<Node> = sources.into_iter().map(|src| {
            let Node::Map { entries, .. } = &src else { return src };
            if entries.is_empty() || !rng.chance(1, 3) { return src; }
            let mut keep = vec![];
            let mut inner = vec![];
            for e in entries.iter() { if rng.chance(1, 2) { inner.push(e.clone()); } else { keep.push(e.clone()); } }
            if inner.is_empty() { return src; }
            if !keep.is_empty() && rng.chance(1, 2) {
                let (k, _) = rng.pick(&keep).clone();
                inner.insert(rng.below(inner.len() + 1), (k, sc("inner-shadowed")));
            }
            if inner.len() >= 2 && rng.chance(1, 2) {
                // two nested merge entries sharing a key: the later one wins
                let cut = 1 + rng.below(inner.len() - 1);
                let mut i1 = inner[..cut].to_vec();
                let i2 = inner[cut..].to_vec();
                let (k, _) = rng.pick(&i2).clone();
                if !i1.iter().any(|(k1, _)| same_events(k1, &k)) { i1.push((k, sc("earlier-loses"))); }
                let at = rng.below(keep.len() + 1);
                keep.insert(at, (sc("<<"), mapn2(i1)));
                let at2 = at + 1 + rng.below(keep.len() - at);
                keep.insert(at2, (sc("<<"), mapn2(i2)));
            } else {
                keep.insert(rng.below(keep.len() + 1), (sc("<<"), mapn2(inner)));
            }
            mapn2(keep)
        }).collect();
        let wrap = rng.chance(1, 2);
        let merge_value = |srcs: &[Node]| if srcs.len() == 1 { srcs[0].clone() } else { Node::Seq { a: 0, t: String::new(), items: srcs.to_vec() } };
        let (mdoc, form) = if wrap {
            // the sources are defined in front of the document and referred to by aliases
            let anchored: Vec<Node> = sources.iter().enumerate().map(|(j, n)| with_anchor(n, j as u32 + 1)).collect();
            let refs: Vec<Node> = (0..sources.len()).map(|j| Node::Alias { a: j as u32 + 1 }).collect();
            let mut es = own.clone();
            es.insert(rng.below(es.len() + 1), (sc("<<"), merge_value(&refs)));
            let d = replace_at(&node, &site, &mapn2(es));
            (Node::Seq { a: 0, t: String::new(), items: vec![Node::Seq { a: 0, t: String::new(), items: anchored }, d] }, "wrap")
        } else {
            let mut es = own.clone();
            es.insert(rng.below(es.len() + 1), (sc("<<"), merge_value(&sources)));
            (replace_at(&node, &site, &mapn2(es)), "inline")
        };
        let mut mraw = vec![];
        events_from_node(&mdoc, &mut mraw);
        let text = if flow { render_flow(&mdoc, &Names(None)) } else { render_block(&mdoc, &Names(None)) };
        if render_check(&text, &mraw).is_err() {
            continue;
        }
        SCHEMA.with(|c| *c.borrow_mut() = Some(schema.clone()));
        let t = plain_text.clone();
        let plain = guarded(move || match serde_saphyr::from_str::<Dyn>(&t) { Ok(Dyn(n)) => n, Err(e) => errn(&e) }).unwrap_or_else(|p| N::errc(&format!("PANIC:{p}")));
        let t = text.clone();
        let merged = if wrap {
            guarded(move || match serde_saphyr::from_str::<Second>(&t) { Ok(Second(n)) => n, Err(e) => errn(&e) })
        } else {
            guarded(move || match serde_saphyr::from_str::<Dyn>(&t) { Ok(Dyn(n)) => n, Err(e) => errn(&e) })
        }
        .unwrap_or_else(|p| N::errc(&format!("PANIC:{p}")));
        if !merged.is_err() { stats.ok_values += 1; }
        if wrap { stats.wrap += 1; } else { stats.inline += 1; }
        if shadow { stats.shadowed += 1; }
        w.put(&MRec { id: format!("m{i}"), form, shadow, schema: &schema, yaml: &text, plain_yaml: &plain_text, mraw: &mraw, praw: &praw, plain: sort_maps(&plain), merged: sort_maps(&merged) });
    }
    stats.records = w.n;
    w.finish();
    println!("{}", serde_json::to_string(&stats).unwrap());
    0
}
