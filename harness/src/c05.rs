//! C05 — typed deserialization is position-faithful.
//! cases (from MC_TypedCursor): {doc:[ev]} ; records (to TV_TypedCursor): {id, schema, yaml, raw, str, multi, read}
use crate::docgen::*;
use crate::model::*;
use crate::schema::*;
use crate::Args;
use serde::de::DeserializeSeed;
use serde::{Deserialize, Serialize};
use std::cell::RefCell;

thread_local! {
    static SCHEMA: RefCell<Option<Schema>> = const { RefCell::new(None) };
}
/// A type whose `Deserialize` follows the thread-local schema (entry points that need a type, not a seed).
pub struct Dyn(pub N);
impl<'de> Deserialize<'de> for Dyn {
    fn deserialize<D: serde::de::Deserializer<'de>>(d: D) -> Result<Dyn, D::Error> {
        let s = SCHEMA.with(|c| c.borrow().clone()).expect("schema set");
        Seed(&s).deserialize(d).map(Dyn)
    }
}

#[derive(Deserialize)]
struct Case {
    doc: Vec<AEv>,
}
#[derive(Serialize)]
struct Rec<'a> {
    id: String,
    schema: &'a Schema,
    yaml: &'a str,
    raw: &'a [AEv],
    /// from_str::<T>
    str: N,
    /// with_deserializer_from_str
    wd: N,
    /// from_multiple::<T>: ["ok", v..] | ["err"]
    multi: Vec<N>,
    /// read::<_, T>: items
    read: Vec<N>,
}

fn errn(e: &serde_saphyr::Error) -> N {
    N::errc(&classify(e))
}

pub fn observe(schema: &Schema, text: &str) -> (N, N, Vec<N>, Vec<N>) {
    SCHEMA.with(|c| *c.borrow_mut() = Some(schema.clone()));
    let t = text.to_string();
    let s1 = guarded(move || match serde_saphyr::from_str::<Dyn>(&t) {
        Ok(Dyn(n)) => n,
        Err(e) => errn(&e),
    })
    .unwrap_or_else(|p| N::errc(&format!("PANIC:{p}")));
    let t = text.to_string();
    let sc = schema.clone();
    let s2 = guarded(move || match serde_saphyr::with_deserializer_from_str(&t, |de| Seed(&sc).deserialize(de)) {
        Ok(n) => n,
        Err(e) => errn(&e),
    })
    .unwrap_or_else(|p| N::errc(&format!("PANIC:{p}")));
    let t = text.to_string();
    let m = guarded(move || match serde_saphyr::from_multiple::<Dyn>(&t) {
        Ok(vs) => std::iter::once(N::leaf("ok", "")).chain(vs.into_iter().map(|d| d.0)).collect::<Vec<_>>(),
        Err(e) => vec![errn(&e)],
    })
    .unwrap_or_else(|p| vec![N::errc(&format!("PANIC:{p}"))]);
    let t = text.to_string();
    let r = guarded(move || {
        let mut rd = std::io::Cursor::new(t.into_bytes());
        let mut out = vec![];
        for (n, it) in serde_saphyr::read::<_, Dyn>(&mut rd).enumerate() {
            if n > 8 {
                out.push(N::errc("NONTERMINATING"));
                break;
            }
            out.push(match it {
                Ok(Dyn(v)) => v,
                Err(e) => errn(&e),
            });
        }
        out
    })
    .unwrap_or_else(|p| vec![N::errc(&format!("PANIC:{p}"))]);
    (s1, s2, m, r)
}

fn l(t: &str) -> Schema {
    Schema::leaf(t)
}
fn o(t: &str, ss: Vec<Schema>) -> Schema {
    Schema::of(t, ss)
}
pub fn enum_of(n: Schema, t1: Schema, t2: Schema, a: Schema) -> Schema {
    o("Enum", vec![n, t1, t2, a])
}

/// the fixed schema family used for the exhaustive product with TLC's documents
pub fn schema_family() -> Vec<Schema> {
    let d0 = vec![l("Bool"), l("Int"), l("Str"), l("Unit")];
    let e0 = enum_of(l("Int"), l("Int"), l("Str"), l("Int"));
    let mut v = d0.clone();
    v.push(e0.clone());
    for b in d0.iter().chain(std::iter::once(&e0)) {
        v.push(o("Opt", vec![b.clone()]));
        v.push(o("Seq", vec![b.clone()]));
        v.push(o("Map", vec![b.clone()]));
    }
    v.push(o("Tup", vec![l("Int"), l("Int")]));
    v.push(o("Tup", vec![l("Int"), l("Str")]));
    v.push(o("Tup", vec![l("Str"), l("Int"), l("Int")]));
    v.push(o("Tup", vec![l("Int")]));
    v.push(o("Struct", vec![l("Int")]));
    v.push(o("Struct", vec![l("Int"), l("Int")]));
    v.push(o("Struct", vec![l("Int"), o("Opt", vec![l("Int")])]));
    v.push(o("Struct", vec![o("Opt", vec![l("Str")]), o("Seq", vec![l("Int")])]));
    // depth 2
    v.push(o("Seq", vec![o("Tup", vec![l("Int"), l("Int")])]));
    v.push(o("Tup", vec![o("Tup", vec![l("Int"), l("Int")]), l("Int")]));
    v.push(o("Tup", vec![o("Tup", vec![l("Int"), l("Int")])]));
    v.push(o("Tup", vec![o("Seq", vec![l("Int")]), l("Int")]));
    v.push(o("Opt", vec![o("Seq", vec![l("Int")])]));
    v.push(o("Seq", vec![o("Opt", vec![l("Int")])]));
    v.push(o("Seq", vec![o("Seq", vec![l("Int")])]));
    v.push(o("Map", vec![o("Seq", vec![l("Int")])]));
    v.push(o("Map", vec![o("Opt", vec![l("Int")])]));
    v.push(o("Struct", vec![o("Tup", vec![l("Int"), l("Int")]), l("Int")]));
    v.push(o("Seq", vec![o("Struct", vec![l("Int"), l("Int")])]));
    v.push(o("Struct", vec![o("Struct", vec![l("Int")]), o("Opt", vec![l("Unit")])]));
    v.push(enum_of(o("Tup", vec![l("Int"), l("Int")]), l("Int"), l("Int"), o("Opt", vec![l("Int")])));
    v.push(enum_of(o("Seq", vec![l("Int")]), l("Str"), l("Str"), l("Str")));
    v.push(o("Seq", vec![e0.clone()]));
    v.push(o("Tup", vec![e0.clone(), l("Int")]));
    v.push(o("Opt", vec![o("Opt", vec![l("Int")])]));
    // enums whose newtype payload can be built from nothing, in positions with following siblings
    let eo = enum_of(o("Opt", vec![l("Bool")]), l("Int"), l("Int"), l("Int"));
    let eu = enum_of(l("Unit"), l("Int"), l("Int"), l("Int"));
    for e in [eo, eu] {
        v.push(o("Seq", vec![e.clone()]));
        v.push(o("Map", vec![e.clone()]));
        v.push(o("Tup", vec![l("Int"), e.clone(), l("Bool")]));
        v.push(o("Struct", vec![e.clone(), l("Int")]));
    }
    v
}

// ------------------------------------------------------------------------------------------
// schema-directed near-miss generator
// ------------------------------------------------------------------------------------------
fn sc(v: &str) -> Node {
    Node::Scalar { a: 0, v: v.into(), q: "p".into(), t: String::new() }
}
fn seqn(items: Vec<Node>) -> Node {
    Node::Seq { a: 0, t: String::new(), items }
}
fn mapn(entries: Vec<(Node, Node)>) -> Node {
    Node::Map { a: 0, t: String::new(), entries }
}
pub fn random_schema(rng: &mut Rng, depth: usize) -> Schema {
    let leaves = ["Bool", "Int", "Str", "Unit"];
    if depth == 0 || rng.chance(1, 4) {
        return l(rng.pick_str(&leaves));
    }
    match rng.below(7) {
        0 => o("Opt", vec![random_schema(rng, depth - 1)]),
        1 => o("Seq", vec![random_schema(rng, depth - 1)]),
        2 => o("Map", vec![random_schema(rng, depth - 1)]),
        3 => {
            let n = 1 + rng.below(3);
            o("Tup", (0..n).map(|_| random_schema(rng, depth - 1)).collect())
        }
        4 => {
            let n = 1 + rng.below(3);
            o("Struct", (0..n).map(|_| random_schema(rng, depth - 1)).collect())
        }
        _ => enum_of(random_schema(rng, depth - 1), random_schema(rng, depth - 1), random_schema(rng, depth - 1), random_schema(rng, depth - 1)),
    }
}
/// a document that matches the schema
pub fn matching(s: &Schema, rng: &mut Rng) -> Node {
    match s.t.as_str() {
        "Bool" => sc(if rng.chance(1, 2) { "true" } else { "false" }),
        "Int" => sc(&rng.below(10).to_string()),
        "Str" => sc(rng.pick_str(&["x", "w", "hello", "1", "true"])),
        "Unit" => sc(rng.pick_str(&["~", "null"])),
        "Opt" => {
            if rng.chance(1, 3) {
                sc("~")
            } else {
                matching(&s.ss[0], rng)
            }
        }
        "Seq" => {
            let n = rng.below(4);
            seqn((0..n).map(|_| matching(&s.ss[0], rng)).collect())
        }
        "Tup" => seqn(s.ss.iter().map(|x| matching(x, rng)).collect()),
        "Map" => {
            let keys = ["k", "m", "p", "q"];
            let n = rng.below(4);
            mapn((0..n).map(|i| (sc(keys[i]), matching(&s.ss[0], rng))).collect())
        }
        "Struct" => {
            let names = ["a", "b", "c"];
            let mut es: Vec<(Node, Node)> = s.ss.iter().enumerate().map(|(i, x)| (sc(names[i]), matching(x, rng))).collect();
            if rng.chance(1, 3) {
                es.reverse();
            }
            mapn(es)
        }
        "Enum" => match rng.below(8) {
            // bare variant names, also for variants that carry a payload (near misses; a newtype variant with an
            // optional or unit payload accepts the bare form)
            5 => sc("Nw"),
            6 => sc("T"),
            7 => sc("St"),
            0 => sc("U"),
            1 => mapn(vec![(sc("U"), sc("~"))]),
            2 => mapn(vec![(sc("Nw"), matching(&s.ss[0], rng))]),
            3 => mapn(vec![(sc("T"), seqn(vec![matching(&s.ss[1], rng), matching(&s.ss[2], rng)]))]),
            _ => mapn(vec![(sc("St"), mapn(vec![(sc("a"), matching(&s.ss[3], rng))]))]),
        },
        _ => sc("?"),
    }
}
fn count_nodes(n: &Node) -> usize {
    match n {
        Node::Seq { items, .. } => 1 + items.iter().map(count_nodes).sum::<usize>(),
        Node::Map { entries, .. } => 1 + entries.iter().map(|(k, v)| count_nodes(k) + count_nodes(v)).sum::<usize>(),
        _ => 1,
    }
}
/// applies one near-miss mutation at the `target`-th node (pre-order)
fn mutate_at(n: &Node, target: &mut isize, rng: &mut Rng) -> Node {
    let here = *target == 0;
    *target -= 1;
    if here {
        return match n {
            Node::Seq { items, .. } => {
                let mut it = items.clone();
                match rng.below(5) {
                    0 => {
                        it.push(sc(rng.pick_str(&["1", "x", "~"])));
                    }
                    1 if !it.is_empty() => {
                        it.pop();
                    }
                    2 if !it.is_empty() => {
                        let i = rng.below(it.len());
                        it.insert(i, it[i].clone());
                    }
                    3 => return sc("~"),
                    _ => return mapn(vec![(sc("a"), seqn(it))]),
                }
                seqn(it)
            }
            Node::Map { entries, .. } => {
                let mut es = entries.clone();
                match rng.below(6) {
                    0 => es.push((sc(rng.pick_str(&["zz", "c", "U", "b"])), sc(rng.pick_str(&["1", "x", "~"])))),
                    1 if !es.is_empty() => {
                        es.pop();
                    }
                    2 if !es.is_empty() => {
                        let i = rng.below(es.len());
                        es[i].0 = sc(rng.pick_str(&["zz", "X", "Nw", "T", "a", "b"]));
                    }
                    3 => return sc("~"),
                    4 => return seqn(es.into_iter().map(|(_, v)| v).collect()),
                    _ if !es.is_empty() => {
                        let i = rng.below(es.len());
                        let d = es[i].clone();
                        es.push(d);
                    }
                    _ => {}
                }
                mapn(es)
            }
            Node::Scalar { v, .. } => match rng.below(5) {
                0 => sc(rng.pick_str(&["1", "x", "~", "true", "U", "Nw", "null", ""])),
                1 => seqn(vec![sc(v)]),
                2 => mapn(vec![(sc(v), sc("1"))]),
                3 => Node::Scalar { a: 0, v: v.clone(), q: "d".into(), t: String::new() },
                _ => seqn(vec![]),
            },
            other => other.clone(),
        };
    }
    match n {
        Node::Seq { a, t, items } => Node::Seq { a: *a, t: t.clone(), items: items.iter().map(|x| mutate_at(x, target, rng)).collect() },
        Node::Map { a, t, entries } => Node::Map { a: *a, t: t.clone(), entries: entries.iter().map(|(k, v)| (mutate_at(k, target, rng), mutate_at(v, target, rng))).collect() },
        other => other.clone(),
    }
}

#[derive(Default, Serialize)]
struct Stats {
    cases: usize,
    schemas: usize,
    records: usize,
    nontrivial: usize,
    ok_values: usize,
    render_fail: usize,
    samples: Vec<serde_json::Value>,
}

pub fn run(args: &Args) -> i32 {
    let out = args.req("out");
    let mut w = NdWriter::create(out);
    let mut stats = Stats::default();
    let fam = schema_family();
    stats.schemas = fam.len();
    let mut seen = std::collections::HashSet::new();
    let mut one = |id: String, schema: &Schema, text: &str, raw: &[AEv], w: &mut NdWriter, stats: &mut Stats| {
        let (s1, s2, m, r) = observe(schema, text);
        let key = format!("{}|{}", serde_json::to_string(schema).unwrap(), text);
        if seen.insert(key) {
            stats.nontrivial += 1;
        }
        if !s1.is_err() {
            stats.ok_values += 1;
        }
        w.put(&Rec { id, schema, yaml: text, raw, str: s1, wd: s2, multi: m, read: r });
    };
    if let Some(cases) = args.get("cases") {
        let cases: Vec<Case> = read_ndjson(cases);
        for (i, c) in cases.iter().enumerate() {
            stats.cases += 1;
            let nodes = nodes_from_events(&c.doc).unwrap();
            let text = if i % 2 == 0 { render_flow(&nodes[0], &Names(None)) } else { render_block(&nodes[0], &Names(None)) };
            if let Err(e) = render_check(&text, &c.doc) {
                stats.render_fail += 1;
                eprintln!("RENDER-CHECK c{i}: {e}");
                continue;
            }
            for (si, s) in fam.iter().enumerate() {
                one(format!("c{i}-s{si}"), s, &text, &c.doc, &mut w, &mut stats);
            }
        }
    }
    let nrand = args.num("random", 0);
    let mut rng = Rng::new(args.num("seed", 1));
    for i in 0..nrand {
        let sd = 1 + rng.below(3);
        let schema = if i % 3 == 0 { rng.pick(&fam).clone() } else { random_schema(&mut rng, sd) };
        let base = matching(&schema, &mut rng);
        let nmut = rng.below(3); // 0 = exact match
        let mut node = base;
        for _ in 0..nmut {
            let mut target = rng.below(count_nodes(&node)) as isize;
            node = mutate_at(&node, &mut target, &mut rng);
        }
        let mut doc = vec![];
        events_from_node(&node, &mut doc);
        let text = if rng.chance(1, 2) { render_flow(&node, &Names(None)) } else { render_block(&node, &Names(None)) };
        if render_check(&text, &doc).is_err() {
            // e.g. an empty plain scalar in flow context: not renderable this way, skip
            continue;
        }
        if stats.samples.len() < 5 && nmut > 0 && schema.depth() >= 3 {
            stats.samples.push(serde_json::json!({"id": format!("r{i}"), "schema": schema, "yaml": text}));
        }
        one(format!("r{i}"), &schema, &text, &doc, &mut w, &mut stats);
    }
    stats.records = w.n;
    w.finish();
    println!("{}", serde_json::to_string(&stats).unwrap());
    if stats.render_fail > 0 {
        return 2;
    }
    0
}
