//! Run-time type descriptions with a `DeserializeSeed` that issues exactly the typed
//! `deserialize_*` calls a derived `Deserialize` impl would, and returns a uniform {c,s,a} value.
//! Mirrors the schema grammar of spec/TypedCursor.tla.
use crate::model::N;
use serde::de::{self, DeserializeSeed, EnumAccess, MapAccess, SeqAccess, VariantAccess, Visitor};
use serde::{Deserialize, Serialize};
use std::fmt;

#[derive(Serialize, Deserialize, Clone, Debug, PartialEq)]
pub struct Schema {
    pub t: String,
    #[serde(default)]
    pub ss: Vec<Schema>,
}
impl Schema {
    pub fn leaf(t: &str) -> Schema {
        Schema { t: t.into(), ss: vec![] }
    }
    pub fn of(t: &str, ss: Vec<Schema>) -> Schema {
        Schema { t: t.into(), ss }
    }
    pub fn depth(&self) -> usize {
        1 + self.ss.iter().map(|s| s.depth()).max().unwrap_or(0)
    }
}

pub const FIELDS1: &[&str] = &["a"];
pub const FIELDS2: &[&str] = &["a", "b"];
pub const FIELDS3: &[&str] = &["a", "b", "c"];
pub const VARIANTS: &[&str] = &["U", "Nw", "T", "St"];
fn fields(n: usize) -> &'static [&'static str] {
    match n {
        1 => FIELDS1,
        2 => FIELDS2,
        _ => FIELDS3,
    }
}

pub struct Seed<'a>(pub &'a Schema);

impl<'de, 'a> DeserializeSeed<'de> for Seed<'a> {
    type Value = N;
    fn deserialize<D: de::Deserializer<'de>>(self, d: D) -> Result<N, D::Error> {
        let s = self.0;
        match s.t.as_str() {
            "Bool" => d.deserialize_bool(Prim),
            "Int" => d.deserialize_i64(Prim),
            "Str" => d.deserialize_string(Prim),
            "Unit" => d.deserialize_unit(Prim),
            "Opt" => d.deserialize_option(OptV(&s.ss[0])),
            "Seq" => d.deserialize_seq(SeqV(&s.ss[0])),
            "Tup" => d.deserialize_tuple(s.ss.len(), TupV(&s.ss, "Tup")),
            "Map" => d.deserialize_map(MapV(&s.ss[0])),
            "Struct" => d.deserialize_struct("S", fields(s.ss.len()), StructV(&s.ss, "Struct")),
            "Enum" => d.deserialize_enum("E", VARIANTS, EnumV(s)),
            other => Err(de::Error::custom(format!("bad schema {other}"))),
        }
    }
}

struct Prim;
impl<'de> Visitor<'de> for Prim {
    type Value = N;
    fn expecting(&self, f: &mut fmt::Formatter) -> fmt::Result {
        f.write_str("a primitive")
    }
    fn visit_bool<E>(self, v: bool) -> Result<N, E> {
        Ok(N::leaf("B", if v { "true" } else { "false" }))
    }
    fn visit_i64<E>(self, v: i64) -> Result<N, E> {
        Ok(N::leaf("I", &v.to_string()))
    }
    fn visit_u64<E>(self, v: u64) -> Result<N, E> {
        Ok(N::leaf("I", &v.to_string()))
    }
    fn visit_str<E>(self, v: &str) -> Result<N, E> {
        Ok(N::leaf("S", v))
    }
    fn visit_unit<E>(self) -> Result<N, E> {
        Ok(N::leaf("Unit", ""))
    }
}

struct OptV<'a>(&'a Schema);
impl<'de, 'a> Visitor<'de> for OptV<'a> {
    type Value = N;
    fn expecting(&self, f: &mut fmt::Formatter) -> fmt::Result {
        f.write_str("option")
    }
    fn visit_none<E>(self) -> Result<N, E> {
        Ok(N::leaf("None", ""))
    }
    fn visit_unit<E>(self) -> Result<N, E> {
        Ok(N::leaf("None", ""))
    }
    fn visit_some<D: de::Deserializer<'de>>(self, d: D) -> Result<N, D::Error> {
        Ok(N::new("Some", "", vec![Seed(self.0).deserialize(d)?]))
    }
}

struct SeqV<'a>(&'a Schema);
impl<'de, 'a> Visitor<'de> for SeqV<'a> {
    type Value = N;
    fn expecting(&self, f: &mut fmt::Formatter) -> fmt::Result {
        f.write_str("sequence")
    }
    fn visit_seq<A: SeqAccess<'de>>(self, mut seq: A) -> Result<N, A::Error> {
        let mut v = vec![];
        while let Some(x) = seq.next_element_seed(Seed(self.0))? {
            v.push(x);
        }
        Ok(N::new("Seq", "", v))
    }
}

/// like a derived tuple visitor: reads exactly `len` elements, never asks for more
struct TupV<'a>(&'a [Schema], &'static str);
impl<'de, 'a> Visitor<'de> for TupV<'a> {
    type Value = N;
    fn expecting(&self, f: &mut fmt::Formatter) -> fmt::Result {
        write!(f, "tuple of {}", self.0.len())
    }
    fn visit_seq<A: SeqAccess<'de>>(self, mut seq: A) -> Result<N, A::Error> {
        let mut v = vec![];
        for (i, s) in self.0.iter().enumerate() {
            match seq.next_element_seed(Seed(s))? {
                Some(x) => v.push(x),
                None => return Err(de::Error::invalid_length(i, &self)),
            }
        }
        Ok(N::new(self.1, "", v))
    }
}

struct KeyStr;
impl<'de> DeserializeSeed<'de> for KeyStr {
    type Value = String;
    fn deserialize<D: de::Deserializer<'de>>(self, d: D) -> Result<String, D::Error> {
        String::deserialize(d)
    }
}

struct MapV<'a>(&'a Schema);
impl<'de, 'a> Visitor<'de> for MapV<'a> {
    type Value = N;
    fn expecting(&self, f: &mut fmt::Formatter) -> fmt::Result {
        f.write_str("map")
    }
    fn visit_map<A: MapAccess<'de>>(self, mut map: A) -> Result<N, A::Error> {
        let mut v = vec![];
        while let Some(k) = map.next_key_seed(KeyStr)? {
            let x = map.next_value_seed(Seed(self.0))?;
            v.push(N::new("P", "", vec![N::leaf("S", &k), x]));
        }
        Ok(N::new("Map", "", v))
    }
}

/// field identifier like a derived one: index of a known field or "ignore"
struct FieldId(&'static [&'static str]);
impl<'de> DeserializeSeed<'de> for FieldId {
    type Value = Option<usize>;
    fn deserialize<D: de::Deserializer<'de>>(self, d: D) -> Result<Option<usize>, D::Error> {
        struct V(&'static [&'static str]);
        impl<'de> Visitor<'de> for V {
            type Value = Option<usize>;
            fn expecting(&self, f: &mut fmt::Formatter) -> fmt::Result {
                f.write_str("field identifier")
            }
            fn visit_str<E>(self, v: &str) -> Result<Option<usize>, E> {
                Ok(self.0.iter().position(|f| *f == v))
            }
            fn visit_u64<E>(self, v: u64) -> Result<Option<usize>, E> {
                Ok(if (v as usize) < self.0.len() { Some(v as usize) } else { None })
            }
            fn visit_bytes<E>(self, v: &[u8]) -> Result<Option<usize>, E> {
                Ok(self.0.iter().position(|f| f.as_bytes() == v))
            }
        }
        d.deserialize_identifier(V(self.0))
    }
}

/// like a derived struct visitor (no deny_unknown_fields): unknown keys ignored, duplicate field error,
/// missing Option field = None, missing other field = error
struct StructV<'a>(&'a [Schema], &'static str);
impl<'de, 'a> Visitor<'de> for StructV<'a> {
    type Value = N;
    fn expecting(&self, f: &mut fmt::Formatter) -> fmt::Result {
        f.write_str("struct")
    }
    fn visit_map<A: MapAccess<'de>>(self, mut map: A) -> Result<N, A::Error> {
        let names = fields(self.0.len());
        let mut slots: Vec<Option<N>> = vec![None; self.0.len()];
        while let Some(k) = map.next_key_seed(FieldId(names))? {
            match k {
                Some(i) => {
                    if slots[i].is_some() {
                        return Err(de::Error::duplicate_field(names[i]));
                    }
                    slots[i] = Some(map.next_value_seed(Seed(&self.0[i]))?);
                }
                None => {
                    let _ = map.next_value::<de::IgnoredAny>()?;
                }
            }
        }
        let mut v = vec![];
        for (i, s) in slots.into_iter().enumerate() {
            match s {
                Some(x) => v.push(x),
                None if self.0[i].t == "Opt" => v.push(N::leaf("None", "")),
                None => return Err(de::Error::missing_field(names[i])),
            }
        }
        Ok(N::new(self.1, "", v))
    }
    fn visit_seq<A: SeqAccess<'de>>(self, mut seq: A) -> Result<N, A::Error> {
        // derived struct visitors also accept a sequence of the fields in order
        let mut v = vec![];
        for (i, s) in self.0.iter().enumerate() {
            match seq.next_element_seed(Seed(s))? {
                Some(x) => v.push(x),
                None => return Err(de::Error::invalid_length(i, &self)),
            }
        }
        Ok(N::new(self.1, "", v))
    }
}

struct VariantId;
impl<'de> DeserializeSeed<'de> for VariantId {
    type Value = usize;
    fn deserialize<D: de::Deserializer<'de>>(self, d: D) -> Result<usize, D::Error> {
        struct V;
        impl<'de> Visitor<'de> for V {
            type Value = usize;
            fn expecting(&self, f: &mut fmt::Formatter) -> fmt::Result {
                f.write_str("variant identifier")
            }
            fn visit_str<E: de::Error>(self, v: &str) -> Result<usize, E> {
                VARIANTS.iter().position(|x| *x == v).ok_or_else(|| de::Error::unknown_variant(v, VARIANTS))
            }
            fn visit_u64<E: de::Error>(self, v: u64) -> Result<usize, E> {
                if (v as usize) < VARIANTS.len() { Ok(v as usize) } else { Err(de::Error::invalid_value(de::Unexpected::Unsigned(v), &"variant index")) }
            }
            fn visit_bytes<E: de::Error>(self, v: &[u8]) -> Result<usize, E> {
                VARIANTS.iter().position(|x| x.as_bytes() == v).ok_or_else(|| de::Error::custom("unknown variant"))
            }
        }
        d.deserialize_identifier(V)
    }
}

struct EnumV<'a>(&'a Schema);
impl<'de, 'a> Visitor<'de> for EnumV<'a> {
    type Value = N;
    fn expecting(&self, f: &mut fmt::Formatter) -> fmt::Result {
        f.write_str("enum")
    }
    fn visit_enum<A: EnumAccess<'de>>(self, data: A) -> Result<N, A::Error> {
        let s = self.0;
        let (idx, va) = data.variant_seed(VariantId)?;
        match idx {
            0 => {
                va.unit_variant()?;
                Ok(N::leaf("U", ""))
            }
            1 => Ok(N::new("Nw", "", vec![va.newtype_variant_seed(Seed(&s.ss[0]))?])),
            2 => va.tuple_variant(2, TupV(&s.ss[1..3], "T")),
            _ => va.struct_variant(FIELDS1, StructV(&s.ss[3..4], "St")),
        }
    }
}
