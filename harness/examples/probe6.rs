mod g {
    use garde::Validate;
    use serde::Deserialize;
    #[derive(Deserialize, Debug, Validate, PartialEq)]
    pub struct Inner {
        #[garde(length(min = 2))]
        pub name: String,
        #[garde(range(min = 1, max = 9))]
        #[serde(rename = "maxCount")]
        pub max_count: i32,
    }
    #[derive(Deserialize, Debug, Validate, PartialEq)]
    pub struct Outer {
        #[garde(dive)]
        pub first: Inner,
        #[garde(dive)]
        pub items: Vec<Inner>,
        #[garde(length(min = 1))]
        pub tag: String,
    }
}
mod v {
    use serde::Deserialize;
    use validator::Validate;
    #[derive(Deserialize, Debug, Validate, PartialEq)]
    pub struct Inner {
        #[validate(length(min = 2))]
        pub name: String,
        #[validate(range(min = 1, max = 9))]
        #[serde(rename = "maxCount")]
        pub max_count: i32,
    }
    #[derive(Deserialize, Debug, Validate, PartialEq)]
    pub struct Outer {
        #[validate(nested)]
        pub first: Inner,
        #[validate(nested)]
        pub items: Vec<Inner>,
        #[validate(length(min = 1))]
        pub tag: String,
    }
}
fn main() {
    let y = "base: &b {name: x, maxCount: 20}\nfirst: *b\nitems:\n  - {name: ok, maxCount: 0}\n  - <<: *b\n    name: zz\ntag: \"\"\n";
    let mut o = serde_saphyr::Options::default();
    o.with_snippet = false;
    match serde_saphyr::from_str_with_options_valid::<g::Outer>(y, o.clone()) { Ok(v) => println!("{v:?}"), Err(e) => println!("GARDE:\n{e}\n--debug: {:?}", e) }
    match serde_saphyr::from_str_with_options_validate::<v::Outer>(y, o) { Ok(v) => println!("{v:?}"), Err(e) => println!("VALIDATOR:\n{e}") }
    match serde_saphyr::from_str_valid::<g::Outer>(y) { Ok(v) => println!("{v:?}"), Err(e) => println!("GARDE snippet:\n{e}") }
}
