use serde_saphyr::Spanned;
use std::collections::HashMap;
fn main() {
    for y in ["{<< : [{m : v}], k : w}\n", "{k : w, << : [{m : v}]}\n", "{<< : {p : q}, << : [{m : v}]}\n", "x: {<< : [{m : v}, {n : v}]}\n"] {
        println!("{y:?}");
        match serde_saphyr::from_str::<serde_saphyr::Spanned<serde::de::IgnoredAny>>(y) { _ => {} }
        if y.starts_with('x') {
            let r = serde_saphyr::from_str::<HashMap<String, HashMap<String, Spanned<String>>>>(y).unwrap();
            for (k, v) in &r["x"] { println!("  {k}: ref {}:{} def {}:{}", v.referenced.line(), v.referenced.column(), v.defined.line(), v.defined.column()); }
        } else {
            let r = serde_saphyr::from_str::<HashMap<String, Spanned<String>>>(y).unwrap();
            for (k, v) in &r { println!("  {k}: ref {}:{} def {}:{}", v.referenced.line(), v.referenced.column(), v.defined.line(), v.defined.column()); }
        }
    }
}
