mod g {
    use garde::Validate;
    use serde::Deserialize;
    #[derive(Deserialize, Debug, Validate, PartialEq)]
    pub struct Outer {
        #[garde(length(min = 1))]
        pub tag: String,
    }
}
fn main() {
    let y = "tag: \"\"\n";
    let e = serde_saphyr::from_reader_valid::<_, g::Outer>(std::io::Cursor::new(y.as_bytes().to_vec())).unwrap_err();
    println!("READER:\n{e}\n");
    let e = serde_saphyr::from_str_valid::<g::Outer>(y).unwrap_err();
    println!("STR:\n{e}");
}
