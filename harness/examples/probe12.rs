use serde_saphyr::Spanned;
use std::collections::HashMap;
fn main() {
    type T = HashMap<String, Spanned<String>>;
    for y in ["{k : &n x, j : *n, << : [{m : v}]}\n", "{k : &n x, j : *n, << : {m : v}}\n", "{k : &n x, j : *n, i : y, << : [{m : v}]}\n", "{k : &n x, << : [{m : v}], j : *n}\n", "{<< : {a : b}, k : &n x, j : *n, << : [{m : v, n : w}]}\n"] {
        println!("{y:?}");
        match serde_saphyr::from_str::<T>(y) { Ok(m) => { for (k, v) in &m { println!("  {k}: ref {}:{} def {}:{}", v.referenced.line(), v.referenced.column(), v.defined.line(), v.defined.column()); } }, Err(e) => println!("err {e}") }
    }
}
