use std::io::Read;
fn main() {
    let a: Vec<String> = std::env::args().collect();
    let text = a[1].replace("\\n", "\n");
    let mode = a.get(2).map(|s| s.as_str()).unwrap_or("str");
    if mode == "str" {
        let r = serde_saphyr::from_str::<serde_json::Value>(&text);
        println!("{:?}", r.map_err(|e| e.to_string()));
    } else if mode == "multi" {
        let r = serde_saphyr::from_multiple::<serde_json::Value>(&text);
        println!("{:?}", r.map_err(|e| e.to_string()));
    } else {
        let rd = std::io::Cursor::new(text.into_bytes());
        let mut rd = rd.take(1 << 20);
        let it = serde_saphyr::read::<_, serde_json::Value>(&mut rd);
        for (i, x) in it.enumerate() { println!("{i} {:?}", x.map_err(|e| e.to_string())); if i > 5 { break; } }
    }
}
