use serde::Deserialize;
#[derive(Deserialize, Debug)]
#[allow(dead_code)]
struct Inner { name: String, #[serde(rename = "maxCount")] max_count: i32 }
#[derive(Deserialize, Debug)]
#[allow(dead_code)]
struct Outer { first: Inner, tag: String }
fn main() {
    for y in ["first: {name: y, maxCount: 0}\ntag: t\n", "tag: t\nfirst:\n  name: long name\n  maxCount: 1\n", "{tag : t1, first : {name : y, maxCount : 0}}\n"] {
        println!("{:?}", serde_saphyr::from_str::<Outer>(y).map_err(|e| e.to_string()));
    }
}
