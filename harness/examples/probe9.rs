fn main() {
    for d in [100usize, 200, 400, 800, 1600] {
        let mut s = String::new();
        for k in 0..d { s.push_str(&" ".repeat(k)); s.push_str("?\n"); }
        s.push_str(&" ".repeat(d)); s.push_str("x\n");
        let t0 = std::time::Instant::now();
        let r = serde_saphyr::from_str::<serde::de::IgnoredAny>(&s);
        println!("depth {d} bytes {} -> {:?} in {:?}", s.len(), r.map(|_| ()).map_err(|e| e.to_string().chars().take(80).collect::<String>()), t0.elapsed());
        let t0 = std::time::Instant::now();
        let n = saphyr_parser::Parser::new_from_str(&s).count();
        println!("   parser alone: {n} events in {:?}", t0.elapsed());
    }
}
