use serde::{Deserialize, Serialize};
#[derive(Serialize, Deserialize, Debug, PartialEq)]
struct S { a: String, b: i32 }
#[derive(Serialize)]
struct W<'a> { a: serde_saphyr::LitStr<'a>, b: i32 }
fn main() {
    for step in [1usize, 2, 3, 4] {
        for text in ["line one\nline two", " lead\nsecond"] {
            let mut o = serde_saphyr::SerializerOptions::default();
            o.indent_step = step;
            let v = vec![W { a: serde_saphyr::LitStr(text), b: 1 }, W { a: serde_saphyr::LitStr(text), b: 2 }];
            let t = serde_saphyr::to_string_with_options(&v, o).unwrap();
            let back = serde_saphyr::from_str::<Vec<S>>(&t);
            let ok = matches!(&back, Ok(b) if b.len() == 2 && b[0].a == text && b[1].a == text);
            println!("step {step} text {:?}: ok={ok} {:?}\n{}", text, back.as_ref().map(|_| ()).map_err(|e| e.to_string().lines().next().unwrap_or("").to_string()), if ok { String::new() } else { t });
            // nested deeper: map value inside seq inside map
            let m: std::collections::BTreeMap<&str, Vec<W>> = [("k", vec![W { a: serde_saphyr::LitStr(text), b: 1 }])].into_iter().collect();
            let t = serde_saphyr::to_string_with_options(&m, o).unwrap();
            let back = serde_saphyr::from_str::<std::collections::BTreeMap<String, Vec<S>>>(&t);
            let ok = matches!(&back, Ok(b) if b["k"][0].a == text);
            if !ok { println!("  nested FAIL step {step}: {:?}\n{}", back.map(|_| ()).map_err(|e| e.to_string().lines().next().unwrap_or("").to_string()), t); }
        }
    }
}
