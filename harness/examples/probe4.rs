use serde::Deserialize;
#[derive(Deserialize, Debug)]
#[serde(deny_unknown_fields)]
struct S { a: i32 }
#[derive(Deserialize, Debug)]
enum En { A, B }
fn show(name: &str, r: String) { println!("=== {name}\n{}", r.escape_debug().to_string().replace("\\n", "\n")); }
fn main() {
    let d1 = "\"k\\e[31m\": 1\n\"k\\e[31m\": 2\n";
    show("dup", serde_saphyr::from_str::<std::collections::HashMap<String,i32>>(d1).unwrap_err().to_string());
    let d2 = "\"b\\e[31m\\u009b\": 1\n";
    show("unknown field", serde_saphyr::from_str::<S>(d2).unwrap_err().to_string());
    let d3 = "a: \"x\\e[31m\\u009b\"\n";
    show("invalid int", serde_saphyr::from_str::<S>(d3).unwrap_err().to_string());
    let d4 = "\"C\\e[31m\"\n";
    show("unknown variant", serde_saphyr::from_str::<En>(d4).unwrap_err().to_string());
    let d5 = "a: \u{1b}[31m\n";
    show("raw esc in source", serde_saphyr::from_str::<S>(d5).map(|_| ()).unwrap_err().to_string());
    let d6 = "a: 1\rb: 2\rc: [\n";
    show("lone CR", serde_saphyr::from_str::<S>(d6).map(|_| ()).unwrap_err().to_string());
    let d7 = "x: 1\ry: 2\nz: 3\na: q\n";
    show("mixed CR", serde_saphyr::from_str::<S>(d7).map(|_| ()).unwrap_err().to_string());
}
