use serde_saphyr::Spanned;
use std::collections::HashMap;
#[derive(serde::Deserialize, Debug)]
#[serde(untagged)]
enum V { S(Spanned<String>), M(HashMap<String, V>), L(Vec<V>) }
fn show(v: &V, ind: usize) {
    match v {
        V::S(s) => println!("{}{:?} ref {}:{} def {}:{}", " ".repeat(ind), s.value, s.referenced.line(), s.referenced.column(), s.defined.line(), s.defined.column()),
        V::M(m) => for (k, x) in m { println!("{}{k}:", " ".repeat(ind)); show(x, ind + 2); },
        V::L(l) => for x in l { println!("{}-", " ".repeat(ind)); show(x, ind + 2); },
    }
}
fn main() {
    for y in std::env::args().skip(1) {
        println!("{y:?}");
        match serde_saphyr::from_str::<HashMap<String, HashMap<String, Spanned<String>>>>(&y) { Ok(r) => for (k, m) in &r { for (k2, v) in m { println!("  {k}.{k2}: ref {}:{} def {}:{}", v.referenced.line(), v.referenced.column(), v.defined.line(), v.defined.column()); } }, Err(e) => println!("  err {e}") }
    }
}
