use serde::Deserialize;
#[derive(Deserialize, Debug)]
enum E { U, Nw(Option<bool>), T(i32, i32), St { a: i32 } }
#[derive(Deserialize, Debug)]
enum F { U, Nw(()), T(i32, i32), St { a: i32 } }
fn main() {
    println!("{:?}", serde_saphyr::from_str::<E>("Nw").map_err(|e| e.to_string()));
    println!("{:?}", serde_saphyr::from_str::<(i32, E, bool)>("[7, Nw, false]").map_err(|e| e.to_string()));
    println!("{:?}", serde_saphyr::from_str::<(i32, E)>("[7, Nw]").map_err(|e| e.to_string()));
    println!("{:?}", serde_saphyr::from_str::<Vec<E>>("[Nw, Nw]").map_err(|e| e.to_string()));
    println!("{:?}", serde_saphyr::from_str::<Vec<E>>("- Nw\n- Nw\n").map_err(|e| e.to_string()));
    println!("{:?}", serde_saphyr::from_str::<Vec<F>>("- Nw\n- Nw\n").map_err(|e| e.to_string()));
    println!("{:?}", serde_saphyr::from_str::<std::collections::BTreeMap<String, E>>("k: Nw\nj: U\n").map_err(|e| e.to_string()));
}
