use serde::Deserialize;
#[derive(Deserialize, Debug)]
#[allow(dead_code)]
struct Strict { a: i64, b: String }
struct Fail;
impl<'de> Deserialize<'de> for Fail {
    fn deserialize<D: serde::de::Deserializer<'de>>(_d: D) -> Result<Fail, D::Error> { Err(serde::de::Error::custom("boom")) }
}
fn inner2() -> String {
    match serde_saphyr::from_str::<Fail>("1") { Ok(_) => "ok".into(), Err(e) => format!("{:?} | {}", e.location().map(|l| (l.line(), l.column())), e.to_string().replace('\n', " / ")) }
}
fn inner() -> String {
    match serde_saphyr::from_str::<Strict>("\n\n  {a: 1}\n") { Ok(_) => "ok".into(), Err(e) => format!("{:?} | {}", e.location().map(|l| (l.line(), l.column())), e.to_string().replace('\n', " / ")) }
}
struct Probe(String);
impl<'de> Deserialize<'de> for Probe {
    fn deserialize<D: serde::de::Deserializer<'de>>(d: D) -> Result<Probe, D::Error> {
        let _ = String::deserialize(d)?;
        Ok(Probe(format!("{} ## {}", inner(), inner2())))
    }
}
#[derive(Deserialize)]
struct Outer { #[allow(dead_code)] x: i64, p: Probe }
#[derive(Deserialize, Debug)]
#[allow(dead_code)]
struct Outer2 { p: Probe2, z: i64 }
#[derive(Debug)]
struct Probe2;
impl<'de> Deserialize<'de> for Probe2 {
    fn deserialize<D: serde::de::Deserializer<'de>>(d: D) -> Result<Probe2, D::Error> {
        let s = String::deserialize(d)?;
        if s == "nest" { let _ = inner(); let _ = serde_saphyr::from_str::<Vec<i64>>("[1, 2]"); }
        Ok(Probe2)
    }
}
fn main() {
    for doc in ["\n\np: plain\nq: 1\n", "\n\np: nest\nq: 1\n"] {
        match serde_saphyr::from_str::<Outer2>(doc) { Ok(_) => println!("ok"), Err(e) => println!("outer2 {:?}: {:?} {}", doc, e.location().map(|l| (l.line(), l.column())), e.to_string().replace('\n', " / ")) }
    }
    println!("fresh : {} ## {}", inner(), inner2());
    let o: Outer = serde_saphyr::from_str("\n\n\n\nx: 1\np: hello\n").unwrap();
    println!("nested: {}", o.p.0);
    println!("after : {}", inner());
}
