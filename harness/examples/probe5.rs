fn main() {
    let big = "x".repeat(20000);
    let text = format!("a: 1\nb: \"{big}\" # tail\nc: [\n");
    let e = serde_saphyr::from_reader::<_, std::collections::HashMap<String, i32>>(std::io::Cursor::new(text.into_bytes())).unwrap_err();
    println!("{e}");
}
