use saphyr_parser::{Parser};
fn main(){
    for t in ["k2: \"ab\" \t# tail\n", "k2: 'ab'   \nk3: x   # c\n", "- \"ab\"   # c\n- [ \"q\"  , 'r' ]\n", "a: \"x\"   \n\n\nb: 1\n"] {
        println!("{:?}", t);
        for item in Parser::new_from_str(t) { let (ev, sp) = item.unwrap(); println!("  {:?} {}..{}", ev, sp.start.index(), sp.end.index()); }
    }
}
