fn main() {
    let a: Vec<String> = std::env::args().collect();
    let text = a[1].replace("\\n", "\n");
    let r = serde_saphyr::from_reader::<_, serde_json::Value>(std::io::Cursor::new(text.into_bytes()));
    println!("{:?}", r.map_err(|e| e.to_string()));
}
