"""Per-property check definitions. Each check: TLC on the MC model (design-level invariants + case
generation) -> harness runs the real crate on the cases and on random inputs -> TLC trace validator
decides every record against the specification."""
import json, os, subprocess
import vlib
from vlib import run_mc, run_tv, run_vh, classify_mismatches, finish, ToolError

ASSUME_COMMON = [
    "TLC 1.8.0 and the TLA+ community modules are correct",
    "saphyr-parser (same version as /repo's lockfile) defines the raw event stream of a text; the harness "
    "renderer is checked on every case by parsing its output directly with saphyr-parser (render-check)",
    "harness projections of Rust values to uniform {c,s,a} records are faithful",
]


# ------------------------------------------------------------------------------------------------
# C02
# ------------------------------------------------------------------------------------------------
def c02_matchers():
    def anchored_empty_quoted(rec, detail):
        return any(e["k"] == "S" and e["a"] != 0 and e["v"] == "" and e["q"] in ("s", "d") for e in rec.get("raw", []))
    return {"C02-anchored-empty-quoted": anchored_empty_quoted}


def check_C02(ctx):
    q = ctx.quick()
    cases = ctx.path("cases.ndjson")
    consts = dict(MaxEv=7 if q else 8, Names=[1, 2], Scalars="<- ScalarsAB", AllowContainerKeys=False,
                  MaxTotalReplayed=1000000, MaxStackDepth=64, MaxPerAnchor=1000000,
                  NormalizeAnchoredEmptyQuoted=False)
    invs = ["InvTransparent", "InvNoSpurious", "InvInjectDepth", "InvRecOrdered", "InvBuffers", "InvReplayBounded",
            "EmitCase"]
    run_mc(ctx, "MC_LiveEvents", consts, invs, workers=8, timeout=3000, cases_out=cases, label="MC_LiveEvents")
    # second configuration: richer scalars (null, quoted empty) and container keys, shorter documents
    cases2 = ctx.path("cases2.ndjson")
    consts2 = dict(consts, MaxEv=5 if q else 6, Scalars="<- ScalarsRich", AllowContainerKeys=True)
    run_mc(ctx, "MC_LiveEvents", consts2, invs, workers=8, timeout=3000, cases_out=cases2, label="MC_LiveEvents_rich")
    # third: tightened alias limits (C08 counters on the same pump), no cases needed
    consts3 = dict(consts, MaxEv=6, MaxTotalReplayed=2, MaxStackDepth=1, MaxPerAnchor=1)
    run_mc(ctx, "MC_LiveEvents", consts3, [i for i in invs if i != "EmitCase"], workers=8, timeout=3000,
           label="MC_LiveEvents_limits")
    ctx.exhaustive = True
    allcases = ctx.path("allcases.ndjson")
    with open(allcases, "w") as fo:
        for p in (cases, cases2):
            fo.write(open(p).read())
    recs = ctx.path("recs.ndjson")
    nrand = 4000 if q else 60000
    st = run_vh(ctx, ["c02", "--cases", allcases, "--out", recs, "--random", nrand, "--seed", ctx.seed,
                      "--max-events", 40 if q else 80])
    ctx.evaluations += st["records"]
    ctx.distinct_nontrivial += st["nontrivial"]
    ctx.samples += st["samples"]
    mism = run_tv(ctx, "TV_LiveEvents", recs)
    classify_mismatches(ctx, mism, recs, c02_matchers(), "from_str(aliased document) differs from the alias-free expansion required by YamlModel!RequiredTree")
    return finish(ctx, "model_checking",
                  "cases: every well-formed document up to MaxEv events over 2 anchor names (re-definition allowed) "
                  "enumerated by TLC's BFS over the generator actions, rendered in flow and block style, plus random "
                  "documents up to 40/80 events with 3 names; non-trivial = distinct rendered text containing at least one alias",
                  ASSUME_COMMON + ["untyped target sees the document through deserialize_any with DuplicateKeyPolicy::LastWins"])


CHECKS = {
    "C02": check_C02,
}


def replay(pid, path):
    obj = json.load(open(path))
    print(json.dumps(obj, indent=1)[:4000])
    rec = obj.get("record") or {}
    if "yaml" in rec:
        r = subprocess.run([vlib.VH, "show", "--yaml", rec["yaml"]], capture_output=True, text=True)
        print(r.stdout)
    return 0
