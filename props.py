"""Per-property check definitions. Each check: TLC on the MC model (design-level invariants + case
generation) -> harness runs the real crate on the cases and on random inputs -> TLC trace validator
decides every record against the specification."""
import json, os, subprocess
import vlib
from vlib import run_mc, run_tv, run_vh, classify_mismatches, finish, ToolError

ASSUME_COMMON = [
    "TLC 1.8.0 and the TLA+ community modules are correct",
    "saphyr-parser (same version as /repo's lockfile) defines the raw event stream of a text; the harness "
    "renderer is checked on every case by parsing its output directly with saphyr-parser (render-check)",
    "harness projections of Rust values to uniform {c,s,a} records are faithful",
]


# ------------------------------------------------------------------------------------------------
# C02
# ------------------------------------------------------------------------------------------------
def c02_matchers():
    def anchored_empty_quoted(rec, detail):
        return any(e["k"] == "S" and e["a"] != 0 and e["v"] == "" and e["q"] in ("s", "d") for e in rec.get("raw", []))
    return {"C02-anchored-empty-quoted": anchored_empty_quoted}



def pump_traces(ctx, cases, label, every, limits):
    """Records the pump's step log (hook verif_hooks::pump_trace_*) for every `every`-th case document and validates the
    traces against the actions of LiveEvents.tla (TR_LiveEvents). limits = (total, stack, per_anchor) or None for the defaults."""
    trecs = ctx.path(f"{label}.traces.ndjson")
    args = ["c02t", "--cases", cases, "--out", trecs, "--every", every]
    consts = dict(MaxTotalReplayed=1000000, MaxStackDepth=64, MaxPerAnchor=1000000, NormalizeAnchoredEmptyQuoted=False)
    if limits:
        args += ["--total", limits[0], "--stack", limits[1], "--per", limits[2]]
        consts.update(MaxTotalReplayed=limits[0], MaxStackDepth=limits[1], MaxPerAnchor=limits[2])
    st = run_vh(ctx, args)
    ctx.notes[f"{label}_traces"] = dict(records=st["records"], steps=st["steps"], serve_steps=st["serve_steps"], error_traces=st["error_traces"])
    ctx.evaluations += st["records"]
    return run_tv(ctx, "TR_LiveEvents", trecs, label=label, constants=consts, invariants=["Count"], timeout=3000)


def check_C02(ctx):
    q = ctx.quick()
    cases = ctx.path("cases.ndjson")
    consts = dict(MaxEv=7 if q else 8, Names=[1, 2], Scalars="<- ScalarsAB", AllowContainerKeys=False,
                  MaxTotalReplayed=1000000, MaxStackDepth=64, MaxPerAnchor=1000000,
                  NormalizeAnchoredEmptyQuoted=False)
    invs = ["InvTransparent", "InvNoSpurious", "InvInjectDepth", "InvRecOrdered", "InvBuffers", "InvReplayBounded",
            "EmitCase"]
    run_mc(ctx, "MC_LiveEvents", consts, invs, workers=8, timeout=3000, cases_out=cases, label="MC_LiveEvents")
    # second configuration: richer scalars (null, quoted empty) and container keys, shorter documents
    cases2 = ctx.path("cases2.ndjson")
    consts2 = dict(consts, MaxEv=5 if q else 6, Scalars="<- ScalarsRich", AllowContainerKeys=True)
    run_mc(ctx, "MC_LiveEvents", consts2, invs, workers=8, timeout=3000, cases_out=cases2, label="MC_LiveEvents_rich")
    # third: tightened alias limits (C08 counters on the same pump), no cases needed
    consts3 = dict(consts, MaxEv=6, MaxTotalReplayed=2, MaxStackDepth=1, MaxPerAnchor=1)
    run_mc(ctx, "MC_LiveEvents", consts3, [i for i in invs if i != "EmitCase"], workers=8, timeout=3000,
           label="MC_LiveEvents_limits")
    ctx.exhaustive = True
    allcases = ctx.path("allcases.ndjson")
    with open(allcases, "w") as fo:
        for p in (cases, cases2):
            fo.write(open(p).read())
    recs = ctx.path("recs.ndjson")
    nrand = 4000 if q else 60000
    st = run_vh(ctx, ["c02", "--cases", allcases, "--out", recs, "--random", nrand, "--seed", ctx.seed,
                      "--max-events", 40 if q else 80, "--stale-every", 5 if q else 25])
    ctx.evaluations += st["records"]
    ctx.distinct_nontrivial += st["nontrivial"]
    ctx.samples += st["samples"]
    mism = run_tv(ctx, "TV_LiveEvents", recs, timeout=1800 if q else 9000)
    # action-level binding: step logs of the instrumented pump replayed through the actions of LiveEvents.tla
    mism += pump_traces(ctx, allcases, "TR_LiveEvents", 10 if q else 2, None)
    classify_mismatches(ctx, mism, recs, c02_matchers(), "from_str(aliased document) differs from the alias-free expansion required by YamlModel!RequiredTree")
    # typed targets: the schema family / random schemas of C05, each document read once alias-free and once with one sub-node
    # (value, item or scalar key) reached through an alias; TV_TypedAlias checks the two texts are expansion-related and the reads agree
    arecs = ctx.path("typed_alias.ndjson")
    st3 = run_vh(ctx, ["c05a", "--out", arecs, "--random", 4000 if q else 80000, "--seed", ctx.seed])
    ctx.notes["typed_alias_family"] = st3
    ctx.evaluations += st3["records"]
    amism = run_tv(ctx, "TV_TypedAlias", arecs, timeout=3000)
    classify_mismatches(ctx, amism, arecs, {}, "a typed read through an alias differs from the read of the copy (TV_TypedAlias)")
    return finish(ctx, "model_checking",
                  "typed family: documents matching / nearly matching the C05 schemas (options, tuples, structs, maps, enums in all notations) "
                  "read alias-free and with one sub-node moved behind an anchor or aliased in place; "
                  "cases: every well-formed document up to MaxEv events over 2 anchor names (re-definition allowed) "
                  "enumerated by TLC's BFS over the generator actions, rendered in flow and block style, plus random "
                  "documents up to 40/80 events with 3 names; non-trivial = distinct rendered text containing at least one alias",
                  ASSUME_COMMON + ["untyped target sees the document through deserialize_any with DuplicateKeyPolicy::LastWins"])


# ------------------------------------------------------------------------------------------------
# C03 / C04 (one machine: MapAccess)
# ------------------------------------------------------------------------------------------------
def py_expand(raw):
    """alias-free expansion of a raw event list (None if undefined); used only by known-finding matchers"""
    def end_of(i):
        d = 0
        j = i
        while True:
            k = raw[j]["k"]
            if k in ("SS", "MS"):
                d += 1
            elif k in ("SE", "ME"):
                d -= 1
            if d == 0:
                return j
            j += 1
    out = []
    def go(lo, hi, depth):
        if depth > 50:
            raise ValueError
        i = lo
        while i < hi:
            e = raw[i]
            if e["k"] == "AL":
                s = next((j for j in range(i) if raw[j]["k"] in ("S", "SS", "MS") and raw[j]["a"] == e["a"]), None)
                if s is None or i <= end_of(s):
                    raise ValueError
                go(s, end_of(s) + 1, depth + 1)
            else:
                out.append(e)
            i += 1
    try:
        go(0, len(raw), 0)
    except ValueError:
        return None
    return out


def has_kemn_key(raw):
    """a mapping key that is itself a one-entry mapping whose key is null-like (the `kemn` special case)"""
    x = py_expand(raw)
    if x is None:
        return False
    def end_of(i):
        d = 0
        j = i
        while True:
            k = x[j]["k"]
            if k in ("SS", "MS"):
                d += 1
            elif k in ("SE", "ME"):
                d -= 1
            if d == 0:
                return j
            j += 1
    found = False
    def node(i, iskey):
        nonlocal found
        e = x[i]
        if e["k"] == "S":
            return i + 1
        if e["k"] == "SS":
            j = i + 1
            while x[j]["k"] != "SE":
                j = node(j, False)
            return j + 1
        # MS
        j = i + 1
        n = 0
        firstkey = None
        while x[j]["k"] != "ME":
            if n == 0:
                firstkey = x[j]
            j = node(j, True)
            j = node(j, False)
            n += 1
        if iskey and n == 1 and firstkey["k"] == "S" and (firstkey["t"] in ("!!null",) or firstkey["v"] == "" or firstkey["v"] == "~" or firstkey["v"].lower() == "null"):
            found = True
        return j + 1
    node(0, False)
    return found


def ma_matchers():
    return {"C04-kemn-key": lambda rec, detail: has_kemn_key(rec.get("raw", []))}


def mapaccess_check(ctx, which):
    q = ctx.quick()
    cases = ctx.path("cases.ndjson")
    invs = ["InvAgree", "InvCursor", "InvFaultyRoot", "InvPolicyIrrelevant", "EmitCase"]
    pol = ["Error", "FirstWins", "LastWins"]
    if which == "C03":
        consts = dict(MaxEv=10 if q else 13, Policies=pol, AllowSeqKeys=False, KeyScalars="<- KeyScalarsQ")
        consts2 = dict(MaxEv=8 if q else 11, Policies=pol, AllowSeqKeys=False, KeyScalars="<- KeyScalarsT")
    else:
        consts = dict(MaxEv=9 if q else 12, Policies=pol, AllowSeqKeys=True, KeyScalars="<- KeyScalarsD")
        consts2 = dict(MaxEv=8 if q else 11, Policies=pol, AllowSeqKeys=True, KeyScalars="<- KeyScalarsT")
    run_mc(ctx, "MC_MapAccess", consts, invs, workers=8, timeout=3000, cases_out=cases, label="MC_MapAccess")
    cases2 = ctx.path("cases2.ndjson")
    run_mc(ctx, "MC_MapAccess", consts2, invs, workers=8, timeout=3000, cases_out=cases2, label="MC_MapAccess_styles")
    ctx.exhaustive = True
    allcases = ctx.path("allcases.ndjson")
    with open(allcases, "w") as fo:
        for p in (cases, cases2):
            fo.write(open(p).read())
    recs = ctx.path("recs.ndjson")
    nrand = 3000 if q else 40000
    st = run_vh(ctx, ["c03", "--cases", allcases, "--out", recs, "--random", nrand, "--seed", ctx.seed,
                      "--max-events", 40 if q else 70, "--focus", which, "--discard-every", 1 if q else 8])
    ctx.evaluations += st["records"]
    ctx.distinct_nontrivial += st["nontrivial"] if which == "C03" else st["nontrivial_dup"]
    ctx.samples += st["samples"]
    ctx.notes["documents_with_merge_key"] = st["nontrivial"]
    ctx.notes["documents_with_repeated_key"] = st["nontrivial_dup"]
    mism = run_tv(ctx, "TV_MapAccess", recs, timeout=3000 if q else 9000)
    # action-level binding: the step log of MA::next_key_seed (branch taken, queue / merge-stack / seen-set sizes after every
    # iteration) replayed through MapAccessMachine, for every enumerated root mapping under every policy plus random mappings
    trecs = ctx.path("ma_traces.ndjson")
    st2 = run_vh(ctx, ["c03t", "--cases", allcases, "--out", trecs, "--every", 1, "--random", 1500 if q else 30000, "--seed", ctx.seed, "--focus", which])
    ctx.notes["map_access_traces"] = dict(records=st2["records"], steps=st2["steps"], merge_steps=st2["merge_steps"],
                                          skip_or_dup_steps=st2["skip_steps"], error_traces=st2["error_traces"])
    ctx.evaluations += st2["records"]
    tmism = run_tv(ctx, "TR_MapAccess", trecs, label="TR_MapAccess", timeout=3000, invariants=["Count"], spec="TrSpec")
    classify_mismatches(ctx, tmism, trecs, {},
                        "a step of the mapping access loop is not a step of MapAccessMachine (merge batches / duplicate decision / skip)")
    if which == "C03":
        # typed targets: a mapping at a struct / map position of the C05 schemas, written in full and with some entries supplied
        # through `<<` (inline or anchored sources, one or two, now and then shadowed by an own key): the two typed reads must agree
        mrecs = ctx.path("typed_merge.ndjson")
        st4 = run_vh(ctx, ["c05m", "--out", mrecs, "--random", 12000 if q else 150000, "--seed", ctx.seed])
        ctx.notes["typed_merge_family"] = st4
        ctx.evaluations += st4["records"]
        mm = run_tv(ctx, "TV_TypedMerge", mrecs, timeout=3000)
        classify_mismatches(ctx, mm, mrecs, {}, "a typed read of a mapping with merge keys differs from the read of the mapping written out in full (TV_TypedMerge)")
    classify_mismatches(ctx, mism, recs, ma_matchers(),
                        "observed mapping delivery differs from MapAccess!Delivered (merge precedence / duplicate-key policy)")
    rule = ("cases: every root mapping up to MaxEv events over keys {a, b, <<} (quoted/plain variants, sequence keys for C04) "
            "and uniquely labelled values, enumerated by TLC, each rendered in flow style, block style and with merge "
            "sources moved behind anchors, under all three policies; plus random documents; the step log of MA::next_key_seed "
            "(hook) of every enumerated mapping and of random mappings validated action by action against MapAccessMachine "
            "(TR_MapAccess); non-trivial = distinct "
            + ("documents containing a merge key" if which == "C03" else "documents with a repeated own key"))
    return finish(ctx, "model_checking", rule,
                  ASSUME_COMMON + ["order-preserving pair-list target observes exactly what MapAccess yields",
                                   "outcome for merge sources that repeat a key internally is not prescribed (skipped as unconstrained)"])


def check_C03(ctx):
    return mapaccess_check(ctx, "C03")


def check_C04(ctx):
    return mapaccess_check(ctx, "C04")


# ------------------------------------------------------------------------------------------------
# C07
# ------------------------------------------------------------------------------------------------
def c07_matchers():
    def alias_phase(rec, detail):
        return isinstance(detail, dict) and detail.get("alias_in_mapping") and detail.get("verdict") in (
            "report-merge-keys", "breach-merge-keys")
    return {"C07-alias-phase-inversion": alias_phase}


def check_C07(ctx):
    q = ctx.quick()
    base = dict(MaxEv=10 if q else 11, MaxDocs=2, Names=[1], PerDoc=False, AliasToggles=False, ResetAllPerDoc=True,
                SkipObserves=True)
    cases = ctx.path("cases.ndjson")
    # the design without the alias deviation: report = independent count at every step
    run_mc(ctx, "MC_Budget", base, ["InvReport", "EmitCase"], workers=8, timeout=3000, cases_out=cases, label="MC_Budget_all")
    # the design before repair c5326a2 (alias advances the key/value phase twice): everything but merge_keys exact
    run_mc(ctx, "MC_Budget", dict(base, AliasToggles=True, MaxEv=9 if q else 10), ["InvReportButMK"], workers=8, timeout=3000,
           label="MC_Budget_alias_deviation")
    # per-document enforcement with the iterator's error recovery: fresh at every document start
    run_mc(ctx, "MC_Budget", dict(base, PerDoc=True, MaxEv=10 if q else 12, MaxDocs=2 if q else 3),
           ["InvFreshPerDoc"], workers=8, timeout=3000, label="MC_Budget_perdoc")
    ctx.exhaustive = True
    recs = ctx.path("recs.ndjson")
    st = run_vh(ctx, ["c07", "--cases", cases, "--out", recs, "--random", 400 if q else 6000, "--seed", ctx.seed,
                      "--max-events", 30 if q else 60, "--all-limits", 1])
    ctx.evaluations += st["records"]
    ctx.distinct_nontrivial += st["nontrivial"]
    ctx.samples += st["samples"]
    mism = run_tv(ctx, "TV_Budget", recs, timeout=3000)
    # action-level binding: the enforcer's step log (event + state before it) replayed through MC_Budget!Observe, per policy
    for pol, pd in (("all", False), ("perdoc", True)):
        trecs = ctx.path(f"budget_traces_{pol}.ndjson")
        st2 = run_vh(ctx, ["c07t", "--cases", cases, "--out", trecs, "--policy", pol, "--every", 4 if q else 1, "--seed", ctx.seed])
        ctx.notes[f"enforcer_traces_{pol}"] = dict(records=st2["records"], steps=st2["steps"])
        ctx.evaluations += st2["records"]
        mism += run_tv(ctx, "TR_Budget", trecs, label=f"TR_Budget_{pol}", timeout=3000, invariants=["Count"], spec="TrSpec",
                       constants=dict(MaxEv=0, MaxDocs=0, Names=[1], PerDoc=pd, AliasToggles=False, ResetAllPerDoc=True, SkipObserves=True))
    classify_mismatches(ctx, mism, recs, c07_matchers(),
                        "budget acceptance / breach kind / usage report differs from Budget!Usage over the observed stream")
    return finish(ctx, "model_checking",
                  "cases: every stream of <= 2 documents up to MaxEv events (anchors, aliases, merge-key scalars) enumerated by "
                  "TLC, rendered flow and block, each run through from_str / from_multiple / check_yaml_budget / read with "
                  "limits = usage, each single limit lowered by one, unlimited, and the alias/anchor ratio rule around its "
                  "thresholds; plus random streams; non-trivial = distinct texts with an alias or a merge key",
                  ASSUME_COMMON + ["usage used to derive the limits comes from the crate's own report but every record is "
                                   "decided against Budget!Usage computed by TLC from the raw parser events"])


# ------------------------------------------------------------------------------------------------
# C11
# ------------------------------------------------------------------------------------------------
def check_C11(ctx):
    q = ctx.quick()
    kinds = ["V", "W", "D", "E", "N", "TE", "TL", "A", "AN", "S", "U", "BF", "BI"]
    cases = ctx.path("cases.ndjson")
    run_mc(ctx, "MC_Stream", dict(MaxDocs=3 if q else 4, KindSet=kinds, SetsFinishedOnSyntax=True, PeekBreachEnds=False),
           ["InvIter", "InvIterExact", "InvIterPrefix", "InvIterBudget", "InvBatch", "InvTerminates", "EmitCase"], properties=["Terminates"],
           workers=4, timeout=3000, cases_out=cases, label="MC_Stream", spec="FairSpec")
    ctx.exhaustive = True
    recs = ctx.path("recs.ndjson")
    st = run_vh(ctx, ["c11", "--cases", cases, "--out", recs, "--random", 500 if q else 20000, "--seed", ctx.seed,
                      "--variants", 4 if q else 12])
    ctx.evaluations += st["records"]
    ctx.distinct_nontrivial += st["nontrivial"]
    ctx.samples += st["samples"]
    mism = run_tv(ctx, "TV_Stream", recs, timeout=3000)
    classify_mismatches(ctx, mism, recs, {}, "batch / iterator / single-document results differ from Stream!Batch / IterAdmissible / Single")
    return finish(ctx, "model_checking",
                  "cases: every sequence of <= 3 (quick) / 4 (thorough) document kinds over 13 kinds enumerated by TLC, each rendered "
                  "in several marker/comment variants and run through from_multiple, from_slice_multiple, read, read_valid, read_validate, "
                  "read_with_options, the three iterators again with a scalar-byte budget that two of the kinds exceed (at the first node / "
                  "inside), from_str, from_reader, from_slice; plus random streams of 4-11 documents; non-trivial = distinct texts with >= 2 documents",
                  ASSUME_COMMON + ["document kinds are rendered from a fixed table of texts; the element type is an untagged enum of integers and small maps"])


# ------------------------------------------------------------------------------------------------
# C05
# ------------------------------------------------------------------------------------------------
def check_C05(ctx):
    q = ctx.quick()
    cases = ctx.path("cases.ndjson")
    run_mc(ctx, "MC_TypedCursor", dict(MaxEv=6 if q else 7), ["OptLaw", "TupSeqLaw", "StructMapLaw", "EmitCase"],
           workers=8, timeout=3000, cases_out=cases, label="MC_TypedCursor")
    ctx.exhaustive = True
    recs = ctx.path("recs.ndjson")
    st = run_vh(ctx, ["c05", "--cases", cases, "--out", recs, "--random", 20000 if q else 300000, "--seed", ctx.seed])
    ctx.evaluations += st["records"]
    ctx.distinct_nontrivial += st["nontrivial"]
    ctx.samples += st["samples"]
    ctx.notes["schemas_in_family"] = st["schemas"]
    ctx.notes["records_with_ok_value"] = st["ok_values"]
    mism = run_tv(ctx, "TV_TypedCursor", recs, timeout=3000)
    def tagged_unit_with_text(rec, d):
        return any(e.get("k") == "S" and e.get("t") == "!U" and not (e.get("q") == "p" and e.get("v", "") in ("", "~", "null", "Null", "NULL")) for e in rec.get("raw", []))
    def tag_on_mapping(rec, d):
        return any(e.get("k") == "MS" and e.get("t", "").startswith("!") and not e.get("t", "").startswith("!!") for e in rec.get("raw", []))
    classify_mismatches(ctx, mism, recs, {"C04-kemn-key": lambda rec, d: has_kemn_key(rec.get("raw", [])),
                                          "C05-tagged-unit-variant-ignores-text": tagged_unit_with_text,
                                          "C05-tag-on-mapping-ignored": tag_on_mapping},
                        "typed result differs from TypedCursor!FaithfulDoc (reference interpreter on the parser's event stream)")
    return finish(ctx, "model_checking",
                  "cases: every alias-free document up to MaxEv events over field/variant names and scalars 1 x ~ true, enumerated by "
                  "TLC, x a family of 45 schemas of depth <= 2 (exhaustive product), plus random schemas of depth <= 3 with "
                  "schema-directed matching documents mutated 0-2 times (one element more/fewer, wrong kind, unknown field or "
                  "variant, null for a container, quoted scalar); every pair is run through from_str, with_deserializer_from_str, "
                  "from_multiple and read; non-trivial = distinct (schema, text) pairs",
                  ASSUME_COMMON + ["the run-time Schema seed issues the typed deserialize_* calls a derived impl would (tuple "
                                   "visitors stop at their arity, struct visitors ignore unknown fields and reject duplicates)"])


# ------------------------------------------------------------------------------------------------
# C06
# ------------------------------------------------------------------------------------------------
def check_C06(ctx):
    q = ctx.quick()
    subprocess.run(["python3", os.path.join(vlib.ROOT, "tools", "gen_scalar_tables.py")], check=True, capture_output=True)
    cases = ctx.path("cases.ndjson")
    run_mc(ctx, "MC_Scalars", {}, ["InvSelfCheck", "InvWidthLaws", "InvBoolStrict", "EmitCase"], workers=4, timeout=3000,
           cases_out=cases, label="MC_Scalars")
    b64cases = ctx.path("b64cases.ndjson")
    run_mc(ctx, "MC_Base64", dict(MaxLen=4 if q else 5), ["InvWhitespaceIrrelevant", "InvLength", "InvBytes", "EmitCase"], workers=8,
           timeout=3000, cases_out=b64cases, label="MC_Base64")
    ctx.exhaustive = True
    recs = ctx.path("recs.ndjson")
    st = run_vh(ctx, ["c06", "--cases", cases, "--out", recs, "--random", 500 if q else 20000, "--seed", ctx.seed, "--full", 0 if q else 1])
    ctx.evaluations += st["records"]
    ctx.distinct_nontrivial += st["nontrivial"]
    ctx.samples += st["samples"]
    mism = run_tv(ctx, "TV_Scalars", recs, timeout=3000, shards=12)
    classify_mismatches(ctx, mism, recs, {}, "scalar interpretation differs from the Scalars.tla table")
    b64recs = ctx.path("b64recs.ndjson")
    st2 = run_vh(ctx, ["c06b64", "--cases", b64cases, "--out", b64recs])
    ctx.evaluations += st2["records"]
    ctx.distinct_nontrivial += st2["nontrivial"]
    ctx.notes["base64_decodable_cases"] = st2["nontrivial"]
    mism2 = run_tv(ctx, "TV_Base64", b64recs, timeout=3000, label="TV_Base64")
    classify_mismatches(ctx, mism2, b64recs, {}, "!!binary decoding differs from Base64!Decode")
    return finish(ctx, "model_checking",
                  "cells: token corpus (every integer-width boundary +-1 in radix 2/8/10/16 with signs, prefixes in both cases, "
                  "separators, legacy octal, bool/null/float spellings and look-alikes; ~480 tokens, generated by "
                  "tools/gen_scalar_tables.py) x styles plain/double/single x tags none/!!str/!/!!int/!!null x option vectors "
                  "(legacy_octal, strict_booleans, no_schema) x 10 integer targets, bool, String, f64 and the untyped target; plus "
                  "random digit strings around random boundaries; base64: all strings up to 4/5 characters over a 10-character "
                  "adversarial alphabet; every cell counts (each is a distinct table entry)",
                  ASSUME_COMMON + ["finite float values are delegated to Rust's str::parse::<f64> (supplied in the record, compared bit "
                                   "for bit); Rust's integer formatting in radix 2/8/10/16 is used to project observed values"])


# ------------------------------------------------------------------------------------------------
# C09 / C10 (one machine: ReaderInput)
# ------------------------------------------------------------------------------------------------
C09_VERDICTS = {"error-differs", "value-differs", "reader-lends", "borrowed-not-verbatim", "verbatim-not-lent", "transformed-lent", "entry-points-disagree"}
C10_VERDICTS = {"fault-swallowed", "drained-past-cap", "cap-ignored", "write-fault-swallowed", "not-a-prefix", "value-from-truncated-input",
                "affected-by-a-cap-it-fits-under", "fault-swallowed-by-the-iterator", "write-fault-not-returned-as-the-io-error"}


def reader_check(ctx, which):
    q = ctx.quick()
    run_mc(ctx, "MC_ReaderInput", dict(MaxChars=3 if q else 4, MaxBytes=7 if q else 9), ["InvExpected", "InvCap"], workers=8,
           timeout=3000, label="MC_ReaderInput")
    ctx.exhaustive = True
    recs = ctx.path("recs.ndjson")
    st = run_vh(ctx, ["c09", "--out", recs, "--seed", ctx.seed, "--thorough", 0 if q else 1], timeout=3000)
    ctx.evaluations += st["records"]
    ctx.distinct_nontrivial += st["nontrivial"] if which == "C09" else st["faults"]
    ctx.samples += st["samples"]
    mism = run_tv(ctx, "TV_ReaderInput", recs, timeout=3000)
    mine = C09_VERDICTS if which == "C09" else C10_VERDICTS
    unknown = {m[1].get("verdict") for m in mism if isinstance(m[1], dict)} - C09_VERDICTS - C10_VERDICTS
    if unknown:
        raise ToolError(f"TV_ReaderInput verdicts not assigned to C09 or C10: {sorted(unknown)}")
    own = [m for m in mism if isinstance(m[1], dict) and m[1].get("verdict") in mine]
    other = len(mism) - len(own)
    if other:
        ctx.notes["mismatches_belonging_to_sibling_property"] = other
    # keep replay files small: the record is inside detail.rec already
    classify_mismatches(ctx, [(m[0], {"verdict": m[1]["verdict"], "rec": {k: v for k, v in m[1]["rec"].items() if k not in ("full", "received")}}, m[2], m[3]) for m in own],
                        None, {}, "reader-path outcome differs from ReaderInput!Expected / in-memory entry point" if which == "C09"
                        else "I/O fault, early EOF or size cap not reported (ReaderInput!MustFail), or writer fault swallowed")
    if which == "C09":
        rule = ("30 corpus documents (valid/invalid, ASCII and 2/3/4-byte characters, CRLF, anchors, multi-document; with and without "
                "BOM) x chunk schedules (all 2^(n-1) compositions for inputs <= 10/14 bytes, 1-byte, fixed 2/3/5/7, random, a cut inside "
                "every multi-byte character) x from_reader / read / with_deserializer_from_reader, compared with from_str / from_multiple; "
                "39 borrowing cases; non-trivial = records whose text has a multi-byte character")
    else:
        rule = ("every byte position k of every corpus document as fault position (4 error kinds) and as clean early EOF, x 2 chunkings x "
                "from_reader / read / an error-swallowing target; caps 0,1,n-3..n+1,n+100; a 400 KB input with small caps (bytes pulled); "
                "writer: every write call and every byte offset as failure point; non-trivial = fault records")
    return finish(ctx, "model_checking" if which == "C09" else "fault_enumeration", rule,
                  ASSUME_COMMON + ["inputs whose last line is an unterminated %directive are excluded here (known finding C01-directive-eof-hang)",
                                   "buffering allowance for bytes pulled past the cap: 32 KiB"])


def check_C09(ctx):
    return reader_check(ctx, "C09")


def check_C10(ctx):
    return reader_check(ctx, "C10")


# ------------------------------------------------------------------------------------------------
# C08
# ------------------------------------------------------------------------------------------------
def check_C08(ctx):
    q = ctx.quick()
    base = dict(MaxEv=6 if q else 7, Names=[1, 2], Scalars="<- ScalarsAB", AllowContainerKeys=False,
                NormalizeAnchoredEmptyQuoted=False)
    invs = ["InvTripAgrees", "InvClosedForms", "InvReplayBounded", "InvInjectDepth", "InvRecOrdered", "InvBuffers"]
    for (t, p, s) in [(2, 1, 1), (0, 2, 1), (3, 1000000, 0), (4, 2, 64)] if q else [(2, 1, 1), (0, 2, 1), (3, 1000000, 0), (4, 2, 64), (1, 1, 1), (6, 3, 2)]:
        run_mc(ctx, "MC_LiveEvents", dict(base, MaxTotalReplayed=t, MaxPerAnchor=p, MaxStackDepth=s), invs, workers=8, timeout=3000,
               label=f"MC_LiveEvents_t{t}p{p}s{s}")
    ctx.exhaustive = True
    recs = ctx.path("recs.ndjson")
    st = run_vh(ctx, ["c08", "--out", recs, "--random", 400 if q else 5000, "--seed", ctx.seed, "--thorough", 0 if q else 1], timeout=3000)
    ctx.evaluations += st["records"]
    ctx.distinct_nontrivial += st["nontrivial"]
    ctx.samples += st["samples"]
    mism = run_tv(ctx, "TV_Bounds", recs, timeout=3000)
    # action-level binding under tightened limits: the pump's step log must follow LiveEvents.tla up to and including the step that trips
    cases = ctx.path("cases.ndjson")
    run_mc(ctx, "MC_LiveEvents", dict(base, MaxEv=6, MaxTotalReplayed=1000000, MaxPerAnchor=1000000, MaxStackDepth=64), ["EmitCase"], workers=8,
           timeout=3000, cases_out=cases, label="MC_LiveEvents_cases")
    for (t, s, p) in [(2, 64, 1000000), (1000000, 64, 1), (3, 64, 2)] if q else [(2, 64, 1000000), (1000000, 64, 1), (3, 64, 2), (1, 64, 1), (5, 64, 3)]:
        tm = pump_traces(ctx, cases, f"TR_LiveEvents_t{t}p{p}", 3 if q else 1, (t, s, p))
        mism += [(m[0], dict(m[1], verdict="trace") if isinstance(m[1], dict) else m[1], m[2], m[3]) for m in tm]
    matchers = {"C08-nested-anchor-recording": lambda rec, d: isinstance(d, dict) and d.get("verdict") == "heap" and d.get("rec", {}).get("family") == "nested"}
    classify_mismatches(ctx, [(m[0], m[1], m[2], m[3]) for m in mism], None, matchers,
                        "alias limit / delivered node count / peak heap outside Bounds.tla (FirstTrip, DeliveredNodes, K*(input+events))")
    return finish(ctx, "model_checking",
                  "model: every document up to 6/7 events x tightened (total, per-anchor, stack) limits, the pump must stop exactly where "
                  "Bounds!FirstTrip says and deliver Bounds!DeliveredNodes; implementation: random aliased documents x 12 limit vectors "
                  "decided from their raw events, plus attack families bomb(fanout<=6/10, levels<=6/8), chain(<=300/1000), "
                  "nested(d<=100/200, n<=5000/20000), wide_merge, flat under default limits and a halved node budget, observed through a "
                  "node-counting target and a counting allocator; non-trivial = documents with at least one alias",
                  ASSUME_COMMON + ["peak heap is a measurement (counting global allocator); the specification only supplies the bound "
                                   "K=700 bytes per (input byte + budget-counted event) + 64 KiB, fixed once from flat documents"])


# ------------------------------------------------------------------------------------------------
# C12
# ------------------------------------------------------------------------------------------------
def check_C12(ctx):
    q = ctx.quick()
    cases = ctx.path("cases.ndjson")
    pos = ["root", "item", "value", "key", "flow", "payload"]
    run_mc(ctx, "MC_Quoting", dict(MaxLen=3 if q else 4, Positions=pos, Repaired=True), ["InvRoundTrips", "EmitCase"], workers=8, timeout=3000,
           cases_out=cases, label="MC_Quoting")
    ctx.exhaustive = True
    recs = ctx.path("recs.ndjson")
    st = run_vh(ctx, ["c12", "--cases", cases, "--out", recs, "--random", 3000 if q else 60000, "--seed", ctx.seed, "--thorough", 0 if q else 1], timeout=20000)
    ctx.evaluations += st["records"]
    ctx.distinct_nontrivial += st["nontrivial"]
    ctx.samples += st["samples"]
    ctx.notes["f32_bit_patterns_round_tripped"] = st["f32_patterns"]
    ctx.notes["distinct_float_text_shapes"] = st["float_shapes"]
    mism = run_tv(ctx, "TV_Quoting", recs, timeout=6000, constants=dict(Repaired=True), shards=12)
    drift = 0
    for r in ctx.tlc_runs:
        pass
    for i in range(12):
        p = ctx.path(f"TV_Quoting-{i}.out")
        if os.path.exists(p):
            for line in open(p):
                if line.startswith('<<"TVDRIFT"'):
                    drift += int(line.split(",")[1].strip(" >\n"))
    ctx.notes["binding"] = "ok" if drift == 0 else f"drifted ({drift} plain/quoted decisions differ from Quoting!EmittedPlain; not a violation)"
    classify_mismatches(ctx, mism, recs, {}, "value read back differs from the value written (or emitted float text outside the YAML float grammar)")
    return finish(ctx, "model_checking",
                  "strings: every string up to 3/4 symbolic characters over a 16-character adversarial alphabet (TLC, model-level RoundTrips "
                  "invariant) x 6 positions x default + one rotating option set, ~130 look-alikes and troublemakers and random strings up "
                  "to 12 characters over a 45-character alphabet x 6 positions x 8 option sets; integers: every width boundary at root / "
                  "value / key; chars, bool, unit, None; byte arrays <= 2 bytes (sampled in quick) ; f32: every 65521st bit pattern "
                  "(quick) / all 2^32 (thorough); f64 boundaries + random; every distinct float text shape against the YAML float grammar",
                  ASSUME_COMMON + ["round trip through the crate's own reader; string positions are root, sequence item, mapping value, "
                                   "mapping key, flow sequence item, newtype variant payload"])


# ------------------------------------------------------------------------------------------------
# C13 / C20 (value grammar of Emitter.tla)
# ------------------------------------------------------------------------------------------------
def _tree_has(v, pred):
    return pred(v) or any(_tree_has(x, pred) for x in v.get("xs", []))


def emitter_matchers():
    def opt_bits(d):
        o = d.get("opt", "")
        return int(o[1:]) if o.startswith("m") and o[1:].isdigit() else 0

    def empty_braces_off(rec, d):
        return isinstance(d, dict) and opt_bits(d) & 4 and _tree_has(d["tree"], lambda v: v["t"] in ("Seq", "Map", "Struct", "Tup") and not v["xs"])

    def complex_key_indent4(rec, d):
        if not (isinstance(d, dict) and (opt_bits(d) & 1 or d.get("opt", "").startswith("i"))):      # indent_step other than 2
            return False
        def has(v):
            if v["t"] == "Map":
                for i in range(0, len(v["xs"]), 2):
                    val = v["xs"][i + 1]
                    while val["t"] in ("Some", "NS", "FlowSeq", "FlowMap", "Commented", "SpaceAfter") and val["xs"]:
                        val = val["xs"][0]
                    if v["xs"][i]["t"] in ("Seq", "Struct", "Map", "Tup") and val["t"] in ("Map", "Struct", "SV", "NV", "TV") and (len(val["xs"]) >= 2 or val["t"] in ("SV", "NV", "TV")):
                        return True
            return False
        return _tree_has(d["tree"], has)
    def bare(v):
        return v["xs"][0] if v["t"] in ("FlowSeq", "FlowMap", "Commented", "SpaceAfter") else v

    def flowmap_complex_key(rec, d):
        def complex_map(m):
            return m["t"] == "Map" and any(bare(m["xs"][i])["t"] not in ("S", "I", "B", "U", "None", "UV", "US") for i in range(0, len(m["xs"]), 2))
        def has(v):
            return v["t"] in ("FlowMap", "FlowSeq") and _tree_has(v, complex_map)
        return isinstance(d, dict) and "non-scalar key" in d.get("text", "") and _tree_has(d["tree"], has)

    def variant_inside_flow(rec, d):
        def inside(v):
            return _tree_has(v, lambda x: x["t"] in ("NV", "TV", "SV"))
        return isinstance(d, dict) and _tree_has(d["tree"], lambda v: v["t"] in ("FlowSeq", "FlowMap") and inside(v))
    def empty_lit_in_option(rec, d):
        def has(v):
            return v["t"] == "Some" and v["xs"] and bare(v["xs"][0])["t"] in ("Lit", "Fold") and bare(v["xs"][0])["s"] == ""
        return isinstance(d, dict) and _tree_has(d["tree"], has)
    def foldstr_folds(rec, d):
        # an explicit FoldStr whose text has a line break before its last character: readers fold it (documented)
        def has(v):
            return v["t"] == "Fold" and ("\n" in v["s"].rstrip("\n") or v["s"].endswith("\n\n"))
        return isinstance(d, dict) and d.get("verdict") in ("value-changed", "layout-changed-data") and _tree_has(d["tree"], has)
    def spaceafter_keep(rec, d):
        # a SpaceAfter somewhere, a Lit ending in two or more line breaks somewhere below it, and exactly one extra "\n" read back
        def has(v):
            return v["t"] == "SpaceAfter" and _tree_has(v, lambda x: x["t"] == "Lit" and x["s"].endswith("\n\n"))
        return isinstance(d, dict) and d.get("verdict") in ("value-changed", "layout-changed-data") and _tree_has(d["tree"], has)
    def indent_step_1(rec, d):
        return isinstance(d, dict) and d.get("opt", "") in ("i1", "i1c")
    return {"C20-spaceafter-keep-block-scalar": spaceafter_keep, "C13-indent-step-1": indent_step_1, "C20-indent-step-1": indent_step_1, "C20-foldstr-folds-line-breaks": foldstr_folds, "C20-empty-litstr-in-option": empty_lit_in_option, "C13-empty-as-braces-off": empty_braces_off, "C13-complex-key-value-map-indent4": complex_key_indent4,
            "C20-empty-as-braces-off": empty_braces_off, "C20-complex-key-value-map-indent4": complex_key_indent4,
            "C20-flowmap-complex-key": flowmap_complex_key, "C20-variant-inside-flow": variant_inside_flow}


def emitter_check(ctx, which):
    q = ctx.quick()
    decorate = which == "C20"
    cases = ctx.path("cases.ndjson")
    depth = 1 if (q or decorate) else 2
    if decorate and not q:
        depth = 1
    run_mc(ctx, "MC_Emitter", dict(Depth=depth, Decorate=decorate), ["InvDataIdempotent", "InvSameData", "EmitCase"], workers=8, timeout=6000,
           cases_out=cases, label="MC_Emitter")
    ctx.exhaustive = True
    recs = ctx.path("recs.ndjson")
    st = run_vh(ctx, ["c13", "--cases", cases, "--out", recs, "--random", (6000 if q else 150000), "--seed", ctx.seed,
                      "--all-options", 0 if q else 1, "--decorate", 1 if decorate else 0], timeout=20000)
    ctx.evaluations += st["records"]
    ctx.distinct_nontrivial += st["nontrivial"]
    ctx.samples += st["samples"]
    mism = run_tv(ctx, "TV_Emitter", recs, timeout=6000)
    # the detail carries tree/opt/text; no need to look the record up again
    classify_mismatches(ctx, mism, None, emitter_matchers(),
                        "emitted text is not one document that reads back as the value written (Emitter!SameData)" if which == "C13"
                        else "a presentation wrapper or option changed the data (Emitter!SameData / untyped tree comparison)")
    rule = ("values: every tree of Emitter!D1 (quick; 740 values) / D2 (thorough; ~19000) over the full Serde data model (unit, bool, int, "
            "string, option, newtype/tuple/unit structs, sequences, tuples, maps with string / integer / composite keys, structs, all four "
            "enum variant kinds) enumerated by TLC, each under every option vector of a covering set (quick: 17) / all 128 combinations "
            "(thorough); plus random values of depth <= 4 under default + one rotating option vector; non-trivial = distinct values with "
            "more than one node")
    if decorate:
        rule = ("decorated values: every value of Emitter!D1 with one presentation wrapper at the root or around one child (FlowSeq, FlowMap, "
                "Commented with three comment texts, SpaceAfter, LitStr, FoldStr), enumerated by TLC; plus random values of depth <= 4 "
                "with 1-3 wrappers at random positions and adversarial comment texts; option vectors as for C13")
    return finish(ctx, "model_checking", rule,
                  ASSUME_COMMON + ["values are read back through a DeserializeSeed of the same shape issuing the typed deserialize_* calls",
                                   "Some(x) where x is written as null (None, unit) is compared as None: YAML has a single null"])


def check_C13(ctx):
    return emitter_check(ctx, "C13")


def check_C20(ctx):
    return emitter_check(ctx, "C20")


# ------------------------------------------------------------------------------------------------
# C14 / C15 (AnchorStore)
# ------------------------------------------------------------------------------------------------
def c14_matchers():
    def parts(d):
        c = (d.get("rec") or {}).get("container", "")
        return c.split("/") if c.count("/") == 2 else None
    def block_scalar(rec, d):
        p = parts(d)
        return bool(p) and p[1] in ("str-lines", "str-long")
    def variant_in_flow(rec, d):
        p = parts(d)
        return bool(p) and p[0] == "flow-seq" and p[1] in ("enum-newtype", "enum-tuple", "enum-struct")
    def empty_braces_off(rec, d):
        p = parts(d)
        return bool(p) and p[1] in ("seq-empty", "map-empty") and p[2].startswith("m") and p[2][1:].isdigit() and int(p[2][1:]) & 4 != 0
    def weak_to_binary(rec, d):
        p = parts(d)
        r = d.get("rec") or {}
        return bool(p) and p[0] == "seq-enum" and p[1] == "bytes" and "binary" in (r.get("err") or "")
    return {"C14-weak-alias-to-non-utf8-binary": weak_to_binary, "C14-block-scalar-anchor-leaks": block_scalar, "C14-variant-payload-inside-flow": variant_in_flow, "C14-empty-as-braces-off": empty_braces_off}


def check_C14(ctx):
    q = ctx.quick()
    cases = ctx.path("cases.ndjson")
    run_mc(ctx, "MC_AnchorStore", dict(MaxAllocs=3, MaxFields=4 if q else 5, ScopeSaves=True, MaxCalls=0),
           ["InvSharing", "InvEmitOnce", "InvWeakFirstIsError", "EmitCase"], workers=8, timeout=3000, cases_out=cases, label="MC_AnchorStore_sharing")
    ctx.exhaustive = True
    recs = ctx.path("recs.ndjson")
    st = run_vh(ctx, ["c14", "--cases", cases, "--out", recs, "--random", 500 if q else 20000, "--seed", ctx.seed, "--chain", 3 if q else 4, "--dags", 400 if q else 20000])
    ctx.evaluations += st["records"]
    ctx.distinct_nontrivial += st["nontrivial"]
    ctx.samples += st["samples"]
    ctx.notes["payload_family_records"] = st.get("payload_records", 0)
    mism = run_tv(ctx, "TV_AnchorStore", recs, timeout=3000)
    classify_mismatches(ctx, [(m[0], {"verdict": m[1]["verdict"], "rec": m[1]["rec"]}, m[2], m[3]) for m in mism], None, c14_matchers(),
                        "pointer-equality classes after the round trip differ from AnchorStore!SameSharing, a payload changed, or a shared node was not emitted exactly once")
    return finish(ctx, "model_checking",
                  "graphs: every list of <= 4/5 fields (strong / weak / dangling weak) over 3 allocations enumerated by TLC, each built from "
                  "Rc wrappers in a sequence, a map and a struct and from Arc wrappers in a sequence, plus random graphs of <= 9 fields; "
                  "recursive wrappers: every parent chain of length <= 3/4 with every choice of back edge (to any ancestor, itself, or "
                  "none) through Option<RcRecursion>; compared by pointer-equality classes; payload family: a rotating seventh (quick) of "
                  "the enumerated field lists x 19 payload kinds (plain / quoted / multi-line / long / empty string, int, bool, option, sequence, "
                  "empty and nested sequence, map, empty map, unit / newtype / tuple / struct variant, tuple, struct) x 5 parent positions "
                  "(enum-wrapped item, direct item, map value, optional struct field, flow sequence) x default + one rotating option set, "
                  "checked for sharing classes, payload equality and the number of anchors / aliases in the text (AnchorStore!DefCount / "
                  "AliasCount); non-trivial = graphs in which two fields share",
                  ASSUME_COMMON + ["graphs with a weak field before its strong owner are outside the documented domain (the model shows "
                                   "they cannot be read back) and are skipped"])


def check_C15(ctx):
    q = ctx.quick()
    run_mc(ctx, "MC_AnchorStore", dict(MaxAllocs=1, MaxFields=0, ScopeSaves=True, MaxCalls=3 if q else 4), ["InvCleanAtBoundary"],
           properties=["NestedTransparent"], workers=4, timeout=3000, label="MC_AnchorStore_histories")
    cases = ctx.path("cases.ndjson")
    run_mc(ctx, "MC_Histories", dict(MaxLen=3 if q else 4, NCalls=15), ["EmitCase"], workers=4, timeout=3000, cases_out=cases, label="MC_Histories")
    ctx.exhaustive = True
    recs = ctx.path("recs.ndjson")
    st = run_vh(ctx, ["c15", "--cases", cases, "--out", recs, "--random", 300 if q else 20000, "--seed", ctx.seed])
    ctx.evaluations += st["records"]
    ctx.distinct_nontrivial += st["nontrivial"]
    ctx.samples += st["samples"]
    mism = run_tv(ctx, "TV_AnchorStore", recs, timeout=3000)
    classify_mismatches(ctx, [(m[0], {"verdict": m[1]["verdict"], "rec": m[1]["rec"]}, m[2], m[3]) for m in mism], None, {},
                        "a call's result differs from the same call on a fresh thread, or thread-local state leaked / a nested call was not transparent")
    return finish(ctx, "model_checking",
                  "histories: every sequence of <= 3/4 calls over 15 call kinds (ok with sharing, failure inside an anchored node, missing "
                  "field, budget breach, panicking visitor, parse nested in a user Deserialize impl at top level (outer anchors held by Rc, Arc, RcRecursive, ArcRecursive wrappers) and inside an anchored "
                  "node, abandoned iterator, serialization with shared pointers, unknown alias, weak reference) enumerated by TLC and run "
                  "on one thread, plus random histories of 4-15 calls; each call's fingerprint is compared with the same call on a fresh "
                  "thread, the thread-local anchor state and fallback location are snapshotted (hooks) after every call and around every "
                  "nested call; non-trivial = histories of at least two calls",
                  ASSUME_COMMON + ["hooks: serde_saphyr::verif_hooks::{anchor_state, missing_field_fallback} (read-only, cfg serde_saphyr_verif)"])


# ------------------------------------------------------------------------------------------------
# C16 (Locations)
# ------------------------------------------------------------------------------------------------
def check_C16(ctx):
    q = ctx.quick()
    cases = ctx.path("cases.ndjson")
    run_mc(ctx, "MC_Locations", dict(MaxLen=4 if q else 5), ["InvOrigin", "InvInjective", "InvMonotone", "InvCRLF", "EmitCase"], workers=8,
           timeout=3000, cases_out=cases, label="MC_Locations")
    ctx.exhaustive = True
    recs = ctx.path("recs.ndjson")
    st = run_vh(ctx, ["c16", "--cases", cases, "--out", recs, "--random", 400 if q else 6000, "--seed", ctx.seed], timeout=6000)
    ctx.evaluations += st["records"]
    ctx.distinct_nontrivial += st["nontrivial"]
    ctx.samples += st["samples"]
    for k in ("span_records", "err_records", "syn_records", "with_alias", "with_merge", "alias_keys", "err_through_alias_or_merge"):
        ctx.notes[k] = st[k]
    mism = run_tv(ctx, "TV_Locations", recs, timeout=6000, shards=12)
    def alias_in_complex_key(rec, d):
        """an alias token, a merge entry or an anchor definition somewhere inside a sequence / mapping that stands in key position"""
        if not (isinstance(d, dict) and d.get("verdict") in ("referenced-names-wrong-site", "merged-entry-not-attributed-to-its-merge")):
            return False
        stack = []          # [is_map, expecting_key, inside_key]
        for e in rec.get("raw", []):
            top = stack[-1] if stack else None
            at_key = bool(top and top[0] and top[1])
            inside = bool(top and top[2])
            k = e.get("k")
            if k in ("S", "AL"):
                if inside and (k == "AL" or e.get("a") or (e.get("v") == "<<" and e.get("q") == "p")):
                    return True
                if top and top[0]:
                    top[1] = not top[1]
            elif k in ("SS", "MS"):
                if (inside or at_key) and e.get("a"):
                    return True
                if top and top[0]:
                    top[1] = not top[1]
                stack.append([k == "MS", True, inside or at_key])
            else:
                if stack:
                    stack.pop()
        return False
    def syn(rec, d):
        return rec.get("kind") == "syn" and isinstance(d, dict) and d.get("verdict") == "error-location-inconsistent"
    def scan_error_after_directive(rec, d):
        return syn(rec, d) and rec.get("yaml", "").lstrip("\ufeff").startswith("%")
    def scan_error_at_eof(rec, d):
        y = rec.get("yaml", "")
        p = rec.get("eprimary", {})
        return syn(rec, d) and p.get("off", -1) >= len(y.lstrip("\ufeff")) and p.get("col") == 1 and not y.endswith(("\n", "\r"))
    matchers = {"C16-quoted-span-runs-to-line-end": lambda rec, d: isinstance(d, dict) and d.get("verdict") == "quoted-span-runs-past-closing-quote",
                "C16-alias-inside-complex-key": alias_in_complex_key,
                "C16-scan-error-after-directive": scan_error_after_directive, "C16-scan-error-at-eof": scan_error_at_eof}
    classify_mismatches(ctx, mism, recs, matchers, "a reported location is inconsistent with the text or names the wrong node / site (Locations!LVerdict, ErrSites)")
    return finish(ctx, "model_checking",
                  "coordinates: every text of <= 4/5 characters over {1-, 2-, 4-byte character, TAB, LF, CR} (TLC: laws of LineAt / ColAt / "
                  "ByteAt) written as comment lines in front of a document with multi-byte key, anchored quoted value and alias, read with "
                  "every node span-wrapped; attribution: random documents (multi-byte scalars and keys, CRLF / CR / LF, tabs, comments, flow "
                  "and block, anchors on values and keys, aliases as values and as keys, merge entries with alias / inline / list sources, "
                  "byte order mark) read with every node span-wrapped and checked node by node against Locations!LVerdict; a type error "
                  "provoked at every non-key node in turn (typed target asks for an integer there) checked against Locations!ErrSites; "
                  "damaged variants (truncation, inserted / deleted character) for the consistency of syntax-error locations; non-trivial "
                  "= documents with an alias or a merge",
                  ASSUME_COMMON + ["independent positions come from saphyr-parser markers on the same text (the parser is trusted for where a "
                                   "node starts; the four coordinates are re-derived from the text by Locations!Consistent)",
                                   "exact source text is required for scalars written on one line; block scalars and multi-line scalars only "
                                   "need a consistent span",
                                   "the definition site of an error below an alias / merge entry is the anchored node (documented behaviour "
                                   "of attach_alias_locations_if_missing), its use site the alias / merge source"])


# ------------------------------------------------------------------------------------------------
# C17 (Snippet)
# ------------------------------------------------------------------------------------------------
def check_C17(ctx):
    q = ctx.quick()
    cases = ctx.path("cases.ndjson")
    run_mc(ctx, "MC_Snippet", dict(MaxLen=6 if q else 9, Radii=[1, 2, 3]), ["InvErrLine", "InvContext", "InvWidth", "EmitCase"], workers=8,
           timeout=3000, cases_out=cases, label="MC_Snippet")
    ctx.exhaustive = True
    recs = ctx.path("recs.ndjson")
    st = run_vh(ctx, ["c17", "--cases", cases, "--out", recs, "--random", 150 if q else 4000, "--seed", ctx.seed], timeout=6000)
    ctx.evaluations += st["records"]
    ctx.distinct_nontrivial += st["nontrivial"]
    ctx.samples += st["samples"]
    for k in ("renders", "miette", "with_window", "dual", "cropped", "families"):
        ctx.notes[k] = st[k]
    mism = run_tv(ctx, "TV_Snippet", recs, timeout=6000, shards=14)
    def v(d):
        return d.get("verdict", "") if isinstance(d, dict) else ""
    matchers = {
        "C17-lone-cr-line-breaks": lambda rec, d: v(d).startswith("lone-cr:"),
        "C17-context-line-left-of-window": lambda rec, d: v(d) == "context-line-left-of-window-shown-uncropped",
    }
    classify_mismatches(ctx, mism, recs, matchers, "rendered report breaks the contract of Snippet.tla (window, crop, marker, control characters)")
    return finish(ctx, "model_checking",
                  "crop arithmetic: every (error line length <= 6/9, context line lengths, column, radius in 1..3) checked by TLC against "
                  "the declarative window / marker contract and replayed as documents (x1 and x3 scale) through the real renderer; reports: "
                  "generated failing documents in 8 families (reflected unknown field / duplicate key / unknown variant text with C0, DEL, C1, "
                  "OSC and CSI sequences written as YAML escapes; raw control characters in source lines; long one-line flow mappings; alias "
                  "errors with use and definition windows; syntax errors at end of input; > 4 KiB lines) x LF / CRLF / lone CR x byte order "
                  "mark x radii {0, 1, 2, 5, 17, 64, 100000} x snippet on / off x developer / user / custom formatter x str / slice / reader "
                  "entry points, plus the same error rendered with snippets off and through the miette adapter; every line of every report "
                  "is checked for control characters, every window against Snippet!WindowVerdict; non-trivial = reports with a cropped line",
                  ASSUME_COMMON + ["rendered lines are classified from their gutter syntax by the harness (`NN | text`, `| ^`), nothing else "
                                   "is interpreted there", "TAB and wide (East Asian) characters are not generated on shown lines: the snippet "
                                   "library expands / widens them, which moves the caret by display width",
                                   "reflected text contains no line feed (a multi-line label interleaves with the source lines)"])


# ------------------------------------------------------------------------------------------------
# C18 (PathMap)
# ------------------------------------------------------------------------------------------------
DECOYS = ("max_count", "Name", "MAXCOUNT", "max-count")


def check_C18(ctx):
    q = ctx.quick()
    cases = ctx.path("cases.ndjson")
    run_mc(ctx, "MC_PathMap", dict(MaxItems=0 if q else 1), ["InvIssues", "InvNoClash", "EmitCase"], workers=2,
           timeout=3000, cases_out=cases, label="MC_PathMap")
    ctx.exhaustive = True
    recs = ctx.path("recs.ndjson")
    st = run_vh(ctx, ["c18", "--cases", cases, "--out", recs, "--random", 250 if q else 6000, "--seed", ctx.seed], timeout=6000)
    ctx.evaluations += st["records"]
    ctx.distinct_nontrivial += st["nontrivial"]
    ctx.samples += st["samples"]
    for k in ("passing", "failing", "multi", "issues", "through_alias_or_merge"):
        ctx.notes[k] = st[k]
    mism = run_tv(ctx, "TV_PathMap", recs, timeout=6000, shards=12)
    def decoy(rec, d):
        return any(e.get("k") == "S" and e.get("v") in DECOYS for doc in rec.get("docs", []) for e in doc.get("raw", []))
    matchers = {"C18-decoy-key-collision": lambda rec, d: isinstance(d, dict) and d.get("verdict") in ("reported-paths-differ", "field-mapped-to-the-wrong-site") and decoy(rec, d)}
    classify_mismatches(ctx, mism, recs, matchers, "validating entry point disagrees with PathMap!Issues (paths, use / definition sites, documents reported) or with the plain entry point")
    return finish(ctx, "model_checking",
                  "family Outer{first, subItem (renamed), items[], tag} / Inner{name, maxCount (renamed)}: every document with <= 0/1 items "
                  "over 6 forms per Inner (direct, alias of a base mapping, merge, merge with either field overridden, name from an aliased "
                  "scalar) x good / bad values enumerated by TLC as raw events (model-level check of the recorder against per-form "
                  "expectations) and rendered in flow or block style; random documents with up to 4 items, several bases, anchors defined "
                  "in place, shuffled fields, ignored extra keys, decoy keys; each through garde and validator via the str entry point and "
                  "in rotation via slice / reader; streams of 2-4 documents via from_multiple_* and read_*; issues are read from the miette "
                  "adapter's related diagnostics (path, use-site and definition-site byte offsets); non-trivial = a reported issue whose "
                  "value came through an alias or merge",
                  ASSUME_COMMON + ["independent positions come from saphyr-parser markers", "documents in which two merge sources supply the "
                                   "same key are skipped (precedence is C03's subject)",
                                   "constrained strings are ASCII (the two crates count length differently otherwise)"])


# ------------------------------------------------------------------------------------------------
# C19 (Robotics)
# ------------------------------------------------------------------------------------------------
def check_C19(ctx):
    q = ctx.quick()
    run_mc(ctx, "MC_Robotics", dict(MaxLen=3 if q else 4, MaxDepth=3, Emit=False),
           ["InvPlanWellFormed", "InvPrecedence", "InvConvertOnce", "InvMixedRejected", "InvDepthLimit"], workers=8, timeout=600, label="MC_Robotics_laws", coverage=False)
    cases = ctx.path("cases.ndjson")
    run_mc(ctx, "MC_Robotics", dict(MaxLen=3 if q else 4, MaxDepth=256, Emit=True), ["InvPlanWellFormed", "EmitCase"], workers=8, timeout=900,
           cases_out=cases, label="MC_Robotics_cases", coverage=False)
    ctx.exhaustive = True
    recs = ctx.path("recs.ndjson")
    st = run_vh(ctx, ["c19", "--cases", cases, "--out", recs, "--random", 400 if q else 20000, "--seed", ctx.seed], timeout=6000)
    ctx.evaluations += st["records"]
    ctx.distinct_nontrivial += st["nontrivial"]
    ctx.samples += st["samples"]
    for k in ("accepted", "rejected", "literals", "bytes", "max_ms"):
        ctx.notes[k] = st[k]
    mism = run_tv(ctx, "TV_Robotics", recs, timeout=6000, shards=12, constants=dict(MaxDepth=256))
    classify_mismatches(ctx, mism, recs, {}, "robotics float evaluation disagrees with Robotics!Parse (acceptance, plan value, ordinary literal, option off) or is not total")
    return finish(ctx, "model_checking",
                  "every token sequence of <= 3/4 tokens over a 15-token alphabet (numbers with separators / exponent, a malformed number, "
                  "pi, deg, rad, an unknown word, a sexagesimal literal, + - * /, parentheses) x {no tag, !degrees, !radians}: TLC checks "
                  "the acceptor's laws (well-formed postfix plan, precedence and associativity instances, one degree conversion per deg() "
                  "call or tag, mixed units under !degrees rejected, nesting limit exact) and emits each sequence with its verdict and plan; "
                  "generated expression trees to depth 4 rendered with required and redundant parentheses, random blanks and letter case; "
                  "damaged token lists (acceptance only); nesting 1..257 and 5 000 / 200 000 levels; ~650 ordinary literals incl. decimals "
                  "next to f32 rounding midpoints, option on versus off, f32 and f64; random strings over an adversarial alphabet for "
                  "totality (panic, > 2 s); values compared bit for bit with the plan folded in f64 (cast to f32 for f32 targets); "
                  "non-trivial = accepted expressions of more than one token",
                  ASSUME_COMMON + ["IEEE arithmetic is folded over the specification's plan by a 40-line stack evaluator in the harness "
                                   "(deg->rad as v * (PI / 180), sexagesimal fields as in the implementation); the specification decides "
                                   "structure, units, limits and errors",
                                   "a run of unary signs is rendered without blanks inside it (the scanner does not skip blanks between signs)",
                                   "the build without the robotics feature cannot be compared in the same binary: option off stands for it"])


# ------------------------------------------------------------------------------------------------
# C01 (Totality)
# ------------------------------------------------------------------------------------------------
def check_C01(ctx):
    q = ctx.quick()
    lim = dict(MaxTotalReplayed=1000000, MaxStackDepth=64, MaxPerAnchor=1000000, NormalizeAnchoredEmptyQuoted=False)
    run_mc(ctx, "MC_Totality", dict(MaxEv=5 if q else 7, Names=[1, 2], Scalars="<- ScalarsAB", AllowContainerKeys=False, **lim), ["MeasureFits"],
           properties=["Progress", "Terminates"], workers=8, timeout=3000, label="MC_Totality", spec="FairSpec", coverage=False)
    run_mc(ctx, "MC_Totality", dict(MaxEv=5 if q else 6, Names=[1, 2], Scalars="<- ScalarsAB", AllowContainerKeys=False,
                                    MaxTotalReplayed=2, MaxStackDepth=1, MaxPerAnchor=1, NormalizeAnchoredEmptyQuoted=False), ["MeasureFits"],
           properties=["Progress", "Terminates"], workers=8, timeout=3000, label="MC_Totality_limits", spec="FairSpec", coverage=False)
    cases = ctx.path("cases.ndjson")
    run_mc(ctx, "MC_Tokens", dict(MaxLen=2 if q else 3), ["EmitCase"], workers=4, timeout=3000, cases_out=cases, label="MC_Tokens", coverage=False)
    ctx.exhaustive = True
    recs = ctx.path("recs.ndjson")
    wdir = ctx.path("w")
    os.makedirs(wdir, exist_ok=True)
    st = run_vh(ctx, ["c01", "--cases", cases, "--out", recs, "--work", wdir, "--mutations", 300 if q else 6000, "--seed", ctx.seed,
                      "--thorough", 0 if q else 1, "--jobs", 14], timeout=3 * 3600)
    ctx.evaluations += st["calls"]
    ctx.distinct_nontrivial += st["nontrivial"]
    ctx.samples += st["samples"]
    for k in ("inputs", "calls", "values", "errors", "bad_inputs", "families"):
        ctx.notes[k] = st[k]
    mism = run_tv(ctx, "TV_Totality", recs, timeout=3000, shards=4)
    def directive_eof(rec, d):
        bad = (d.get("bad") or [{}])[0] if isinstance(d, dict) else {}
        if d.get("verdict") != "timeout" or bad.get("entry") not in ("reader", "read", "wd_reader"):
            return False
        # what the reader delivers ends inside a % directive line: the input's last line is an unterminated % directive, or the
        # input breaks off there (the character source ends at the first broken UTF-8 sequence)
        if rec.get("hex"):
            b = bytes.fromhex(rec["hex"])
            try:
                s = b.decode("utf-8")
            except UnicodeDecodeError as e:
                s = b[:e.start].decode("utf-8", "replace")
        else:
            s = rec.get("sample", "").split("\ufffd")[0]
        last = s.replace("\r", "\n").split("\n")[-1]
        return rec.get("len", 0) <= 4096 and last.lstrip("\ufeff").startswith("%")
    matchers = {"C01-directive-eof-hang": directive_eof}
    classify_mismatches(ctx, mism, recs, matchers, "an entry point panicked, aborted the process, did not return within 20 s, or an error failed to render (Totality!RunVerdict)")
    return finish(ctx, "model_checking",
                  "progress: on every well-formed raw stream of <= 5/7 events TLC checks that each step of the event pump decreases a measure "
                  "and that the pump terminates under weak fairness, with unlimited and with tight alias limits; outcome contract: every "
                  "string of <= 2/3 tokens over a 38-token YAML indicator alphabet (TLC-enumerated), a 15-document corpus with 300/6000 "
                  "mutations (bit flips, deletions, duplications, truncations, inserted indicators / invalid UTF-8), deep and wide inputs "
                  "(flow / block sequences and mappings, unclosed flow, complex keys, a deep anchored node replayed three times, wide "
                  "sequences, long scalars, many documents, sign and parenthesis runs) at nesting 1999, 2000, 2001 and 20 000 (thorough: to "
                  "1 000 000), an alias bomb; each x 9 entry points x 12 target types x 3 option vectors (294 / 168 calls per input), run "
                  "on the main thread of child processes with an 8 MiB stack, a 6 GiB address-space limit and a 20 s per-call watchdog; "
                  "every error is rendered four ways; non-trivial = inputs on which some calls return values and others errors",
                  ASSUME_COMMON + ["a call that terminates after more than 20 s would be reported as a hang; nested complex keys, whose cost "
                                   "grows about cubically with depth (8 s at depth 1600), are therefore generated to depth 400 only",
                                   "release build of the crate (debug builds use more stack per frame)"])


CHECKS = {
    "C01": check_C01,
    "C02": check_C02,
    "C14": check_C14,
    "C16": check_C16,
    "C17": check_C17,
    "C18": check_C18,
    "C19": check_C19,
    "C15": check_C15,
    "C13": check_C13,
    "C20": check_C20,
    "C12": check_C12,
    "C08": check_C08,
    "C09": check_C09,
    "C10": check_C10,
    "C06": check_C06,
    "C05": check_C05,
    "C11": check_C11,
    "C07": check_C07,
    "C03": check_C03,
    "C04": check_C04,
}


def replay(pid, path):
    obj = json.load(open(path))
    print(json.dumps(obj, indent=1)[:4000])
    rec = obj.get("record") or {}
    if "yaml" in rec:
        r = subprocess.run([vlib.VH, "show", "--yaml", rec["yaml"]], capture_output=True, text=True)
        print(r.stdout)
    return 0
