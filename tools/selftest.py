#!/usr/bin/env python3
"""tools/selftest.py — demonstrates that the action-level trace validators are bound to what the hooks record.

Takes the step logs the last quick runs of C02, C03 and C07 left under work/ (recorded from the real code by the hooks
pump_trace / ma_trace / budget_trace), and for each validator (TR_LiveEvents, TR_MapAccess, TR_Budget) builds three
trace files from the first records: the log as recorded, the log with ONE step record removed, the log with ONE logged
number changed by one.  The validator must accept the first and reject exactly the tampered record in the other two.
Not a registered check (it says nothing about /repo); exit 0 = binding demonstrated, 1 = a tampered log was accepted."""
import json, os, sys
sys.path.insert(0, os.path.join(os.path.dirname(os.path.abspath(__file__)), ".."))
import vlib
from vlib import Ctx

W = "/verif/work"
CASES = [
    ("TR_LiveEvents", f"{W}/C02-quick/TR_LiveEvents.traces.ndjson", "held",
     dict(MaxTotalReplayed=1000000, MaxStackDepth=64, MaxPerAnchor=1000000, NormalizeAnchoredEmptyQuoted=False), "Spec"),
    ("TR_MapAccess", f"{W}/C03-quick/ma_traces.ndjson", "seen", None, "TrSpec"),
    ("TR_Budget", f"{W}/C07-quick/budget_traces_perdoc.ndjson", "nodes",
     dict(MaxEv=0, MaxDocs=0, Names=[1], PerDoc=True, AliasToggles=False, ResetAllPerDoc=True, SkipObserves=True), "TrSpec"),
]


def main():
    ctx = Ctx("SELFTEST", "quick", 1)
    bad = 0
    for module, path, field, consts, spec in CASES:
        if not os.path.exists(path):
            print(f"{module}: {path} missing - run the quick check that records it first")
            return 2
        allr = [json.loads(l) for l in open(path)]
        first = next(i for i, r in enumerate(allr) if len(r["steps"]) >= 5)
        recs = allr[max(0, first - 200):first + 200]
        # the victim: the first record with at least five steps
        vi = next(i for i, r in enumerate(recs) if len(r["steps"]) >= 5)
        variants = {"recorded": recs}
        dropped = json.loads(json.dumps(recs))
        del dropped[vi]["steps"][len(dropped[vi]["steps"]) // 2]
        variants["one-step-removed"] = dropped
        changed = json.loads(json.dumps(recs))
        st = changed[vi]["steps"][len(changed[vi]["steps"]) // 2]
        st[field] = st[field] + 1
        variants[f"one-number-changed({field})"] = changed
        for name, rs in variants.items():
            f = ctx.path(f"{module}.{name.split('(')[0]}.ndjson")
            with open(f, "w") as o:
                for r in rs:
                    o.write(json.dumps(r) + "\n")
            mism = vlib.run_tv(ctx, module, f, label=f"{module}-{name.split('(')[0]}", constants=consts, invariants=["Count"], spec=spec, timeout=600, shards=1)
            ids = sorted({m[0] for m in mism})
            want = [] if name == "recorded" else [recs[vi]["id"]]
            ok = ids == want
            print(f"{module:14s} {name:28s} rejected={ids} expected={want} {'ok' if ok else 'BINDING NOT DEMONSTRATED'}")
            bad += 0 if ok else 1
    return 1 if bad else 0


if __name__ == "__main__":
    sys.exit(main())
