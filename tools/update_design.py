#!/usr/bin/env python3
"""Regenerates the tables of DESIGN.md section 0.4 (findings) and 0.5 (seeded changes) from known_findings.json,
seeded/*/meta.json and seeded/RESULTS.json."""
import json, subprocess, re
D = "/verif/DESIGN.md"
s = open(D).read()
kf = json.load(open("/verif/known_findings.json"))["findings"]
cell = lambda t: t.replace("|", "\\|").replace("\n", " ")
fixed = [f for f in kf if f["status"] == "fixed"]
known = [f for f in kf if f["status"] == "known"]
fx = "| property | commit | what failed |\n|---|---|---|\n" + "\n".join(
    f"| {f['property']} | `{f['commit']}` | {cell(f['what'].split(f['commit'], 1)[-1].strip())} |" for f in fixed)
kn = "| property | id | what fails |\n|---|---|---|\n" + "\n".join(f"| {f['property']} | `{f['id']}` | {cell(f['what'])} |" for f in known)
seed = subprocess.run(["python3", "/verif/tools/seeded_table.py"], capture_output=True, text=True).stdout.rstrip("\n")
def put(name, body):
    global s
    a, b = f"<!-- BEGIN {name} -->", f"<!-- END {name} -->"
    assert a in s and b in s, name
    s = s[:s.index(a) + len(a)] + "\n" + body + "\n" + s[s.index(b):]
put("FIXED", fx)
put("KNOWN", kn)
put("SEEDED", seed)
import os
if os.path.exists("/verif/mutation/results.ndjson") and "<!-- BEGIN MUTATION -->" in s:
    put("MUTATION", subprocess.run(["python3", "/verif/tools/mutation_summary.py"], capture_output=True, text=True).stdout.rstrip("\n"))
open(D, "w").write(s)
print("fixed", len(fixed), "known", len(known))
