#!/bin/bash
# usage: tools/rebase_seed.sh <id> <base-commit> : carries seeded/<id>'s patch (made against <base-commit>) over to /repo HEAD
# by committing it on a scratch worktree at <base-commit> and cherry-picking base..HEAD on top; writes seeded/<id>/patch_rebased.diff
ID=$1; BASE=$2; WT=/tmp/wt/rebase_$ID
P=/verif/seeded/$ID/patch_rebased.diff; [ -f $P ] || P=/verif/seeded/$ID/patch.diff
cd /repo && git worktree add -q --detach $WT $BASE || exit 2
cd $WT && git apply --3way $P 2>/dev/null || git apply $P || { echo "$ID: patch does not apply to $BASE"; cd /repo; git worktree remove --force $WT; exit 1; }
git add -A && git -c user.email=x@x -c user.name=x commit -q -m "seed $ID"
HEAD_MAIN=$(git -C /repo rev-parse HEAD)
if git -c user.email=x@x -c user.name=x cherry-pick $BASE..$HEAD_MAIN >/dev/null 2>&1; then
  git diff $HEAD_MAIN HEAD -- src > /verif/seeded/$ID/patch_rebased.diff
  echo "$ID: rebased ($(wc -l < /verif/seeded/$ID/patch_rebased.diff) lines)"
else
  echo "$ID: cherry-pick conflict"; git cherry-pick --abort
fi
cd /repo && git worktree remove --force $WT
