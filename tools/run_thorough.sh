#!/bin/bash
# runs the thorough tier of the given checks (default: all) one after another; summary lines to stdout
cd /verif
IDS="$@"; [ -z "$IDS" ] && IDS="C02 C03 C04 C05 C06 C07 C08 C09 C10 C11 C12 C13 C14 C15 C16 C17 C18 C19 C20 C01"
for p in $IDS; do
  s=$(date +%s)
  ./check $p --tier thorough > work/thorough_$p.log 2>&1; rc=$?
  e=$(date +%s)
  echo "$p rc=$rc $((e-s))s $(grep -c '^VIOLATION' work/thorough_$p.log) violations; $(grep -E '^\[done' work/thorough_$p.log)"
done
