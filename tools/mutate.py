#!/usr/bin/env python3
"""Small mutation generator for /repo/src (development aid, not a registered check).

usage: tools/mutate.py gen <out-dir> [--per-file N] [--seed S] [--files src/a.rs,src/b.rs]
Writes one unified diff per mutant (applies with `git apply` at /repo's HEAD) plus index.json with
{id, file, line, op, before, after, checks}.  Operators are syntactic and local to one line:
  cmp    == <-> !=, < <-> <=, > <-> >=            (in conditions)
  logic  && <-> ||                                 (in conditions)
  off1   + 1 -> + 2 / - 1 -> - 0 / `+= 1` -> `+= 2`
  bool   `= true;` <-> `= false;`
  drop   a statement line `self.<field> = ...;` or `self.<call>(...)?;` removed
  ret    `return Ok(None);` / `continue;` swapped
Lines under #[cfg(serde_saphyr_verif)], in comments, in `mod tests` and attribute lines are skipped.
`checks` = the properties whose quick check is run for that file (tools/mutant_run.sh)."""
import json, os, random, re, subprocess, sys

REPO = "/repo"
FILE_CHECKS = {
    "src/live_events.rs": ["C02", "C11", "C09", "C16", "C08"],
    "src/de.rs": ["C05", "C03", "C06", "C16", "C04", "C02"],
    "src/budget.rs": ["C07"],
    "src/ser.rs": ["C13", "C12", "C20", "C14"],
    "src/ser_quoting.rs": ["C12"],
    "src/parse_scalars.rs": ["C06"],
    "src/buffered_input.rs": ["C09", "C10"],
    "src/ring_reader.rs": ["C17", "C09"],
    "src/anchor_store.rs": ["C14", "C15"],
    "src/anchors.rs": ["C14", "C15"],
    "src/robotics.rs": ["C19"],
    "src/path_map.rs": ["C18"],
    "src/de/snippet.rs": ["C17"],
    "src/de/spanned_deser.rs": ["C16"],
    "src/de/with_deserializer.rs": ["C09", "C11"],
    "src/lib.rs": ["C11", "C09", "C18", "C10", "C17"],
    "src/wrapping.rs": ["C20", "C12"],
    "src/long_strings.rs": ["C20"],
    "src/base64.rs": ["C06"],
    "src/de_error.rs": ["C17", "C16", "C18", "C15"],
    "src/location.rs": ["C16"],
    "src/tags.rs": ["C06", "C05"],
}


def candidates(path):
    lines = open(os.path.join(REPO, path)).read().split("\n")
    out = []
    skip_next = 0
    in_tests = False
    depth_cfg = None
    for i, ln in enumerate(lines):
        s = ln.strip()
        if re.match(r"#\[cfg\(test\)\]", s) or re.match(r"mod tests\b", s):
            in_tests = True
        if in_tests:
            continue
        if "cfg(serde_saphyr_verif)" in s:
            skip_next = 2
            continue
        if skip_next:
            skip_next -= 1
            continue
        if not s or s.startswith("//") or s.startswith("#[") or s.startswith("///") or "verif_" in s or "debug_assert" in s:
            continue
        code = ln.split("//")[0]
        if code.count('"') % 2 == 1:
            continue
        is_cond = bool(re.search(r"\b(if|while|matches!|&&|\|\|)\b", code)) or code.rstrip().endswith(("&&", "||"))
        # cmp
        if is_cond:
            for a, b in [(" == ", " != "), (" != ", " == "), (" <= ", " < "), (" >= ", " > "), (" < ", " <= "), (" > ", " >= ")]:
                if a in code and "->" not in code and "=>" not in code.replace(">=", ""):
                    j = code.index(a)
                    if a.strip() in ("<", ">") and re.search(r"[A-Za-z_>]<[A-Za-z&'\[(]", code):
                        continue
                    out.append((i, "cmp", ln, ln[:j] + b + ln[j + len(a):]))
                    break
            for a, b in [(" && ", " || "), (" || ", " && ")]:
                if a in code:
                    j = code.index(a)
                    out.append((i, "logic", ln, ln[:j] + b + ln[j + len(a):]))
                    break
        m = re.search(r" \+ 1\b", code)
        if m and "=>" not in code:
            out.append((i, "off1", ln, ln[:m.start()] + " + 2" + ln[m.end():]))
        m = re.search(r" - 1\b", code)
        if m:
            out.append((i, "off1", ln, ln[:m.start()] + " - 0" + ln[m.end():]))
        m = re.search(r"\+= 1;", code)
        if m:
            out.append((i, "off1", ln, ln[:m.start()] + "+= 2;" + ln[m.end():]))
        m = re.search(r"= true;\s*$", code)
        if m and "let " not in code and "const " not in code:
            out.append((i, "bool", ln, ln[:m.start()] + "= false;"))
        m = re.search(r"= false;\s*$", code)
        if m and "let " not in code and "const " not in code:
            out.append((i, "bool", ln, ln[:m.start()] + "= true;"))
        if re.match(r"\s*self\.(ser\.)?[a-z_]+ = [^;{]+;\s*$", code) or re.match(r"\s*self\.(ser\.)?[a-z_]+\([^;{]*\)\?;\s*$", code):
            out.append((i, "drop", ln, None))
    return lines, out


def make_diff(path, lines, i, new):
    a = lines[:]
    if new is None:
        b = lines[:i] + lines[i + 1:]
    else:
        b = lines[:i] + [new] + lines[i + 1:]
    import difflib
    d = difflib.unified_diff([x + "\n" for x in a], [x + "\n" for x in b], f"a/{path}", f"b/{path}", n=3)
    return "".join(d)


def main():
    if len(sys.argv) < 3 or sys.argv[1] != "gen":
        print(__doc__)
        return 2
    out = sys.argv[2]
    per = 6
    seed = 1
    a = sys.argv[3:]
    for k in range(0, len(a), 2):
        if a[k] == "--per-file":
            per = int(a[k + 1])
        if a[k] == "--seed":
            seed = int(a[k + 1])
    os.makedirs(out, exist_ok=True)
    rng = random.Random(seed)
    index = []
    n = 0
    only = None
    for k in range(0, len(a), 2):
        if a[k] == "--files":
            only = set(a[k + 1].split(","))
    for path, checks in FILE_CHECKS.items():
        if not os.path.exists(os.path.join(REPO, path)) or (only and path not in only):
            continue
        lines, cands = candidates(path)
        # weight: larger files get proportionally more
        k = min(len(cands), max(2, int(per * (1 + len(lines) / 1500))))
        for (i, op, before, after) in rng.sample(cands, k):
            n += 1
            mid = f"m{n:04d}"
            open(os.path.join(out, mid + ".diff"), "w").write(make_diff(path, lines, i, after))
            index.append(dict(id=mid, file=path, line=i + 1, op=op, before=before.strip(), after=(after.strip() if after else "<deleted>"), checks=checks))
    json.dump(index, open(os.path.join(out, "index.json"), "w"), indent=1)
    print(f"{n} mutants in {out}")
    return 0


if __name__ == "__main__":
    sys.exit(main())
