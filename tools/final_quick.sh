#!/bin/bash
cd /verif
for p in C01 C02 C03 C04 C05 C06 C07 C08 C09 C10 C11 C12 C13 C14 C15 C16 C17 C18 C19 C20; do
  s=$(date +%s)
  ./check $p --tier quick > work/final_quick_$p.log 2>&1; rc=$?
  e=$(date +%s)
  echo "$p rc=$rc $((e-s))s $(grep -c '^VIOLATION' work/final_quick_$p.log) violations; $(grep -c '^KNOWN-FINDING' work/final_quick_$p.log) known"
done
