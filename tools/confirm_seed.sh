#!/bin/bash
# usage: tools/confirm_seed.sh <name>   (worktree /tmp/wt/<name>, deliverables /tmp/seedout/<name>)
# Confirms independently: patch applies to a clean tree, builds, suite passes with it, demo fails with it
# and passes without it. Then stores /verif/seeded/<name>/ and removes the scratch worktree.
N=$1; WT=/tmp/wt/$N; OUT=/tmp/seedout/$N
cd $WT || exit 2
git checkout -q -- . ; git clean -fdq -e target
git apply $OUT/patch.diff || { echo "patch does not apply"; exit 1; }
if git diff --name-only | grep -v '^src/' ; then echo "patch touches non-src"; fi
cargo build --offline -q 2>/dev/null || { echo "default build fails"; exit 1; }
cargo build --offline -q --features garde,validator,robotics,miette 2>/dev/null || { echo "feature build fails"; exit 1; }
SUITE=$(cargo nextest run --workspace --no-fail-fast --test-threads 8 --offline 2>&1 | grep -E "Summary" | tail -1)
echo "suite with patch: $SUITE"
DEMO=$(ls $OUT/*.rs | head -1)
cp $DEMO tests/demo_test.rs
WITH=$(cargo test --offline $FEATURES --test demo_test 2>&1 | grep -E "^test result" | tail -1)
echo "demo with patch: $WITH"
git checkout -q -- src
WITHOUT=$(cargo test --offline $FEATURES --test demo_test 2>&1 | grep -E "^test result" | tail -1)
echo "demo without patch: $WITHOUT"
rm -f tests/demo_test.rs
OKS=0
echo "$SUITE" | grep -q "1627 passed" && echo "$WITH" | grep -q "FAILED" && echo "$WITHOUT" | grep -q "test result: ok" && OKS=1
if [ $OKS = 1 ]; then
  mkdir -p /verif/seeded/$N
  cp $OUT/patch.diff /verif/seeded/$N/patch.diff
  cp $DEMO /verif/seeded/$N/demo_test.rs
  python3 - "$N" "$SUITE" "$WITH" "$WITHOUT" <<'P'
import json,sys
n,suite,w,wo=sys.argv[1:5]
m=json.load(open(f"/tmp/seedout/{n}/meta.json"))
m["confirmed"]={"suite_with_patch":suite.strip(),"demo_with_patch":w.strip(),"demo_without_patch":wo.strip(),
  "how":"tools/confirm_seed.sh: git apply on a clean scratch worktree, default + full-feature build, cargo nextest full suite, demo with and without the patch"}
import subprocess; m["base_commit"]=subprocess.run(["git","-C","/tmp/wt/"+n,"rev-parse","--short","HEAD"],capture_output=True,text=True).stdout.strip()
json.dump(m,open(f"/verif/seeded/{n}/meta.json","w"),indent=1)
P
  echo "CONFIRMED $N"
else
  echo "NOT CONFIRMED $N"
fi
cd /repo && git worktree remove --force $WT
cd /repo && git worktree remove --force $WT 2>/dev/null; git worktree prune
