#!/usr/bin/env python3
"""Regenerates /verif/MANIFEST.json from the table below (keeps it valid and in step with props.py)."""
import json, os, sys
ROOT = os.path.dirname(os.path.dirname(os.path.abspath(__file__)))
sys.path.insert(0, ROOT)

TRUST = ("TLC and the TLA+ community modules; saphyr-parser as the definition of the raw event stream; the harness "
         "renderer (render-checked on every case against saphyr-parser) and its projections of Rust values to records")

CHECKS = {
 "C02": dict(
   category="model_checking",
   text="TLC exhaustively checks the operational model of the LiveEvents pump (record / replay / finalize) against the "
        "declarative alias-free expansion for every well-formed document up to a bound, and the same declarative "
        "operator (YamlModel!ExpandAll) is the oracle of a TLA+ trace validator that decides every recorded call of the "
        "real from_str on all those documents (flow and block renderings) and on random larger ones.",
   design_ref="DESIGN.md section 4 C02",
   note="bounded: documents up to 7 (quick) / 8 (thorough) events exhaustively over 2 anchor names, random up to 40/80 "
        "events beyond; untyped target, LastWins; " + TRUST,
   technique="TLA+ model (LiveEvents.tla) checked by TLC + TLC trace validation of recorded from_str calls against YamlModel!ExpandAll + action-level trace validation of the instrumented pump (TR_LiveEvents)"),
 "C03": dict(
   category="model_checking",
   text="MapAccess.tla states merge semantics declaratively by precedence (own keys first, then the last `<<` entry / last "
        "sequence element that provides a key, recursively); TLC checks the operational machine that mirrors "
        "MA::next_key_seed (seen / pending / merge_stack / flushing) against it for every root mapping up to a bound and "
        "all three policies, and the same declarative operators decide every recorded from_str call (inline, block and "
        "anchored-source renderings, plus random nested merge structures) in a TLA+ trace validator.",
   design_ref="DESIGN.md section 4 C03",
   note="bounded: root mappings up to 10 (quick) / 13 (thorough) events exhaustively; random merge trees of depth <= 3; "
        "merge sources that repeat a key internally are treated as unconstrained; " + TRUST,
   technique="TLA+ model (MapAccess.tla, MapAccessMachine.tla) checked by TLC + TLC trace validation of recorded calls against MapAccess!Conf + action-level trace validation of the instrumented MA::next_key_seed loop (TR_MapAccess)"),
 "C04": dict(
   category="model_checking",
   text="Same specification as C03 with the duplicate-key policies in focus: key identity is the structural fingerprint "
        "(text + tag, style ignored), Error must fail at the repeated key (class and, for alias-free texts, line/column are "
        "checked), FirstWins must deliver the document without later entries (the machine's skip_one_node cursor invariant "
        "is model-checked), LastWins delivers all; scalar, sequence and mapping keys, near-identical key pools and large "
        "values after the repeated key are generated and every recorded call is decided by the TLA+ trace validator.",
   design_ref="DESIGN.md section 4 C04",
   note="bounded: root mappings up to 9 (quick) / 12 (thorough) events with scalar and sequence keys exhaustively; mapping keys "
        "and 200-1000 event values by random generation; known finding C04-kemn-key is suppressed only for documents containing "
        "such a key; " + TRUST,
   technique="TLA+ model (MapAccess.tla, MapAccessMachine.tla) checked by TLC + TLC trace validation of recorded calls against MapAccess!Conf / Faults + action-level trace validation of the instrumented MA::next_key_seed loop (TR_MapAccess)"),
 "C07": dict(
   category="model_checking",
   text="Budget.tla defines the eight counted quantities as an independent count over the observed stream (raw parser events "
        "plus the expansion of every alias, an alias and its replay being one node) and the set of quantities that exceed "
        "first; MC_Budget checks the enforcer machine (observe per raw and per replayed event, per-document reset, the "
        "iterator's skip_to_next_document) against it on every stream up to a bound; every recorded call of from_str, "
        "from_multiple, check_yaml_budget and read with limits = usage / usage-1 / unlimited and the ratio rule at its "
        "thresholds is decided by the TLA+ trace validator from the raw events saphyr-parser gives for the text.",
   design_ref="DESIGN.md section 4 C07",
   note="bounded: streams of <= 2 documents up to 10/11 events exhaustively, three-document streams built from each single "
        "document (three copies; the document around an over-limit one) and random streams of <= 3 documents beyond; the events "
        "threshold is not exercised for the streaming iterator (the stream-end marker is counted against the last document); " + TRUST,
   technique="TLA+ model (Budget.tla, MC_Budget.tla) checked by TLC + TLC trace validation of recorded budgeted calls against Budget!Usage / FirstExceeded + action-level trace validation of the instrumented enforcer (TR_Budget)"),
 "C11": dict(
   category="model_checking",
   text="Stream.tla gives the declarative meaning of a stream as the list of its documents (null/empty skipped, type errors "
        "are items, a scanner failure ends the list, any second document makes single-document entry points fail) and MC_Stream "
        "checks operational models of ReadIter::next (peek / null skip / deserialize / skip_to_next_document / finished) and of "
        "from_multiple against it for every kind sequence up to a bound, including termination under fairness, and of the same "
        "iterator given a budget (a budget error is an item, wherever in the document it was raised, and the iteration goes on); "
        "every text is then run through all batch, iterator (plain, validating, with and without a budget) and single-document "
        "entry points and decided by the TLA+ trace validator.",
   design_ref="DESIGN.md section 4 C11",
   note="bounded: all sequences of <= 3 (quick) / 4 (thorough) kinds over 13 document kinds x marker/comment variants, random longer "
        "streams; whether the iterator ends or goes on after an unknown-alias error is not prescribed (both admissible); " + TRUST,
   technique="TLA+ model (Stream.tla, MC_Stream.tla incl. liveness) checked by TLC + TLC trace validation of recorded entry-point results"),
 "C05": dict(
   category="model_checking",
   text="TypedCursor.tla is the reference interpreter the property asks for: Faithful(schema, events, node) fills every Rust "
        "position from the YAML node at the corresponding position or fails, with the documented leniencies spelled out; TLC "
        "checks algebraic laws of it on every small document and enumerates the documents; the harness forms the product with a "
        "schema family and schema-directed near-miss documents, runs the real typed deserialize_* calls through a run-time "
        "Schema seed via from_str, with_deserializer_from_str, from_multiple and read, and the TLA+ trace validator decides "
        "every record against FaithfulDoc.",
   design_ref="DESIGN.md section 4 C05",
   note="bounded: all documents up to 6 (quick) / 7 (thorough) events x 45 schemas of depth <= 2 exhaustively; random schemas of "
        "depth <= 3 with mutated matching documents beyond; integers are single digits, strings from a small alphabet (scalar "
        "interpretation itself is C06); tagged enum notation not yet in the model; " + TRUST,
   technique="TLA+ reference interpreter (TypedCursor.tla) + TLC laws/enumeration + TLC trace validation of recorded typed calls"),
 "C06": dict(
   category="model_checking",
   text="Scalars.tla transcribes the scalar tables as pure operators over strings (integer notation with exact width checks "
        "done on normalised digit strings against boundary tables, YAML 1.1 / strict booleans, null-likes, string acceptance "
        "incl. no_schema, the untyped inference order) and Base64.tla the strict canonical decoder; TLC self-checks the digit "
        "arithmetic against real arithmetic for 8/16 bit, checks width laws over the corpus and enumerates the finite products; "
        "every cell is executed against the real crate for all integer widths, bool, String, f64 and the untyped target and decided "
        "by the TLA+ trace validator; exhaustive over the stated finite domain.",
   design_ref="DESIGN.md section 4 C06",
   note="quick: all tokens x 3 styles at default options + reduced tag/option combinations; thorough: full product; char, Option and "
        "!!binary-into-String targets and literal/folded styles are not yet in the table; finite float values delegated to Rust; " + TRUST,
   technique="TLA+ table transcription (Scalars.tla, Base64.tla) evaluated by TLC + TLC trace validation of every executed cell"),
 "C09": dict(
   category="model_checking",
   text="ReaderInput.tla states what the character source must deliver for a text (UTF-8 widths), a read schedule, an ending and a "
        "cap; MC_ReaderInput checks the ChunkedChars machine (lead byte, continuation bytes under short reads, cap, end of source) "
        "against it for EVERY schedule of every small text; recorded reader-based calls under exhaustive/adversarial chunkings are "
        "decided by the TLA+ trace validator: same value, or same error kind at the same line and column, as the in-memory entry "
        "points; BOM ignored; the borrowing clause is checked on a table of scalar styles.",
   design_ref="DESIGN.md section 4 C09",
   note="bounded: texts <= 3/4 code points x all schedules in the model; 30 corpus documents x all compositions for <= 10/14 bytes, "
        "sampled/adversarial beyond; the decoder's own buffering (encoding_rs_io) is trusted; " + TRUST,
   technique="TLA+ model (ReaderInput.tla, MC_ReaderInput.tla) checked by TLC + TLC trace validation of recorded reader calls"),
 "C10": dict(
   category="fault_enumeration",
   text="Same specification: ReaderInput!Expected says for every (text, bytes delivered, ending, cap) whether the source ends "
        "cleanly, with an I/O error (fault, or EOF inside a code point) or with the size cap, and the machine is model-checked "
        "against it; every byte position of every corpus document is used as fault position and as early EOF, caps around the "
        "length, with from_reader, read and an error-swallowing target; every write call and byte offset of the writer is failed; "
        "each record is decided by the TLA+ trace validator (must be an error; bytes pulled <= cap + allowance; written bytes a "
        "prefix of the fault-free output).",
   design_ref="DESIGN.md section 4 C10",
   note="fault positions are exhaustive for the corpus documents (<= 90 bytes), two chunkings, four error kinds; " + TRUST,
   technique="fault enumeration decided by TLC trace validation against ReaderInput.tla (model-checked with TLC)"),
 "C08": dict(
   category="model_checking",
   text="Bounds.tla gives closed forms for what alias replay costs (replayed events, nodes delivered) and which alias limit must "
        "stop a parse first; TLC checks the LiveEvents pump against them on every small document under tightened limits (and that "
        "replay never nests, so the stack limit is exact); recorded parses of random aliased documents under 12 limit vectors are "
        "decided from their raw events by the TLA+ trace validator, and attack families over a parameter grid are observed through "
        "a node-counting target and a counting allocator against the closed forms and a fixed heap bound.",
   design_ref="DESIGN.md section 4 C08",
   note="counters: model_checking; peak heap: a measurement bounded by the specification's constant (exploration-level); known finding "
        "C08-nested-anchor-recording is suppressed only for the `nested` family's heap verdict; " + TRUST,
   technique="TLA+ model (LiveEvents.tla + Bounds.tla) checked by TLC + TLC trace validation of limit outcomes and observer counts + action-level trace validation of the instrumented pump (TR_LiveEvents)"),
 "C12": dict(
   category="model_checking",
   text="Quoting.tla models the serializer's decision to write a string plain in a position and, independently, what a YAML "
        "reader makes of that text there; TLC checks on every short string over an adversarial alphabet x positions x yaml_12 "
        "that plain is chosen only when the text reads back as the same string (never null, number, boolean, merge key, "
        "document marker or another string); every string case, look-alike and random string is serialized at six positions "
        "under eight option sets by the real crate and read back, integers at all width boundaries, floats bit for bit, bytes, "
        "chars; the TLA+ trace validator decides identity and checks every emitted float shape against the float grammar.",
   design_ref="DESIGN.md section 4 C12",
   note="bounded: strings <= 3 (quick) / 4 (thorough) symbols exhaustively, random to length 12; quick samples f32 patterns, thorough "
        "sweeps all 2^32; model/real plain-decision differences are reported as binding drift, not violations; " + TRUST,
   technique="TLA+ model (Quoting.tla) checked by TLC + TLC trace validation of recorded round trips"),
 "C13": dict(
   category="model_checking",
   text="Emitter.tla defines the Serde data model as a value grammar and what round-tripping means (SameData: same shape and "
        "leaves, a single YAML null); TLC enumerates every value of the grammar up to a depth (all constructors in all parent "
        "positions incl. integer and composite map keys, all four enum variant kinds); each value is serialized by the real crate "
        "under a covering set / all 128 combinations of serializer options, counted for documents on the parser's event stream, "
        "and read back through a seed of the same shape; the TLA+ trace validator decides every record.",
   design_ref="DESIGN.md section 4 C13",
   note="the serializer's layout state machine itself is not yet transcribed into TLA+ (the scratch layout model of DESIGN.md E.1 is "
        "not part of this check); the specification is the value grammar and the round-trip relation, the binding is the recorded "
        "round trip; known findings C13-empty-as-braces-off and C13-complex-key-value-map-indent4 suppress only matching values; " + TRUST,
   technique="TLA+ value grammar (Emitter.tla) enumerated by TLC + TLC trace validation of recorded round trips"),
 "C20": dict(
   category="model_checking",
   text="Same grammar extended with the presentation wrappers as decorations; Emitter!SameData ignores decorations (a folded "
        "string modulo one trailing line break) and the decorated text must give the same untyped tree as the bare value's "
        "default text; TLC enumerates every small value with one wrapper at the root or around a child; random values carry "
        "1-3 wrappers with adversarial comment texts and keys/strings containing flow indicators; all option vectors; decided by "
        "the TLA+ trace validator.",
   design_ref="DESIGN.md section 4 C20",
   note="known findings (flow wrappers with complex keys or payload variants inside, empty_as_braces off, empty literal in Option, "
        "indent 4 with complex keys) suppress only matching values; " + TRUST,
   technique="TLA+ value grammar with decorations (Emitter.tla) enumerated by TLC + TLC trace validation of recorded round trips"),
 "C14": dict(
   category="model_checking",
   text="AnchorStore.tla models the serializer's ptr->id table (first sight defines, later sights alias, dangling weak = null) "
        "and the deserializer's id->allocation store, and states the property as equality of pointer-equality partitions; TLC "
        "checks it for every graph up to a bound (and that weak-before-strong cannot be read back); every graph is built from the "
        "real Rc and Arc wrappers in sequences, maps and structs, round-tripped by the real crate and compared by ptr_eq classes; "
        "recursive wrappers are exercised on every parent chain with every back-edge choice; decided by the TLA+ trace validator.",
   design_ref="DESIGN.md section 4 C14",
   note="bounded: <= 4/5 fields over 3 allocations exhaustively, random to 9 fields; chains to length 3/4; " + TRUST,
   technique="TLA+ model (AnchorStore.tla) checked by TLC + TLC trace validation of recorded pointer-equality classes"),
 "C16": dict(
   category="model_checking",
   text="Locations.tla defines what a location means on a text of [width, class] code points (LineAt / ColAt / ByteAt with LF, CR LF "
        "and lone CR breaks, Consistent, SpanConsistent) and, over the raw event stream, which use site and definition site every "
        "delivered node has (LVerdict: aliases as values and keys, merge entries with alias / inline / list sources, outermost use "
        "site wins) and which sites an error raised at a node must carry (ErrSites). TLC checks the coordinate laws on every short "
        "text and emits each as a test case; the harness reads generated documents with every node span-wrapped and provokes a type "
        "error at every non-key node; the TLA+ trace validator decides every record.",
   design_ref="DESIGN.md section 4 C16",
   note="bounded: prefixes of <= 4/5 characters exhaustively, random documents of <= ~40 events; positions of node starts are taken "
        "from saphyr-parser markers; one known finding (quoted scalar span runs to the end of the line); " + TRUST,
   technique="TLA+ model (Locations.tla) checked by TLC + TLC-generated texts replayed into the real crate + TLC trace validation of recorded spans and error locations"),
 "C17": dict(
   category="model_checking",
   text="Snippet.tla states the contract of a rendered report over code points (vertical window of two lines either side, every "
        "shown line a slice of its source line inside [col-radius, col+radius] with ellipsis marks, the caret under the reported "
        "column after crop rebasing, no C0 / DEL / C1 anywhere) and transcribes crop_line_by_cols and the span rebasing; TLC "
        "checks on a grid that the transcription satisfies the contract and emits each grid point as a document; the harness "
        "renders real errors through every formatter, entry point, radius and the miette adapter, and the TLA+ trace validator "
        "decides every report line by line.",
   design_ref="DESIGN.md section 4 C17",
   note="bounded: grid lines <= 6/9 characters (x1, x3), generated documents up to ~10 KiB; two known findings (lone CR line breaks, "
        "context line left of the window shown uncropped); " + TRUST,
   technique="TLA+ model (Snippet.tla) checked by TLC + TLC-generated grid cases replayed into the real renderer + TLC trace validation of rendered reports"),
 "C18": dict(
   category="model_checking",
   text="PathMap.tla models the path recorder over the raw event stream (every mapping value and sequence element recorded under "
        "its key / index path with the use site and definition site of Locations.tla, own entries shadowing merged ones) and the "
        "issues a fixed validated family must report (display path, both sites); TLC enumerates the family's documents as raw "
        "events, checks the recorder model against per-form expectations and emits each as a case; the harness runs garde and "
        "validator entry points (str, slice, reader, streams) next to the plain ones and reads the reported issues from the "
        "miette adapter; the TLA+ trace validator decides every call.",
   design_ref="DESIGN.md section 4 C18",
   note="bounded: one fixed type family; <= 0/1 items exhaustively, <= 4 random; PathMap::search's fuzzy passes are exercised only "
        "through renamed fields and decoy keys (one known finding); " + TRUST,
   technique="TLA+ model (PathMap.tla) checked by TLC + TLC-generated documents replayed into the real entry points + TLC trace validation of reported issues"),
 "C19": dict(
   category="model_checking",
   text="Robotics.tla is a token-level recursive-descent acceptor for the robotics float language with the nesting counter and "
        "unit flags as state; its output is a postfix evaluation plan plus the verdict (accepted / rejected, mixed units under "
        "!degrees). TLC checks its laws on every short token sequence and emits each with verdict and plan; the harness renders "
        "the tokens, evaluates them with the real crate (f32 / f64, option on / off, tags) and folds the plan in IEEE f64; the "
        "TLA+ trace validator re-derives verdict and plan from the tokens and compares acceptance, plan and value bit for bit, "
        "and checks ordinary literals and totality.",
   design_ref="DESIGN.md section 4 C19",
   note="bounded: <= 3/4 tokens exhaustively, trees to depth 4 randomly; floating-point folding is done by the harness (TLA+ has no "
        "IEEE arithmetic); !timestamp-tagged sexagesimals are not generated; " + TRUST,
   technique="TLA+ model (Robotics.tla acceptor -> evaluation plan) checked by TLC + TLC-generated token sequences replayed into the real evaluator + TLC trace validation of results"),
 "C01": dict(
   category="model_checking",
   text="Progress: MC_Totality composes the document generator with the LiveEvents pump and checks, with TLC, a strictly decreasing "
        "measure per pump step and termination under weak fairness. Outcome contract: Totality.tla declares the product of entry "
        "points x target types x option vectors per input and what a run record may contain; TLC enumerates all short strings over "
        "the YAML indicator alphabet; the harness runs those, a mutated corpus and deep / wide inputs through every call of the "
        "product in child processes (8 MiB stack, address-space limit, per-call watchdog), rendering every error; the TLA+ trace "
        "validator checks each record and that no call of the product is missing.",
   design_ref="DESIGN.md section 4 C01",
   note="bounded: token strings <= 2/3, nesting to 20 000 / 1 000 000; hang = no return within 20 s; one known finding (reader input "
        "ending inside a % directive never returns, in the parser dependency); " + TRUST,
   technique="TLA+ model (LiveEvents pump progress, Totality outcome contract) checked by TLC + TLC-enumerated inputs replayed into every entry point in watchdogged child processes + TLC trace validation of run records"),
 "C15": dict(
   category="model_checking",
   text="AnchorStore.tla's call-history part models the thread-local state (context stack, store, in-progress set) under nested "
        "scopes, errors and unwinding; TLC checks CleanAtBoundary and NestedTransparent on all histories; every history of calls "
        "up to a bound over 11 call kinds is executed on one thread against the real crate, each call compared with the same call "
        "on a fresh thread (the property's own oracle), with cfg-guarded hooks snapshotting the thread-local state after each "
        "call and around each nested call; decided by the TLA+ trace validator.",
   design_ref="DESIGN.md section 4 C15",
   note="bounded: histories of <= 3/4 calls exhaustively, random to 15 calls; hash seeds are not observable through the API and are "
        "not covered; " + TRUST,
   technique="TLA+ model (AnchorStore.tla histories) checked by TLC + TLC trace validation of recorded call histories with state snapshots"),
}

NOT_YET = "check not built yet (work in progress); it will be claimed once its TLA+ model and conformance harness are registered"


def main():
    ids = [json.loads(l)["id"] for l in open(os.path.join(ROOT, "properties.jsonl"))]
    hooks_commits = []
    hp = os.path.join(ROOT, "hooks_commits.txt")
    if os.path.exists(hp):
        hooks_commits = [l.split()[0] for l in open(hp) if l.strip()]
    m = {
        "version": 1,
        "setup_cmd": "./setup.sh",
        "hooks": {
            "guard": "serde_saphyr_verif",
            "enable": "rustflags --cfg serde_saphyr_verif in /verif/harness/.cargo/config.toml (the harness has a path dependency on /repo, so every check rebuilds /repo's working tree with the cfg on)",
            "baseline_off_cmd": "cd /repo && cargo nextest run --workspace --no-fail-fast --test-threads 8 --offline",
            "source_commits": hooks_commits,
            "add_only": True,
        },
        "engines": [
            {"name": "tlc", "path": "/verif/spec", "serves_properties": sorted(CHECKS),
             "kind_free_text": "TLA+ specifications: MC_* exhaustive design models with case generation, TV_* trace validators over NDJSON recordings of the real crate"},
            {"name": "vh", "path": "/verif/harness", "serves_properties": sorted(CHECKS),
             "kind_free_text": "Rust conformance harness (path dependency on /repo): renders TLC cases, runs the real entry points, records outcomes for the trace validators"},
        ],
        "checks": [],
        "notes": "Every check is `./check <id>`; exit 0 held, 1 VIOLATION lines, 2 tool error. See DESIGN.md.",
        "not_applicable": [],
    }
    for pid in ids:
        c = CHECKS.get(pid)
        if not c:
            m["not_applicable"].append({"property_id": pid, "reason": NOT_YET})
            continue
        m["checks"].append({
            "property_id": pid,
            "quick_cmd": f"./check {pid} --tier quick",
            "thorough_cmd": f"./check {pid} --tier thorough",
            "evidence_file": f"/verif/evidence/{pid}.json",
            "replay_cmd_template": f"./check {pid} --replay {{path}}",
            "engine": "tlc+vh",
            "level_claimed": {"category": c["category"], "text": c["text"], "design_ref": c["design_ref"]},
            "level_note": c["note"],
            "technique": c["technique"],
        })
    json.dump(m, open(os.path.join(ROOT, "MANIFEST.json"), "w"), indent=1)
    print("checks:", [c["property_id"] for c in m["checks"]])


if __name__ == "__main__":
    main()
