#!/usr/bin/env python3
"""Prints the markdown table of DESIGN.md section 0.5 from seeded/*/meta.json and seeded/RESULTS.json."""
import json, glob, os, re
CAUGHT = {
 "C01a": "C01: an error fails to render (`render-panic`) on mutated corpus inputs under the `lenient` option vector (crop radius 3); also C17",
 "C02a": "C02 `TV_LiveEvents` (aliased read differs from the expansion)",
 "C03a": "C03 `TV_MapAccess` (merge precedence)",
 "C04a": "C04 `TV_MapAccess` (duplicate composite key not detected)",
 "C05a": "superseded: the pinned tree had the same class of defect, repaired by `a8f00a1`; C05 rejects both",
 "C06a": "C06 `TV_Scalars` (rebased)", "C07a": "C07 `TV_Budget` (rebased)", "C08a": "C08 `TV_Bounds`",
 "C09a": "C09 `TV_ReaderInput`", "C10a": "C10 `TV_ReaderInput`", "C11a": "C11 `TV_Stream`", "C12a": "C12 `TV_Quoting`",
 "C13a": "C13 `TV_Emitter`", "C14a": "C14 `TV_AnchorStore` (rebased)", "C15a": "C15 `TV_AnchorStore` histories, inner-call oracle (rebased)",
 "C16a": "C16 `TV_Locations` (`merged-entry-not-attributed-to-its-merge`)", "C17a": "C17 `TV_Snippet` (`ring` family)",
 "C18a": "C18 `TV_PathMap` through the Display channels", "C19a": "C19 `TV_Robotics` (`wrong-value`)", "C20a": "C20 `TV_Emitter`",
}
res = json.load(open("/verif/seeded/RESULTS.json")) if os.path.exists("/verif/seeded/RESULTS.json") else {}
print("| id | change | caught by | last sweep |\n|---|---|---|---|")
for d in sorted(glob.glob("/verif/seeded/C*/")):
    i = os.path.basename(d[:-1])
    m = json.load(open(d + "meta.json"))
    s = re.split(r"(?<=[.;])\s", m["summary"])[0].replace("|", "\\|")
    if len(s) > 230:
        s = s[:227] + "..."
    r = res.get(i)
    last = "-" if not r else ("not applicable to HEAD" if not r["applied"] or r["exit"] == 2 else f"exit {r['exit']}, {r['violations']} VIOLATION line(s)")
    print(f"| {i} | {s} | {CAUGHT.get(i, '')} | {last} |")
