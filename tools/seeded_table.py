#!/usr/bin/env python3
"""Prints the markdown table of DESIGN.md section 0.5 from seeded/*/meta.json and seeded/RESULTS.json."""
import json, glob, os, re
CAUGHT = {
 "C01a": "C01: an error fails to render (`render-panic`) on mutated corpus inputs under the `lenient` option vector (crop radius 3); also C17",
 "C02a": "C02 `TV_LiveEvents` (aliased read differs from the expansion)",
 "C03a": "C03 `TV_MapAccess` (merge precedence), `TR_MapAccess`, `TV_TypedMerge`",
 "C04a": "C04 `TV_MapAccess` (duplicate composite key not detected)",
 "C05a": "superseded: the pinned tree had the same class of defect, repaired by `a8f00a1`; C05 rejects both",
 "C06a": "C06 `TV_Scalars` (rebased)", "C07a": "C07 `TV_Budget` (rebased)", "C08a": "C08 `TV_Bounds`",
 "C09a": "C09 `TV_ReaderInput`", "C10a": "C10 `TV_ReaderInput`", "C11a": "C11 `TV_Stream`", "C12a": "C12 `TV_Quoting`",
 "C13a": "C13 `TV_Emitter`", "C14a": "C14 `TV_AnchorStore` (rebased)", "C15a": "C15 `TV_AnchorStore` histories, inner-call oracle (rebased)",
 "C01b": "C01: no return within the limit (`timeout`) for `!!null x` into unit targets (unit / Vec<unit struct> targets and tag tokens were added for it)",
 "C02b": "C02 `TV_LiveEvents` on stale-alias streams (added for it) and C11 `TV_Stream` (nested-anchor definition shape)",
 "C03b": "C03 `TV_MapAccess`", "C04b": "C04 `TV_MapAccess` (plain vs quoted spelling of a repeated key) and `TR_MapAccess` (duplicate decision differs from the machine)", "C05b": "C05 `TV_TypedCursor` (surplus collection elements)",
 "C06b": "C06 `TV_Scalars` (43-digit octal)", "C07b": "C07 `TV_Budget` and `TR_Budget` (key / value phase after a complex key)",
 "C08b": "C08 `TV_Bounds` and `TR_LiveEvents` under tight limits (rebased)", "C09b": "C09 `TV_ReaderInput` (error position differs between entry points)",
 "C10b": "C10 `TV_ReaderInput` (EOF inside a code point)", "C11b": "C11 `TV_Stream`", "C12b": "C12 `TV_Quoting` (letter-case variants of null, added for it)",
 "C13b": "C13 `TV_Emitter`", "C14b": "C14 `TV_AnchorStore` on nested DAGs (added for it)", "C15b": "C15 `TV_AnchorStore`: nested call not transparent (ArcRecursive outer document, added for it)",
 "C16b": "C16 `TV_Locations` (`referenced-names-wrong-site`)", "C17b": "C17 `TV_Snippet` (`ring` family with the failing line inside the retained tail)",
 "C18b": "C18 `TV_PathMap` (use and definition site swapped for merged fields)", "C19b": "C19 `TV_Robotics` (`wrong-value` on the unit-form family, added for it)",
 "C20b": "C20 `TV_Emitter` (block-text pool for Lit / Fold wrappers, added for it)",
 "C01c": "C01 (third round)", "C02c": "C02 `TV_LiveEvents`", "C12c": "C12 `TV_Quoting`", "C14c": "C14 `TV_AnchorStore`",
 "C15c": "C15 `TV_AnchorStore` histories: the `valid-decoy` call (validation lookup with colliding decoy keys, added for it)",
 "C13c": "C13 `TV_Emitter` on the composite-key family `Emitter!KeyNest` (multi-item sequence keys in every parent position, added for it; it also exposed two genuine defects, repaired by `b2473c6` and `1bea8f7`)",
 "C16c": "C16 `TV_Locations`", "C17c": "C17 `TV_Snippet` (marker column of the definition window)",
 "C19c": "C19 `TV_Robotics` (`wrong-value` on generated sexagesimal literals with fractions of up to 26 digits, added for it)",
 "C20c": "C20 `TV_Emitter` on the deep-chain family `Emitter!DeepSet` and random chains of depth 4-20, with indent_step 8 (added for it)",
 "C03c": "C03 `TR_MapAccess` (a logged `yield` step whose seen-set size is not the machine's) and `TV_MapAccess` under LastWins",
 "C04c": "C04 `TV_MapAccess` on the discarding targets (IgnoredAny / a struct that knows none of the keys, added for it); also C05 (`NoDupBelow`)",
 "C05c": "C05 `TV_TypedCursor` (a sequence accepted in a struct position)", "C06c": "C06 `TV_Scalars` (leading-dot floats under no_schema)",
 "C07c": "C07 `TV_Budget`: per-document verdicts now judge every document on its own, also after a rejected one (`rejected-within-limits`, changed for it)",
 "C08c": "C08 `TV_Bounds` (replay beyond max_total_replayed_events accepted)",
 "C09c": "C09 `TV_ReaderInput` on the corpus documents with an explicit `...` followed by unscannable text (added for it)",
 "C10c": "C10 `TV_ReaderInput` kind `enc`: the cap against UTF-8-with-BOM and UTF-16 inputs (`cap-ignored`, `value-from-truncated-input`; added for it)",
 "C11c": "not a violation under the property as stated: it changes whether iteration goes on after an unknown-alias error, which the crate itself classifies as a scan error; `Stream!IterAdmissible` admits both (see 0.5 note)",
 "C18c": "C18 `TV_PathMap` on documents whose Outer mapping takes whole nested values from a `<<` base (added for it)",
 "C04d": "C04 `TR_MapAccess` (duplicate decision on quoted / plain look-alike keys) and `TV_MapAccess`", "C07d": "C07 `TV_Budget` and `TR_Budget` (key / value phase after a complex key)",
 "C13d": "C13 `TV_Emitter` (random values: variant with a map payload as the value of a composite key)", "C14d": "C14 `TV_AnchorStore` (chains with several back edges)",
 "C20d": "C20 `TV_Emitter` (Commented empty sequence as a mapping value)",
 "C09d": "C09 `TV_ReaderInput` kind `agree`: typed requests (deserialize_str, field names, numbers, chars; tagged scalars) through all seven entry points (added for it)",
 "C10d": "C10 `TV_ReaderInput` kind `typed-fault`: typed iterators / readers under every truncation point, fault and cap; values yielded before the error must be those of the complete text (added for it)",
 "C15d": "C15 `TV_AnchorStore` histories (nested call between anchored nodes)", "C19d": "C19 `TV_Robotics` (`wrong-value`, nested unit calls)",
 "C18d": "C18 `TV_PathMap` on the extended family (a map-typed validated field read under DuplicateKeyPolicy::LastWins with repeated keys, added for it): `field-mapped-to-the-wrong-site`",
 "C01d": "C01 on the anchor-arrangement families (nested anchored containers, anchors in a skipped remainder; added for it): `panic`",
 "C02d": "C02 `TV_LiveEvents` on stale-alias streams whose second document first defines an anchor of its own (added for it)",
 "C03d": "C03 `TR_MapAccess` and `TV_MapAccess` under LastWins", "C05d": "C05 `TV_TypedCursor` (short tuples with optional trailing positions)",
 "C06d": "C06 `TV_Scalars` (negative integers with redundant leading zeros read untyped)",
 "C08d": "C08 `TV_Bounds` (replay limit not enforced without a budget)", "C11d": "C11 `TV_Stream` (anchors of a later document visible in the next ones)",
 "C12d": "C12 `TV_Quoting` (block scalar whose first non-empty line is blanks only)", "C16d": "C16 `TV_Locations` (use site of leaves below an aliased container)",
 "C17d": "C17 `TV_Snippet` (marker of the definition window)",
 "C03e": "C03 `TV_MapAccess` on the repeated-source family (one anchored source merged several times in a mapping, other sources in between; added for it)",
 "C05e": "C05 `TV_TypedCursor` on the after-failure records (the document after a failed one in a stream, added for it) and C11 `TV_Stream` on the iterators of pairs (`iter-of-pairs`, added for it)",
 "C13e": "C13 `TV_Emitter` with enum variants with a payload in key position (`Emitter!CKeys`; added for it - which exposed a genuine defect, repaired by `a71383f`)",
 "C14e": "C14 `TV_AnchorStore` on the `stream` container (two documents over the same allocations written by one to_string_multiple call; added for it)",
 "C16e": "C16 `TV_Locations` (definition site of errors below an aliased container)",
 "C18e": "C18 `TV_PathMap` (use site of fields below a merged container)",
 "C02e": "C02 `TV_LiveEvents` on stale-alias streams with a leading anchored document (three documents; added for it); also C11",
 "C04e": "C04 `TV_MapAccess` on the wide-mapping family (6-40 distinct keys, a key repeated next to a capacity boundary; added for it)",
 "C07e": "C07 `TV_Budget` on the `y3n` streams (document, over-limit document failing inside a sequence, document again)",
 "C10e": "C10 `TV_ReaderInput` (typed fault family: `value-from-truncated-input`)",
 "C11e": "C11 `TV_Stream`",
 "C20e": "C20 `TV_Emitter` on the hinted-in-flow family (Lit / Fold inside FlowSeq / FlowMap followed by strings in block context; added for it)",
 "C16a": "C16 `TV_Locations` (`merged-entry-not-attributed-to-its-merge`)", "C17a": "C17 `TV_Snippet` (`ring` family)",
 "C18a": "C18 `TV_PathMap` through the Display channels", "C19a": "C19 `TV_Robotics` (`wrong-value`)", "C20a": "C20 `TV_Emitter`",
}
res = json.load(open("/verif/seeded/RESULTS.json")) if os.path.exists("/verif/seeded/RESULTS.json") else {}
print("| id | change | caught by | last sweep |\n|---|---|---|---|")
for d in sorted(glob.glob("/verif/seeded/C*/")):
    i = os.path.basename(d[:-1])
    m = json.load(open(d + "meta.json"))
    s = re.split(r"(?<=[.;])\s", m["summary"])[0].replace("|", "\\|")
    if len(s) > 230:
        s = s[:227] + "..."
    r = res.get(i)
    last = "-" if not r else ("not applicable to HEAD" if not r["applied"] or r["exit"] == 2 else f"exit {r['exit']}, {r['violations']} VIOLATION line(s)")
    print(f"| {i} | {s} | {CAUGHT.get(i, '')} | {last} |")
