#!/bin/bash
# usage: tools/mutant_run.sh <slot> <mutants-dir> <id>...   (development aid)
# For each mutant id: apply <dir>/<id>.diff to a scratch worktree of /repo's HEAD, build, run the repository's own tests
# (a mutant they kill is not interesting), then the quick checks mapped to the mutated file, in development mode (nothing
# under /repo or /verif is touched). One line per mutant is appended to <dir>/results.ndjson.
SLOT=$1; DIR=$2; shift 2
WT=/tmp/wt/mut$SLOT; H=/tmp/hmut$SLOT; OUT=/tmp/vmut$SLOT
if [ ! -d $WT ]; then git -C /repo worktree add -q --detach $WT HEAD || exit 2; fi
mkdir -p $H/src $H/.cargo $OUT
for ID in "$@"; do
  cd $WT && git reset -q --hard HEAD && git clean -fdq -e target && git checkout -q --detach "$(git -C /repo rev-parse HEAD)"
  CHECKS=$(python3 -c "import json,sys; print(' '.join(next(m['checks'] for m in json.load(open('$DIR/index.json')) if m['id']=='$ID')))")
  res=""; by=""
  if ! git apply $DIR/$ID.diff 2>/dev/null; then res="no-apply"
  elif ! cargo build --offline -q --features garde,validator,robotics,miette 2>/dev/null; then res="no-build"
  else
    rsync -a --delete /verif/harness/src/ $H/src/
    cp /verif/harness/Cargo.lock $H/Cargo.lock
    sed "s#path = \"/repo\"#path = \"$WT\"#" /verif/harness/Cargo.toml > $H/Cargo.toml
    cp /verif/harness/.cargo/config.toml $H/.cargo/config.toml
    res="SURVIVED"
    for C in $(echo $CHECKS | cut -d" " -f1-4); do
      cd /verif && VERIF_DEV_HARNESS=$H VERIF_DEV_OUT=$OUT timeout 1500 ./check $C --tier quick > /tmp/mut_check_$SLOT.out 2>&1
      rc=$?
      if [ $rc = 1 ]; then res="caught"; by=$C; break; fi
      if [ $rc = 124 ]; then res="hang"; by=$C; break; fi
      if [ $rc = 2 ]; then res="tool-error"; by="$C: $(grep -h 'TOOL-ERROR' /tmp/mut_check_$SLOT.out | head -1 | cut -c1-120)"; break; fi
    done
    # the repository's own tests only for what the checks let through (they are the expensive step)
    if [ "$res" = "SURVIVED" ]; then
      cd $WT
      if ! timeout 1200 cargo nextest run --workspace --no-fail-fast --test-threads 6 --offline >/tmp/mut_test_$SLOT.out 2>&1; then res="survived-checks-killed-by-tests"; fi
    fi
  fi
  ( flock 9; echo "{\"id\":\"$ID\",\"result\":\"$res\",\"by\":\"$by\",\"checks\":\"$CHECKS\"}" >> $DIR/results.ndjson ) 9>$DIR/.lock
done
cd $WT && git reset -q --hard HEAD
