#!/bin/bash
# usage: tools/sweep_seeds_dev.sh <slot> <out.ndjson> <id>...   (development mode: nothing under /repo or /verif outputs is touched)
# For each seeded change: a scratch worktree of /repo's HEAD gets the (rebased) patch, a scratch harness copy is built against it,
# the quick check of its property runs with outputs under /tmp/vsw<slot>; one NDJSON line per change is appended to <out.ndjson>.
SLOT=$1; RES=$2; shift 2
WT=/tmp/wt/sw$SLOT; H=/tmp/hsw$SLOT; OUT=/tmp/vsw$SLOT
if [ ! -d $WT ]; then git -C /repo worktree add -q --detach $WT HEAD || exit 2; fi
mkdir -p $H/src $H/.cargo $OUT
for ID in "$@"; do
  PROP=${ID%?}
  P=/verif/seeded/$ID/patch.diff; [ -f /verif/seeded/$ID/patch_rebased.diff ] && P=/verif/seeded/$ID/patch_rebased.diff
  cd $WT && git reset -q --hard HEAD && git clean -fdq -e target && git checkout -q --detach "$(git -C /repo rev-parse HEAD)"
  applied=true
  if ! git apply --3way "$P" 2>/dev/null; then git reset -q --hard HEAD; git apply "$P" 2>/dev/null || applied=false; fi
  if git diff --name-only --diff-filter=U | grep -q .; then git reset -q --hard HEAD; applied=false; fi
  git reset -q
  if [ $applied = false ]; then
    echo "{\"id\":\"$ID\",\"applied\":false,\"exit\":null,\"violations\":0}" >> $RES; continue
  fi
  rsync -a --delete /verif/harness/src/ $H/src/
  cp /verif/harness/Cargo.lock $H/Cargo.lock
  sed "s#path = \"/repo\"#path = \"$WT\"#" /verif/harness/Cargo.toml > $H/Cargo.toml
  cp /verif/harness/.cargo/config.toml $H/.cargo/config.toml
  cd /verif && VERIF_DEV_HARNESS=$H VERIF_DEV_OUT=$OUT timeout 3000 ./check $PROP --tier quick > /tmp/sw_check_$SLOT.out 2>&1
  rc=$?
  nv=$(grep -c "^VIOLATION" /tmp/sw_check_$SLOT.out)
  echo "{\"id\":\"$ID\",\"applied\":true,\"exit\":$rc,\"violations\":$nv}" >> $RES
done
cd $WT && git reset -q --hard HEAD
