#!/usr/bin/env python3
"""Prints the markdown summary of the mutation run stored under /verif/mutation (index.json, results.ndjson, triage.json)."""
import json, collections
ix = {m["id"]: m for m in json.load(open("/verif/mutation/index.json"))}
res = {}
for l in open("/verif/mutation/results.ndjson"):
    r = json.loads(l)
    res[r["id"]] = r
tri = json.load(open("/verif/mutation/triage.json"))["triage"]
c = collections.Counter(r["result"] for r in res.values())
print(f"{len(ix)} mutants generated, {len(res)} run.\n")
print("| outcome of the first pass (quick checks mapped to the mutated file, at most three) | mutants |\n|---|---|")
names = {"caught": "reported by a check (exit 1, VIOLATION line)", "SURVIVED": "passed the mapped checks and the repository's 1627 tests",
         "survived-checks-killed-by-tests": "passed the mapped checks, killed by the repository's tests", "hang": "check timed out (the mutant loops)",
         "tool-error": "harness died on a panic inside the crate (exit 2; guards added afterwards)", "no-apply": "did not apply / build", "no-build": "did not build",
         "killed-by-tests": "killed by the tests (first three mutants only: tests were run first)"}
for k, v in c.most_common():
    print(f"| {names.get(k, k)} | {v} |")
let = [i for i, r in res.items() if r["result"] in ("SURVIVED", "survived-checks-killed-by-tests", "hang", "tool-error")]
tc = collections.Counter(tri[i][0] if i in tri else "not triaged one by one" for i in let)
print("\n| triage of the mutants let through | mutants |\n|---|---|")
for k, v in tc.most_common():
    print(f"| {k} | {v} |")
byfile = collections.defaultdict(lambda: [0, 0])
for i, r in res.items():
    f = ix[i]["file"]
    byfile[f][1] += 1
    if r["result"] == "caught":
        byfile[f][0] += 1
print("\n| file | reported / run |\n|---|---|")
for f, (a, b) in sorted(byfile.items()):
    print(f"| `{f}` | {a} / {b} |")

import os
if os.path.exists("/verif/mutation/batch2/results.ndjson"):
    r2 = [json.loads(l) for l in open("/verif/mutation/batch2/results.ndjson")]
    t2 = json.load(open("/verif/mutation/batch2/triage.json"))["triage"]
    c2 = collections.Counter(r["result"] for r in r2)
    print(f"\nSecond batch (core files, four checks per file, the {len(r2)} mutants not in the first batch): " + ", ".join(f"{names.get(k, k)}: {v}" for k, v in c2.most_common()) + ".")
    tc2 = collections.Counter(t2[r["id"]][0] if r["id"] in t2 else "not triaged" for r in r2 if r["result"] != "caught")
    print("Triage of those let through: " + ", ".join(f"{k} {v}" for k, v in tc2.most_common()) + ".")
