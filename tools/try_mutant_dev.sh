#!/bin/bash
# usage: tools/try_mutant_dev.sh <patch.diff> <property-id> [tier]
# Development helper: tries a seeded change WITHOUT touching /repo. A scratch worktree of /repo's HEAD (/tmp/wt/dev) gets the
# patch, a scratch copy of the harness (/tmp/hdev, path dependency -> /tmp/wt/dev) is built against it, and the check writes
# its work files, evidence and replays under /tmp/vdev. Serialised by a lock (one scratch worktree).
P=$1; ID=$2; TIER=${3:-quick}
if [ -f "$(dirname $P)/patch_rebased.diff" ]; then P="$(dirname $P)/patch_rebased.diff"; fi
exec 9>/tmp/try_mutant_dev.lock; flock 9
WT=/tmp/wt/dev; H=/tmp/hdev
if [ ! -d $WT ]; then git -C /repo worktree add -q --detach $WT HEAD || exit 2; fi
cd $WT && git reset -q --hard HEAD && git clean -fdq -e target && git checkout -q --detach "$(git -C /repo rev-parse HEAD)" || exit 2
if [ "$P" != "none" ]; then
  git apply --3way "$P" 2>/tmp/apply_dev.err || { git reset -q --hard HEAD ; git apply "$P" 2>>/tmp/apply_dev.err || { cat /tmp/apply_dev.err; exit 2; }; }
  git reset -q
fi
mkdir -p $H/src $H/.cargo /tmp/vdev
rsync -a --delete /verif/harness/src/ $H/src/
cp /verif/harness/Cargo.lock $H/Cargo.lock
sed "s#path = \"/repo\"#path = \"$WT\"#" /verif/harness/Cargo.toml > $H/Cargo.toml
cp /verif/harness/.cargo/config.toml $H/.cargo/config.toml
cd /verif && VERIF_DEV_HARNESS=$H VERIF_DEV_OUT=/tmp/vdev ./check "$ID" --tier "$TIER" > /tmp/mutant_dev_$ID.out 2>&1
RC=$?
cd $WT && git checkout -q -- . 
echo "check exit=$RC"
grep -c "^VIOLATION" /tmp/mutant_dev_$ID.out
grep "^VIOLATION" /tmp/mutant_dev_$ID.out | head -3
grep "TOOL-ERROR" /tmp/mutant_dev_$ID.out | head
exit $RC
