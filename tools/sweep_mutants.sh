#!/bin/bash
# usage: tools/sweep_mutants.sh [ids...]   applies every seeded change in turn to /repo, runs the quick check of its property,
# restores /repo, and writes seeded/RESULTS.json {id: {applied, exit, violations}}
cd /verif
IDS="$@"; [ -z "$IDS" ] && IDS=$(ls seeded | grep -E '^C[0-9]+[a-z]$')
echo "{" > seeded/RESULTS.json.tmp
first=1
for id in $IDS; do
  prop=${id%?}
  out=$(tools/try_mutant.sh /verif/seeded/$id/patch.diff $prop 2>&1)
  applied=true; echo "$out" | grep -q "patch does not apply\|does not apply" && applied=false
  ex=$(echo "$out" | grep -oE "check exit=[0-9]+" | tail -1 | cut -d= -f2)
  nv=$(echo "$out" | grep -c "^VIOLATION")
  [ $first = 1 ] || echo "," >> seeded/RESULTS.json.tmp; first=0
  echo "  \"$id\": {\"applied\": $applied, \"exit\": ${ex:-null}, \"violations\": $nv}" >> seeded/RESULTS.json.tmp
  echo "$id applied=$applied exit=$ex violations=$nv"
done
echo "}" >> seeded/RESULTS.json.tmp; mv seeded/RESULTS.json.tmp seeded/RESULTS.json
git -C /repo status --short | head -3
