#!/bin/bash
# usage: tools/try_mutant.sh <patch.diff> <property-id> [tier]
# Applies a seeded change to /repo, runs the check, and always reverts /repo afterwards.
P=$1; ID=$2; TIER=${3:-quick}
# prefer a rebased patch (for the current /repo HEAD) when one exists next to the original
if [ -f "$(dirname $P)/patch_rebased.diff" ]; then P="$(dirname $P)/patch_rebased.diff"; fi
cd /repo || exit 2
if ! git diff --quiet; then echo "/repo has uncommitted changes"; exit 2; fi
if ! git apply --3way "$P" 2>/tmp/apply.err; then
  git reset -q --hard HEAD
  if ! git apply "$P" 2>>/tmp/apply.err; then cat /tmp/apply.err; git reset -q --hard HEAD ; exit 2; fi
fi
git reset -q
cd /verif && ./check "$ID" --tier "$TIER" > /tmp/mutant_$ID.out 2>&1
RC=$?
cd /repo && git reset -q --hard HEAD && git status --short | grep -v '^??' 
echo "check exit=$RC"
grep -c "^VIOLATION" /tmp/mutant_$ID.out
grep "^VIOLATION" /tmp/mutant_$ID.out | head -3
grep "TOOL-ERROR" /tmp/mutant_$ID.out | head
exit $RC
