"""Driver library for /verif/check: TLC runs, harness runs, trace validation, evidence, findings."""
import json, os, re, subprocess, sys, time, hashlib, shutil

ROOT = os.path.dirname(os.path.abspath(__file__))
SPEC = os.path.join(ROOT, "spec")
# development only (never set by the registered commands): run the same checks against a scratch copy of the harness that
# depends on a scratch worktree of the crate, with all outputs outside /verif, so that seeded changes can be tried while
# other checks run against /repo (tools/try_mutant_dev.sh)
_DEV_OUT = os.environ.get("VERIF_DEV_OUT")
WORK = os.path.join(_DEV_OUT or ROOT, "work")
HARNESS = os.environ.get("VERIF_DEV_HARNESS") or os.path.join(ROOT, "harness")
VH = os.path.join(HARNESS, "target", "release", "vh")
EVID = os.path.join(_DEV_OUT or ROOT, "evidence")
REPLAYS = os.path.join(_DEV_OUT or ROOT, "replays")
JAVA_TV = "-Xss1g -Xmx3g -Dtlc2.tool.queue.IStateQueue=StateDeque"


class ToolError(Exception):
    pass


def log(*a):
    print(*a, file=sys.stderr, flush=True)


class Ctx:
    def __init__(self, pid, tier, seed):
        self.pid, self.tier, self.seed = pid, tier, seed
        self.t0 = time.time()
        self.work = os.path.join(WORK, f"{pid}-{tier}")
        shutil.rmtree(self.work, ignore_errors=True)
        os.makedirs(self.work, exist_ok=True)
        os.makedirs(EVID, exist_ok=True)
        os.makedirs(REPLAYS, exist_ok=True)
        self.states = 0
        self.transitions = 0
        self.traces_validated = 0
        self.evaluations = 0
        self.distinct_nontrivial = 0
        self.samples = []
        self.violations = []   # dicts {what, replay}
        self.known_hits = {}   # finding id -> count
        self.notes = {}
        self.tlc_runs = []
        self.exhaustive = False
        self.findings = load_findings(pid)

    def quick(self):
        return self.tier == "quick"

    def path(self, name):
        return os.path.join(self.work, name)


# ---------------------------------------------------------------------------------------------
def load_findings(pid):
    p = os.path.join(ROOT, "known_findings.json")
    if not os.path.exists(p):
        return []
    data = json.load(open(p))
    return [f for f in data.get("findings", []) if f["property"] == pid]


def build_harness():
    t = time.time()
    r = subprocess.run(["cargo", "build", "--release", "--offline"], cwd=HARNESS, capture_output=True, text=True)
    if r.returncode != 0:
        log(r.stderr[-4000:])
        raise ToolError("harness build failed (the working tree of /repo may not compile with the verification cfg)")
    log(f"[build] harness ok in {time.time()-t:.1f}s")


def write_cfg(path, constants, invariants=(), properties=(), spec="Spec", extra=()):
    lines = [f"SPECIFICATION {spec}"]
    if constants:
        lines.append("CONSTANTS")
        for k, v in constants.items():
            if isinstance(v, str) and v.startswith("<-"):
                lines.append(f"  {k} {v}")
            else:
                lines.append(f"  {k} = {tla_val(v)}")
    if invariants:
        lines.append("INVARIANTS")
        lines += [f"  {i}" for i in invariants]
    if properties:
        lines.append("PROPERTIES")
        lines += [f"  {i}" for i in properties]
    lines += list(extra)
    lines.append("CHECK_DEADLOCK FALSE")
    open(path, "w").write("\n".join(lines) + "\n")


def tla_val(v):
    if isinstance(v, bool):
        return "TRUE" if v else "FALSE"
    if isinstance(v, (set, frozenset)):
        return "{" + ", ".join(tla_val(x) for x in sorted(v, key=str)) + "}"
    if isinstance(v, (list, tuple)):
        return "{" + ", ".join(tla_val(x) for x in v) + "}"
    if isinstance(v, str):
        return '"' + v + '"'
    return str(v)


CASE_RE = re.compile(r'^<<"CASE", (".*")>>$')
STATS_RE = re.compile(r"^(\d+) states generated, (\d+) distinct states found")


def run_mc(ctx, module, constants, invariants=(), properties=(), workers=8, timeout=900, cases_out=None,
           simulate=None, extra_cfg=(), env=None, label=None, allow_violation=False, spec="Spec", coverage=True):
    """Runs TLC on spec/<module>.tla with a generated cfg. Returns dict(states, generated, cases, errors)."""
    label = label or module
    cfg = ctx.path(f"{label}.cfg")
    write_cfg(cfg, constants, invariants, properties, spec=spec, extra=extra_cfg)
    out = ctx.path(f"{label}.out")
    md = ctx.path(f"md-{label}")
    cmd = ["timeout", str(timeout), "tlc", "-workers", str(workers), "-metadir", md, "-cleanup", "-noGenerateSpecTE"]
    if coverage:
        cmd += ["-coverage", "1"]       # (TLC's coverage collection does not terminate on some recursive specifications)
    cmd += ["-config", cfg]
    if simulate:
        cmd += ["-simulate", simulate]
    cmd += [os.path.join(SPEC, module + ".tla")]
    e = dict(os.environ)
    e.setdefault("JAVA_TOOL_OPTIONS", "-Xss512m")
    if env:
        e.update(env)
    t = time.time()
    with open(out, "w") as fo:
        rc = subprocess.run(cmd, stdout=fo, stderr=subprocess.STDOUT, cwd=ctx.work, env=e).returncode
    dt = time.time() - t
    ncases = 0
    generated = distinct = 0
    errors = []
    cov_zero = []
    fc = open(cases_out, "w") if cases_out else None
    with open(out) as f:
        for line in f:
            if line.startswith('<<"CASE"'):
                m = CASE_RE.match(line.rstrip("\n"))
                if m and fc:
                    fc.write(json.loads(m.group(1)) + "\n")
                ncases += 1
                continue
            m = STATS_RE.match(line)
            if m:
                generated, distinct = int(m.group(1)), int(m.group(2))
            if line.startswith("Error:"):
                errors.append(line.strip())
            m2 = re.match(r"^<(\w+) line .* of module (\w+)>: (\d+):(\d+)", line)
            if m2 and m2.group(3) == "0" and m2.group(4) == "0":
                cov_zero.append(m2.group(1))
    if fc:
        fc.close()
    shutil.rmtree(md, ignore_errors=True)
    info = dict(module=module, label=label, rc=rc, wall_s=round(dt, 1), generated=generated, distinct=distinct,
                cases=ncases, constants={k: str(v) for k, v in constants.items()}, never_enabled=cov_zero,
                invariants=list(invariants), properties=list(properties))
    ctx.tlc_runs.append(info)
    log(f"[tlc] {label}: rc={rc} {distinct} distinct / {generated} generated, {ncases} cases, {dt:.1f}s")
    if rc == 124:
        raise ToolError(f"TLC timeout on {label}")
    if rc not in (0, 12, 13):
        if not (simulate and rc == 0):
            tail = subprocess.run(["tail", "-30", out], capture_output=True, text=True).stdout
            raise ToolError(f"TLC failed on {label} rc={rc}\n{tail}")
    ctx.states += distinct
    ctx.transitions += generated
    info["errors"] = errors
    info["out"] = out
    if rc in (12, 13) and not allow_violation:
        # the declarative property is violated on the operational model (V-model)
        rp = save_replay(ctx, "model", dict(kind="model", module=module, constants=info["constants"], tlc_output=out,
                                            errors=errors,
                                            trace=subprocess.run(["grep", "-v", "CASE", out], capture_output=True, text=True).stdout[-20000:]))
        ctx.violations.append(dict(what=f"model-level violation in {label}: {errors[:2]}", replay=rp))
    return info


MIS_RE = re.compile(r'^<<"(MISMATCH|KNOWN)", "([^"]*)", (".*")>>$')
MIS2_RE = re.compile(r'^<<"(MISMATCH|KNOWN)", "([^"]*)", "([^"]*)", (".*")>>$')
DONE_RE = re.compile(r'^<<"TVDONE", (\d+), (\d+), (\d+)>>')


def _unjson(tla_string_literal):
    """TLC prints ToJson(..) as a TLA+ string literal: decode the literal, then the JSON inside it."""
    v = json.loads(tla_string_literal)
    if isinstance(v, str):
        try:
            return json.loads(v)
        except Exception:
            return v
    return v


def _tv_one(ctx, module, trace, timeout, label, constants, env, invariants=(), spec="Spec"):
    cfg = ctx.path(f"{label}.cfg")
    lines = [f"SPECIFICATION {spec}"]
    if constants:
        lines.append("CONSTANTS")
        for k, v in constants.items():
            lines.append(f"  {k} = {tla_val(v)}")
    for inv in invariants:
        lines.append(f"INVARIANT {inv}")
    lines += ["POSTCONDITION Accepted", "CHECK_DEADLOCK FALSE"]
    open(cfg, "w").write("\n".join(lines) + "\n")
    out = ctx.path(f"{label}.out")
    md = ctx.path(f"md-{label}")
    e = dict(os.environ)
    e["TRACE"] = trace
    e["JAVA_TOOL_OPTIONS"] = JAVA_TV
    if env:
        e.update(env)
    cmd = ["timeout", str(timeout), "tlc", "-workers", "1", "-metadir", md, "-cleanup", "-noGenerateSpecTE",
           "-config", cfg, os.path.join(SPEC, module + ".tla")]
    fo = open(out, "w")
    p = subprocess.Popen(cmd, stdout=fo, stderr=subprocess.STDOUT, cwd=ctx.work, env=e)
    return p, fo, out, md


def run_tv(ctx, module, trace, timeout=1800, label=None, constants=None, env=None, shards=None, invariants=(), spec="Spec"):
    """Validates a recorded NDJSON trace against spec/<module>.tla (split into shards run in parallel).
    Returns list of (id, detail, tag, extra)."""
    label = label or module
    nlines = sum(1 for _ in open(trace))
    if shards is None:
        shards = 1 if nlines < 4000 else min(12, max(2, nlines // 4000))
    files = []
    if shards <= 1:
        files = [trace]
    else:
        outs = [open(ctx.path(f"{label}.shard{i}.ndjson"), "w") for i in range(shards)]
        with open(trace) as f:
            for n, line in enumerate(f):
                outs[n % shards].write(line)
        for o in outs:
            o.close()
        files = [o.name for o in outs]
    t = time.time()
    procs = [_tv_one(ctx, module, fpath, timeout, f"{label}-{i}", constants, env, invariants, spec) for i, fpath in enumerate(files)]
    mism = []
    tot_consumed = tot_total = tot_bad = 0
    generated = distinct = 0
    for (p, fo, out, md) in procs:
        rc = p.wait()
        fo.close()
        done = None
        with open(out) as f:
            for line in f:
                line = line.rstrip("\n")
                if line.startswith('<<"MISMATCH"') or line.startswith('<<"KNOWN"'):
                    m = MIS2_RE.match(line)
                    if m:
                        mism.append((m.group(2), _unjson(m.group(4)), m.group(1), m.group(3)))
                        continue
                    m = MIS_RE.match(line)
                    if m:
                        mism.append((m.group(2), _unjson(m.group(3)), m.group(1), ""))
                    else:
                        mism.append(("?", line[:2000], "MISMATCH", ""))
                    continue
                m = DONE_RE.match(line)
                if m:
                    done = tuple(int(x) for x in m.groups())
                m = STATS_RE.match(line)
                if m:
                    generated += int(m.group(1)); distinct += int(m.group(2))
        shutil.rmtree(md, ignore_errors=True)
        if rc not in (0, 10) or done is None:
            tail = subprocess.run(["tail", "-30", out], capture_output=True, text=True).stdout
            for (p2, _, _, _) in procs:
                if p2.poll() is None:
                    p2.kill()
            raise ToolError(f"trace validator {label} failed rc={rc}\n{tail[-3000:]}")
        tot_consumed += done[0]; tot_total += done[1]; tot_bad += done[2]
    dt = time.time() - t
    for fpath in files:
        if fpath != trace:
            os.remove(fpath)
    log(f"[tlc] {label}: {len(files)} shard(s) done=({tot_consumed}, {tot_total}, {tot_bad}) mismatches={len(mism)} {dt:.1f}s")
    ctx.tlc_runs.append(dict(module=module, label=label, shards=len(files), wall_s=round(dt, 1), generated=generated,
                             distinct=distinct, done=[tot_consumed, tot_total, tot_bad], mismatches=len(mism)))
    if tot_consumed != tot_total or tot_total != nlines:
        raise ToolError(f"trace validator {label} consumed {tot_consumed} of {tot_total} records ({nlines} lines)")
    ctx.states += distinct
    ctx.transitions += generated
    ctx.traces_validated += tot_total - tot_bad
    return mism


def run_vh(ctx, args, timeout=3600, allow_rc=(0,)):
    cmd = [VH] + [str(a) for a in args]
    t = time.time()
    r = subprocess.run(cmd, capture_output=True, text=True, timeout=timeout, cwd=ctx.work)
    dt = time.time() - t
    if r.stderr.strip():
        log(r.stderr[-3000:])
    if r.returncode not in allow_rc:
        raise ToolError(f"harness {' '.join(cmd[1:3])} failed rc={r.returncode}: {r.stderr[-2000:]}")
    last = r.stdout.strip().split("\n")[-1] if r.stdout.strip() else "{}"
    try:
        stats = json.loads(last)
    except Exception:
        raise ToolError(f"harness produced no stats: {r.stdout[-500:]}")
    log(f"[vh] {' '.join(str(a) for a in args[:1])}: {dt:.1f}s " + json.dumps({k: v for k, v in stats.items() if k != 'samples'})[:400])
    return stats


def index_records(path, ids):
    """Returns {id: record} for the requested ids from an NDJSON record file."""
    want = set(ids)
    out = {}
    if not want:
        return out
    with open(path) as f:
        for line in f:
            # cheap pre-filter
            try:
                r = json.loads(line)
            except Exception:
                continue
            if r.get("id") in want:
                out[r["id"]] = r
                if len(out) == len(want):
                    break
    return out


def save_replay(ctx, tag, obj):
    h = hashlib.sha1(json.dumps(obj, sort_keys=True, default=str).encode()).hexdigest()[:12]
    p = os.path.join(REPLAYS, f"{ctx.pid}-{tag}-{h}.json")
    obj = dict(obj)
    obj.update(property=ctx.pid, tier=ctx.tier, seed=ctx.seed)
    json.dump(obj, open(p, "w"), indent=1, default=str)
    return p


def classify_mismatches(ctx, mism, recfile, matchers, what, max_report=20):
    """Splits mismatches into known findings and violations. matchers: {finding_id: fn(record, detail)->bool}."""
    if not mism:
        return
    recs = index_records(recfile, [m[0] for m in mism]) if recfile else {m[0]: (m[1].get("rec", {}) if isinstance(m[1], dict) else {}) for m in mism}
    active = {f["id"]: f for f in ctx.findings if f.get("status") == "known"}
    nv = 0
    for (rid, detail, tag, extra) in mism:
        rec = recs.get(rid, {})
        hit = None
        for fid, f in active.items():
            fn = matchers.get(fid)
            try:
                if fn and fn(rec, detail):
                    hit = fid
                    break
            except Exception:
                pass
        if hit:
            ctx.known_hits[hit] = ctx.known_hits.get(hit, 0) + 1
            continue
        nv += 1
        if nv <= max_report:
            rp = save_replay(ctx, "rec", dict(kind="record", what=what, record=rec, detail=detail, extra=extra))
            ctx.violations.append(dict(what=f"{what}: record {rid}", replay=rp))
        elif nv == max_report + 1:
            ctx.notes["more_violations"] = "further mismatching records not listed individually"
    if nv > max_report:
        ctx.notes["violations_total_" + what.replace(" ", "_")] = nv


def finish(ctx, level, rule, assumptions, extra_cov=None):
    wall = time.time() - ctx.t0
    cov = dict(states=max(ctx.states, 0), transitions=max(ctx.transitions, 0),
               traces_validated_against_impl=ctx.traces_validated,
               evaluations=ctx.evaluations, distinct_nontrivial=ctx.distinct_nontrivial, rule=rule,
               samples=ctx.samples[:8] or ["(no samples)"], exhaustive=ctx.exhaustive,
               tlc_runs=[{k: v for k, v in r.items() if k not in ("out", "errors")} for r in ctx.tlc_runs],
               known_findings_hit=ctx.known_hits, notes=ctx.notes)
    if extra_cov:
        cov.update(extra_cov)
    ev = dict(property_id=ctx.pid, tier=ctx.tier, seed=ctx.seed, level=level, coverage=cov,
              assumptions=assumptions, wall_s=round(wall, 1), violations=len(ctx.violations))
    json.dump(ev, open(os.path.join(EVID, f"{ctx.pid}.json"), "w"), indent=1, default=str)
    for f in ctx.findings:
        if f.get("status") == "known":
            n = ctx.known_hits.get(f["id"], 0)
            print(f"KNOWN-FINDING: property={ctx.pid} {f['what']} (finding {f['id']}; matched {n} case(s) in this run)")
    for v in ctx.violations:
        print(f"VIOLATION property={ctx.pid} replay={v['replay']}  # {v['what']}")
    log(f"[done] {ctx.pid} {ctx.tier}: {len(ctx.violations)} violation(s), {wall:.1f}s")
    return 1 if ctx.violations else 0
